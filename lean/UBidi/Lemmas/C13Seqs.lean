/-
  C13 — helper lemmas, part 5: BD13 (`Spec.addRun`, the fold in `Spec.isolatingRunSequences`).
  `addRun` is "modify the first sequence the run continues" (`modFirst`); `seqs_sim` relates the
  sequences of a text with a balanced higher-level block to the sequences of the text without it.
-/
import UBidi.Lemmas.C13MatchTable
import UBidi.Lemmas.C13Runs
namespace UBidi.Props.C13
open UBidi UBidi.Spec BidiClass

/-! ### BD13 (`addRun`) as "modify the first sequence that the run continues" -/

def modFirst {α} (p : α → Bool) (f : α → α) (d : α) : List α → List α
  | [] => [d]
  | x :: xs => if p x then f x :: xs else x :: modFirst p f d xs

/-- the `continues` test of `Spec.addRun` -/
def continues (mt : List (Option Nat)) (r1 : Nat) (s : List (Nat × Nat)) : Bool :=
  match s.getLast? with
  | some (_, e) => e > 0 && (mt.getD (e - 1) none) == some r1
  | none => false

theorem findIdx_modFirst {α} (p : α → Bool) (f : α → α) (d dflt : α) (l : List α) :
    (match l.findIdx? p with
     | some k => l.set k (f (l.getD k dflt))
     | none => l ++ [d]) = modFirst p f d l := by
  induction l with
  | nil => simp [modFirst]
  | cons x xs ih =>
    simp only [List.findIdx?_cons, modFirst]
    by_cases hp : p x = true
    · simp [hp]
    · simp only [hp, Bool.false_eq_true, if_false]
      rw [← ih]
      cases xs.findIdx? p with
      | none => simp
      | some k => simp

theorem addRun_eq_modFirst (mt : List (Option Nat)) (seqs : List (List (Nat × Nat))) (r : Nat × Nat) :
    addRun mt seqs r = modFirst (continues mt r.1) (· ++ [r]) [r] seqs := by
  rw [← findIdx_modFirst (continues mt r.1) (· ++ [r]) [r] [] seqs]
  rfl

theorem modFirst_append {α} (p : α → Bool) (f : α → α) (d : α) (X Y : List α) :
    modFirst p f d (X ++ Y) = if X.any p then modFirst p f d X ++ Y else X ++ modFirst p f d Y := by
  induction X with
  | nil => simp
  | cons x X ih =>
    simp only [List.cons_append, modFirst, List.any_cons]
    by_cases hp : p x = true
    · simp [hp]
    · simp only [hp, Bool.false_eq_true, if_false, Bool.false_or, ih]
      split <;> simp

theorem modFirst_map {α β} (p : α → Bool) (f : α → α) (d : α) (p' : β → Bool) (f' : β → β) (g : α → β)
    (l : List α) (hp : ∀ x ∈ l, p' (g x) = p x) (hf : ∀ x ∈ l, g (f x) = f' (g x)) :
    (modFirst p f d l).map g = modFirst p' f' (g d) (l.map g) := by
  induction l with
  | nil => simp [modFirst]
  | cons x xs ih =>
    simp only [modFirst, List.map_cons, hp x (by simp)]
    split
    · simp [hf x (by simp)]
    · simp only [List.map_cons]
      rw [ih (fun y hy => hp y (by simp [hy])) (fun y hy => hf y (by simp [hy]))]

theorem modFirst_mem {α} (p : α → Bool) (f : α → α) (d : α) (l : List α) (y : α)
    (h : y ∈ modFirst p f d l) : y ∈ l ∨ y = d ∨ ∃ x ∈ l, y = f x := by
  induction l with
  | nil => simp [modFirst] at h; simp [h]
  | cons x xs ih =>
    simp only [modFirst] at h
    split at h
    · rcases List.mem_cons.1 h with rfl | h
      · right; right; exact ⟨x, by simp, rfl⟩
      · left; simp [h]
    · rcases List.mem_cons.1 h with rfl | h
      · left; simp
      · rcases ih h with h | h | ⟨z, hz, h⟩
        · left; simp [h]
        · right; left; exact h
        · right; right; exact ⟨z, by simp [hz], h⟩


/-! ### the simulation: sequences of the text with the block against the text without it -/

/-- a run of the text without the block, in the text with a block of length `m` at position `a` -/
def splitRun (a m : Nat) (r : Nat × Nat) : List (Nat × Nat) :=
  if r.2 ≤ a then [r] else if a ≤ r.1 then [(r.1 + m, r.2 + m)] else [(r.1, a), (a + m, r.2 + m)]

def phi (a m : Nat) (s : List (Nat × Nat)) : List (Nat × Nat) := s.flatMap (splitRun a m)

def endMap (a m e : Nat) : Nat := if e ≤ a then e else e + m

def lastEnd? (s : List (Nat × Nat)) : Option Nat := s.getLast?.map (·.2)

theorem continues_eq (mt : List (Option Nat)) (r1 : Nat) (s : List (Nat × Nat)) :
    continues mt r1 s = match lastEnd? s with
      | some e => decide (e > 0) && (mt.getD (e - 1) none == some r1)
      | none => false := by
  unfold continues lastEnd?
  cases s.getLast? with
  | none => rfl
  | some r => rfl

theorem lastEnd?_phi (a m : Nat) (s : List (Nat × Nat)) :
    lastEnd? (phi a m s) = (lastEnd? s).map (endMap a m) := by
  rcases List.eq_nil_or_concat s with rfl | ⟨s', r, rfl⟩
  · rfl
  · unfold lastEnd? phi
    have hne : splitRun a m r ≠ [] := by unfold splitRun; split <;> (try split) <;> simp
    simp only [List.concat_eq_append, List.flatMap_append, List.flatMap_cons, List.flatMap_nil,
      List.append_nil, List.getLast?_append, List.getLast?_singleton]
    unfold splitRun endMap
    split
    · simp [*]
    · split <;> simp [*]

structure SimHyp (a m : Nat) (mtA mtS : List (Option Nat)) : Prop where
  ha : 0 < a
  H1 : ∀ q, mtA.getD (sig a m q) none = (mtS.getD q none).map (sig a m)
  H3 : ∀ q t, a ≤ q → q < a + m → mtA.getD q none = some t → a ≤ t ∧ t < a + m
  H5 : ∀ q, q + 1 < a → mtS.getD q none ≠ some a
  H6 : mtS.getD (a - 1) none = some a

theorem sig_inj {a m p q : Nat} (h : sig a m p = sig a m q) : p = q := by
  unfold sig at h; split at h <;> split at h <;> omega

theorem sig_not_content (a m p : Nat) : ¬ (a ≤ sig a m p ∧ sig a m p < a + m) := by
  unfold sig; split <;> omega

theorem endMap_pred {a m e : Nat} (he : 0 < e) : endMap a m e - 1 = sig a m (e - 1) := by
  unfold endMap sig; split <;> split <;> omega

theorem endMap_pos {a m e : Nat} : (0 < endMap a m e) ↔ 0 < e := by
  unfold endMap; split <;> omega

variable {a m : Nat} {mtA mtS : List (Option Nat)}

/-- a sequence of the shorter text continues with `r1` iff its image continues with the image of `r1` -/
theorem continues_phi (H : SimHyp a m mtA mtS) (r1 : Nat) (s : List (Nat × Nat)) :
    continues mtA (sig a m r1) (phi a m s) = continues mtS r1 s := by
  rw [continues_eq, continues_eq, lastEnd?_phi]
  cases lastEnd? s with
  | none => rfl
  | some e =>
    simp only [Option.map_some]
    by_cases he : 0 < e
    · have : 0 < endMap a m e := endMap_pos.2 he
      rw [endMap_pred he, H.H1]
      simp only [gt_iff_lt, this, he, decide_true, Bool.true_and]
      cases mtS.getD (e - 1) none with
      | none => simp
      | some t =>
        simp only [Option.map_some]
        by_cases ht : t = r1
        · subst ht; simp
        · have : sig a m t ≠ sig a m r1 := fun h => ht (sig_inj h)
          have e1 : (sig a m t == sig a m r1) = false := by simpa using this
          have e2 : (t == r1) = false := by simpa using ht
          simp [e1, e2]
    · have : ¬ 0 < endMap a m e := fun h => he (endMap_pos.1 h)
      simp [this, he]

/-- an image sequence is never continued by a run that starts inside the block -/
theorem continues_phi_content (H : SimHyp a m mtA mtS) (t : Nat) (ht1 : a ≤ t) (ht2 : t < a + m)
    (s : List (Nat × Nat)) : continues mtA t (phi a m s) = false := by
  rw [continues_eq, lastEnd?_phi]
  cases lastEnd? s with
  | none => rfl
  | some e =>
    simp only [Option.map_some]
    by_cases he : 0 < e
    · rw [endMap_pred he, H.H1]
      cases mtS.getD (e - 1) none with
      | none => simp
      | some u =>
        have : sig a m u ≠ t := fun h => sig_not_content a m u (by rw [h]; exact ⟨ht1, ht2⟩)
        simp [this]
    · have : ¬ 0 < endMap a m e := fun h => he (endMap_pos.1 h)
      simp [this]

/-- a sequence inside the block is never continued by a run that starts outside -/
theorem continues_content (H : SimHyp a m mtA mtS) (t : Nat) (ht : ¬ (a ≤ t ∧ t < a + m))
    (sc : List (Nat × Nat)) (hsc : ∀ r ∈ sc, a ≤ r.1 ∧ r.1 < r.2 ∧ r.2 ≤ a + m) :
    continues mtA t sc = false := by
  rw [continues_eq]
  unfold lastEnd?
  cases h : sc.getLast? with
  | none => rfl
  | some r =>
    have hr := hsc r (List.mem_of_getLast? h)
    simp only [Option.map_some]
    cases h2 : mtA.getD (r.2 - 1) none with
    | none => simp
    | some u =>
      have := H.H3 (r.2 - 1) u (by omega) (by omega) h2
      have : u ≠ t := fun e => ht (e ▸ this)
      simp [this]


/-- the sequences of the longer text: images of the sequences of the shorter text, with the
    sequences `SC` of the block somewhere in between -/
def Rel (a m : Nat) (SC seqsS seqsA : List (List (Nat × Nat))) : Prop :=
  ∃ TA TB, seqsS = TA ++ TB ∧ seqsA = TA.map (phi a m) ++ SC ++ TB.map (phi a m)

theorem phi_append (a m : Nat) (s t : List (Nat × Nat)) : phi a m (s ++ t) = phi a m s ++ phi a m t := by
  simp [phi]

theorem rel_step (H : SimHyp a m mtA mtS) (SC seqsS seqsA : List (List (Nat × Nat)))
    (hrel : Rel a m SC seqsS seqsA) (r rA : Nat × Nat) (hsplit : splitRun a m r = [rA])
    (hrA : rA.1 = sig a m r.1) (hSC : ∀ sc ∈ SC, continues mtA rA.1 sc = false) :
    Rel a m SC (addRun mtS seqsS r) (addRun mtA seqsA rA) := by
  obtain ⟨TA, TB, rfl, rfl⟩ := hrel
  rw [addRun_eq_modFirst, addRun_eq_modFirst, List.append_assoc]
  rw [modFirst_append, modFirst_append]
  have hmap : ∀ T : List (List (Nat × Nat)),
      (modFirst (continues mtS r.1) (· ++ [r]) [r] T).map (phi a m) =
        modFirst (continues mtA rA.1) (· ++ [rA]) [rA] (T.map (phi a m)) := by
    intro T
    have := modFirst_map (continues mtS r.1) (· ++ [r]) [r] (continues mtA rA.1) (· ++ [rA]) (phi a m) T
      (fun x _ => by rw [hrA]; exact continues_phi H r.1 x)
      (fun x _ => by simp only [phi_append]; congr 1; simp [phi, hsplit])
    rw [this]
    congr 1
    simp [phi, hsplit]
  have hany : (TA.map (phi a m)).any (continues mtA rA.1) = TA.any (continues mtS r.1) := by
    rw [List.any_map]
    congr 1
    funext x
    simp only [Function.comp]
    rw [hrA]; exact continues_phi H r.1 x
  rw [hany]
  by_cases h : TA.any (continues mtS r.1) = true
  · simp only [h, if_true]
    exact ⟨_, TB, rfl, by rw [hmap]; simp⟩
  · simp only [h, Bool.false_eq_true, if_false]
    have hSC' : SC.any (continues mtA rA.1) = false := by
      rw [List.any_eq_false]; intro x hx; simp [hSC x hx]
    rw [modFirst_append, hSC']
    simp only [Bool.false_eq_true, if_false]
    exact ⟨TA, _, rfl, by rw [hmap]; simp⟩

theorem rel_fold (H : SimHyp a m mtA mtS) (SC : List (List (Nat × Nat)))
    (hSC : ∀ sc ∈ SC, ∀ r ∈ sc, a ≤ r.1 ∧ r.1 < r.2 ∧ r.2 ≤ a + m)
    (Rs : List (Nat × Nat)) (hRs : ∀ r ∈ Rs, r.1 < r.2 ∧ (r.2 ≤ a ∨ a ≤ r.1))
    (seqsS seqsA : List (List (Nat × Nat))) (hrel : Rel a m SC seqsS seqsA) :
    Rel a m SC (Rs.foldl (addRun mtS) seqsS) ((Rs.flatMap (splitRun a m)).foldl (addRun mtA) seqsA) := by
  induction Rs generalizing seqsS seqsA with
  | nil => exact hrel
  | cons r Rs ih =>
    have hr := hRs r (by simp)
    obtain ⟨rA, hsplit, hrA⟩ : ∃ rA, splitRun a m r = [rA] ∧ rA.1 = sig a m r.1 := by
      unfold splitRun sig
      rcases hr.2 with h | h
      · exact ⟨r, by simp [h], by have := hr.1; split <;> omega⟩
      · have h2 : ¬ r.2 ≤ a := by have := hr.1; omega
        exact ⟨(r.1 + m, r.2 + m), by simp [h, h2], by simp; omega⟩
    simp only [List.flatMap_cons, hsplit, List.cons_append, List.nil_append, List.foldl_cons]
    apply ih (fun r' hr' => hRs r' (by simp [hr']))
    apply rel_step H SC seqsS seqsA hrel r rA hsplit hrA
    intro sc hsc
    apply continues_content H _ _ sc (hSC sc hsc)
    rw [hrA]; exact sig_not_content a m r.1


theorem fold_inert (mt : List (Option Nat)) (X : List (List (Nat × Nat))) (RC : List (Nat × Nat))
    (h : ∀ s ∈ X, ∀ r ∈ RC, continues mt r.1 s = false) (Y : List (List (Nat × Nat))) :
    RC.foldl (addRun mt) (X ++ Y) = X ++ RC.foldl (addRun mt) Y := by
  induction RC generalizing Y with
  | nil => rfl
  | cons r RC ih =>
    simp only [List.foldl_cons]
    have hX : X.any (continues mt r.1) = false := by
      rw [List.any_eq_false]; intro s hs; simp [h s hs r (by simp)]
    rw [addRun_eq_modFirst, modFirst_append, hX]
    simp only [Bool.false_eq_true, if_false]
    rw [ih (fun s hs r' hr' => h s hs r' (by simp [hr'])), ← addRun_eq_modFirst]

theorem fold_mem (mt : List (Option Nat)) (Rs : List (Nat × Nat)) (init : List (List (Nat × Nat)))
    (P : Nat × Nat → Prop) (hinit : ∀ s ∈ init, ∀ r ∈ s, P r) (hRs : ∀ r ∈ Rs, P r) :
    ∀ s ∈ Rs.foldl (addRun mt) init, ∀ r ∈ s, P r := by
  induction Rs generalizing init with
  | nil => exact hinit
  | cons r0 Rs ih =>
    simp only [List.foldl_cons]
    apply ih _ _ (fun r hr => hRs r (by simp [hr]))
    intro s hs r hr
    rw [addRun_eq_modFirst] at hs
    rcases modFirst_mem _ _ _ _ _ hs with h | h | ⟨z, hz, h⟩
    · exact hinit s h r hr
    · subst h; simp at hr; subst hr; exact hRs _ (by simp)
    · subst h
      rcases List.mem_append.1 hr with h | h
      · exact hinit z hz r h
      · simp at h; subst h; exact hRs _ (by simp)

theorem phi_id_of_le (a m : Nat) (s : List (Nat × Nat)) (h : ∀ r ∈ s, r.2 ≤ a) : phi a m s = s := by
  induction s with
  | nil => rfl
  | cons r s ih =>
    have : splitRun a m r = [r] := by simp [splitRun, h r (by simp)]
    simp only [phi, List.flatMap_cons, this] at ih ⊢
    rw [ih (fun r' hr' => h r' (by simp [hr']))]; rfl

theorem lastEnd?_snoc (s : List (Nat × Nat)) (r : Nat × Nat) : lastEnd? (s ++ [r]) = some r.2 := by
  simp [lastEnd?]

theorem straddle_step3 (H : SimHyp a m mtA mtS) (S0 : List (List (Nat × Nat))) (x b : Nat)
    (hS0 : ∀ s ∈ S0, ∀ r ∈ s, 0 < r.2 ∧ r.2 ≤ x) (hx : x < a) (hb : a < b)
    (SC : List (List (Nat × Nat))) :
    modFirst (continues mtA (a + m)) (· ++ [(a + m, b + m)]) [(a + m, b + m)]
        ((modFirst (continues mtS x) (· ++ [(x, a)]) [(x, a)] S0).map (phi a m) ++ SC) =
      (modFirst (continues mtS x) (· ++ [(x, b)]) [(x, b)] S0).map (phi a m) ++ SC := by
  have hphib : ∀ s : List (Nat × Nat), phi a m (s ++ [(x, b)]) = phi a m s ++ [(x, a), (a + m, b + m)] := by
    intro s; rw [phi_append]; congr 1
    have h1 : ¬ b ≤ a := by omega
    have h2 : ¬ a ≤ x := by omega
    simp [phi, splitRun, h1, h2]
  have hphia : ∀ s : List (Nat × Nat), phi a m (s ++ [(x, a)]) = phi a m s ++ [(x, a)] := by
    intro s; rw [phi_append]; congr 1; simp [phi, splitRun]
  have hcont : ∀ s : List (Nat × Nat), continues mtA (a + m) (s ++ [(x, a)]) = true := by
    intro s
    have h1 := H.H1 (a - 1)
    rw [sig_lt (by have := H.ha; omega), H.H6] at h1
    have h3 : sig a m a = a + m := sig_ge (Nat.le_refl _)
    rw [continues_eq, lastEnd?_snoc]
    simp only [h1, Option.map_some, h3]
    simp [H.ha]
  induction S0 with
  | nil =>
    have e : phi a m [(x, a)] = [(x, a)] := by simp [phi, splitRun]
    have e2 := hphib []
    have e3 := hcont []
    have e4 : phi a m [] = [] := rfl
    simp only [List.nil_append, e4] at e2 e3
    simp only [modFirst, List.map_cons, List.map_nil, e, List.cons_append, List.nil_append, e3, if_true, e2]
  | cons s S0 ih =>
    have hs := hS0 s (by simp)
    simp only [modFirst]
    by_cases hc : continues mtS x s = true
    · simp only [hc, if_true, List.map_cons, List.cons_append, modFirst, hphia, hcont, hphib]
      simp
    · simp only [hc, Bool.false_eq_true, if_false, List.map_cons, List.cons_append, modFirst]
      have hnot : continues mtA (a + m) (phi a m s) = false := by
        have := continues_phi H a s
        rw [sig_ge (Nat.le_refl _)] at this
        rw [this, continues_eq]
        unfold lastEnd?
        cases hl : s.getLast? with
        | none => rfl
        | some r =>
          have hr := hs r (List.mem_of_getLast? hl)
          have := H.H5 (r.2 - 1) (by omega)
          simp only [Option.map_some]
          rw [beq_eq_false_iff_ne.2 this]; simp
      simp only [hnot, Bool.false_eq_true, if_false]
      congr 1
      exact ih (fun s' hs' => hS0 s' (by simp [hs']))

/-- the run `(x, b)` of the shorter text that contains both the initiator (at `a - 1`) and the PDI
    (at `a`) against the three steps in the longer text: the run `(x, a)`, the runs of the block,
    the run `(a + m, b + m)` -/
theorem straddle (H : SimHyp a m mtA mtS) (S0 : List (List (Nat × Nat))) (x b : Nat)
    (hS0 : ∀ s ∈ S0, ∀ r ∈ s, 0 < r.2 ∧ r.2 ≤ x) (hx : x < a) (hb : a < b) (RC : List (Nat × Nat))
    (hRC : ∀ r ∈ RC, a ≤ r.1 ∧ r.1 < r.2 ∧ r.2 ≤ a + m) :
    ((x, a) :: (RC ++ [(a + m, b + m)])).foldl (addRun mtA) (S0.map (phi a m)) =
      (addRun mtS S0 (x, b)).map (phi a m) ++ RC.foldl (addRun mtA) [] := by
  have hsx : sig a m x = x := sig_lt hx
  simp only [List.foldl_cons, List.foldl_append, List.foldl_nil]
  -- step 1: the run (x, a)
  have s1 : addRun mtA (S0.map (phi a m)) (x, a) =
      (modFirst (continues mtS x) (· ++ [(x, a)]) [(x, a)] S0).map (phi a m) := by
    rw [addRun_eq_modFirst]
    have := modFirst_map (continues mtS x) (· ++ [(x, a)]) [(x, a)] (continues mtA x) (· ++ [(x, a)])
      (phi a m) S0
      (fun s _ => by have := continues_phi H x s; rwa [hsx] at this)
      (fun s _ => by simp only [phi_append]; congr 1; simp [phi, splitRun])
    rw [this]; congr 1; simp [phi, splitRun]
  rw [s1]
  -- step 2: the block
  have s2 := fold_inert mtA ((modFirst (continues mtS x) (· ++ [(x, a)]) [(x, a)] S0).map (phi a m)) RC
    (by
      intro s hs r hr
      obtain ⟨s', _, rfl⟩ := List.mem_map.1 hs
      have := hRC r hr
      exact continues_phi_content H r.1 this.1 (by omega) s') []
  rw [List.append_nil] at s2
  rw [s2]
  -- step 3: the run of the PDI
  rw [addRun_eq_modFirst, addRun_eq_modFirst]
  exact straddle_step3 H S0 x b hS0 hx hb _


theorem flatMap_split_low (a m : Nat) (Rs : List (Nat × Nat)) (h : ∀ r ∈ Rs, r.2 ≤ a) :
    Rs.flatMap (splitRun a m) = Rs := phi_id_of_le a m Rs h

theorem flatMap_split_high (a m : Nat) (Rs : List (Nat × Nat)) (h : ∀ r ∈ Rs, a < r.1 ∧ r.1 < r.2) :
    Rs.flatMap (splitRun a m) = Rs.map (shiftRun m) := by
  induction Rs with
  | nil => rfl
  | cons r Rs ih =>
    have hr := h r (by simp)
    have h1 : ¬ r.2 ≤ a := by omega
    have h2 : a ≤ r.1 := by omega
    have : splitRun a m r = [shiftRun m r] := by simp [splitRun, h1, h2, shiftRun]
    simp only [List.flatMap_cons, this, List.map_cons, ih (fun r' hr' => h r' (by simp [hr']))]
    rfl

/-- BD13 for the two texts -/
theorem seqs_sim (H : SimHyp a m mtA mtS) (R0 RT RC : List (Nat × Nat)) (x b : Nat)
    (hR0 : ∀ r ∈ R0, r.1 < r.2 ∧ r.2 ≤ x) (hx : x < a) (hb : a < b)
    (hRT : ∀ r ∈ RT, b ≤ r.1 ∧ r.1 < r.2)
    (hRC : ∀ r ∈ RC, a ≤ r.1 ∧ r.1 < r.2 ∧ r.2 ≤ a + m) :
    ∃ TA TB SC,
      (R0 ++ (x, b) :: RT).foldl (addRun mtS) [] = TA ++ TB ∧
      (R0 ++ (x, a) :: (RC ++ (a + m, b + m) :: RT.map (shiftRun m))).foldl (addRun mtA) [] =
        TA.map (phi a m) ++ SC ++ TB.map (phi a m) ∧
      (∀ sc ∈ SC, ∀ r ∈ sc, a ≤ r.1 ∧ r.1 < r.2 ∧ r.2 ≤ a + m) := by
  -- phase 1
  have p1 := rel_fold H [] (by simp) R0 (fun r hr => ⟨(hR0 r hr).1, Or.inl (by have := hR0 r hr; omega)⟩)
    [] [] ⟨[], [], rfl, rfl⟩
  rw [flatMap_split_low a m R0 (fun r hr => by have := hR0 r hr; omega)] at p1
  obtain ⟨TA0, TB0, e0, e0'⟩ := p1
  have hS0A : R0.foldl (addRun mtA) [] = (R0.foldl (addRun mtS) []).map (phi a m) := by
    rw [e0', e0]; simp
  have hS0 : ∀ s ∈ R0.foldl (addRun mtS) [], ∀ r ∈ s, 0 < r.2 ∧ r.2 ≤ x :=
    fold_mem mtS R0 [] (fun r => 0 < r.2 ∧ r.2 ≤ x) (by simp)
      (fun r hr => by have := hR0 r hr; omega)
  -- phase 2
  have p2 := straddle H (R0.foldl (addRun mtS) []) x b hS0 hx hb RC hRC
  have hSC : ∀ sc ∈ RC.foldl (addRun mtA) [], ∀ r ∈ sc, a ≤ r.1 ∧ r.1 < r.2 ∧ r.2 ≤ a + m :=
    fold_mem mtA RC [] _ (by simp) hRC
  -- phase 3
  have p3 := rel_fold H (RC.foldl (addRun mtA) []) hSC RT
    (fun r hr => ⟨(hRT r hr).2, Or.inr (by have := hRT r hr; omega)⟩)
    (addRun mtS (R0.foldl (addRun mtS) []) (x, b))
    ((addRun mtS (R0.foldl (addRun mtS) []) (x, b)).map (phi a m) ++ RC.foldl (addRun mtA) [])
    ⟨addRun mtS (R0.foldl (addRun mtS) []) (x, b), [], by simp, by simp⟩
  rw [flatMap_split_high a m RT (fun r hr => by have := hRT r hr; omega)] at p3
  obtain ⟨TA, TB, e1, e2⟩ := p3
  refine ⟨TA, TB, RC.foldl (addRun mtA) [], ?_, ?_, hSC⟩
  · rw [List.foldl_append, List.foldl_cons]; exact e1
  · rw [List.foldl_append, hS0A]
    have : (x, a) :: (RC ++ (a + m, b + m) :: RT.map (shiftRun m)) =
        ((x, a) :: (RC ++ [(a + m, b + m)])) ++ RT.map (shiftRun m) := by simp
    rw [this, List.foldl_append, p2]
    exact e2

end UBidi.Props.C13
