/-
  C02 helper lemmas: the X5c width.  Since the repair of finding D10 the scanner of
  `compute_initial_info` looks at the text only through its encoding and through the width of the
  character found at an offset (`text.char_at(start).map_or(1, |(_, len)| len)`).  `iiStepW` is
  `iiStep` with that width function as a parameter; `iiStep_eq` says so.  Everything that compares
  the scans of two texts (a paragraph alone against the whole text, a relabelled text, …) goes
  through it.
-/
import UBidi.Model.Initial
namespace UBidi.Lemmas.C02
open UBidi BidiClass

/-- X5c (repaired, finding D10): the number of code units of the character at offset `k`, as
    `text.char_at(k).map_or(1, |(_, len)| len)` -/
def widthAt (t : Text) (k : Nat) : Nat := match t.charAt k with | some f => f.len | none => 1

theorem widthAt_of_charAt {t : Text} {k : Nat} {s : Seg} (h : t.charAt k = some s) : widthAt t k = s.len := by
  simp [widthAt, h]

/-- `iiStep`, with the encoding and the width function in place of the text -/
def iiStepW (ds : DataSource) (enc : Enc) (w : Nat → Nat) (split : Bool) (dflt : Option Nat)
    (st : IIState) (s : Seg) : IIState :=
  let cls := ds.cls s.cp
  let len := enc.charLen s.cp
  let i := s.start
  let st := { st with classes := st.classes ++ List.replicate len cls }
  match cls with
  | B =>
    if split then
      let paraEnd := i + len
      { st with
        paras := st.paras ++ [{ start := st.paraStart, stop := paraEnd, level := st.paraLevel.getD 0 }]
        flags := st.flags ++ [{ pureLtr := st.pureLtr, hasIso := st.hasIso }]
        paraStart := paraEnd
        paraLevel := dflt
        pureLtr := true
        hasIso := false
        stack := [] }
    else st
  | L | R | AL =>
    let st := if cls != L then { st with pureLtr := false } else st
    match st.stack with
    | start :: _ =>
      if st.classes.getD start ON == FSI then
        let n := w start
        let v := if cls == L then LRI else RLI
        { st with
          classes := setRange st.classes start n v
          err := orErr st.err (if start + n ≤ st.classes.length then none else some .indexOutOfBounds) }
      else st
    | [] =>
      if st.paraLevel.isNone then
        { st with paraLevel := some (if cls != L then 1 else 0) }
      else st
  | AN | LRE | RLE | LRO | RLO => { st with pureLtr := false }
  | RLI | LRI | FSI => { st with pureLtr := false, hasIso := true, stack := i :: st.stack }
  | PDI => { st with stack := st.stack.tail }
  | _ => st

theorem iiStep_eq (ds : DataSource) (t : Text) (split : Bool) (dflt : Option Nat) (st : IIState) (s : Seg) :
    iiStep ds t split dflt st s = iiStepW ds t.enc (widthAt t) split dflt st s := by
  rfl

theorem iiStep_eq_fun (ds : DataSource) (t : Text) (split : Bool) (dflt : Option Nat) :
    iiStep ds t split dflt = iiStepW ds t.enc (widthAt t) split dflt := by
  funext st s; exact iiStep_eq ds t split dflt st s

/-- the scanner consults the width function only at the offsets on its stack -/
theorem iiStepW_congr (ds : DataSource) (enc : Enc) (w w' : Nat → Nat) (split : Bool) (dflt : Option Nat)
    (st : IIState) (s : Seg) (h : ∀ k ∈ st.stack.head?, w k = w' k) :
    iiStepW ds enc w split dflt st s = iiStepW ds enc w' split dflt st s := by
  obtain ⟨cl, stk, ps, pl, plt, hi, prs, fl, er⟩ := st
  cases stk with
  | nil => cases hc : ds.cls s.cp <;> simp +decide [iiStepW, hc]
  | cons a rest =>
    have : w a = w' a := h a (by simp)
    cases hc : ds.cls s.cp <;> simp +decide [iiStepW, hc, this]

end UBidi.Lemmas.C02
