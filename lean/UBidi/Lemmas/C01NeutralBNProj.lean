/-
  C01 StageN with retained BN units, part: projections to the kept units.
  * `sweepL`, `nsmAfter_append`, `spec_writes` — the Spec's two writes and two NSM sweeps on a list
    split at the two brackets;
  * `sweep_proj` — the crate's sweep (which also runs over removed units) read at the kept units;
  * `contains_filter_keep`, `prev_filter_keep` — the enclosed-strong scan and the previous-strong
    search give the same answer with and without the removed units.
-/
import UBidi.Lemmas.C01NeutralBNWrites
import UBidi.Lemmas.C01NeutralBNN12
namespace UBidi.Lemmas.C01Neutral
open UBidi UBidi.BidiClass

/-! ### the Spec side -/

/-- overwrite the leading elements flagged `true` -/
def sweepL (v : BidiClass) : List Bool → List BidiClass → List BidiClass
  | true :: ns, _ :: ts => v :: sweepL v ns ts
  | _, ts => ts

theorem sweepL_true (v : BidiClass) (ns : List Bool) (t : BidiClass) (ts : List BidiClass) :
    sweepL v (true :: ns) (t :: ts) = v :: sweepL v ns ts := rfl
theorem sweepL_false (v : BidiClass) (ns : List Bool) (ts : List BidiClass) :
    sweepL v (false :: ns) ts = ts := by cases ts <;> rfl
theorem sweepL_nil (v : BidiClass) (ts : List BidiClass) : sweepL v [] ts = ts := by cases ts <;> rfl

theorem sweepL_length (v : BidiClass) : ∀ (ns : List Bool) (ts : List BidiClass),
    (sweepL v ns ts).length = ts.length
  | [], ts => by rw [sweepL_nil]
  | false :: ns, ts => by rw [sweepL_false]
  | true :: ns, [] => rfl
  | true :: ns, t :: ts => by rw [sweepL_true, List.length_cons, sweepL_length v ns ts, List.length_cons]

theorem sweepL_append_stop (v : BidiClass) (nZ : List Bool) (x : BidiClass) (tZ : List BidiClass) :
    ∀ (nM : List Bool) (tM : List BidiClass), nM.length = tM.length →
      sweepL v (nM ++ false :: nZ) (tM ++ x :: tZ) = sweepL v nM tM ++ x :: tZ
  | [], [], _ => by rw [List.nil_append, List.nil_append, sweepL_false, sweepL_nil, List.nil_append]
  | [], _ :: _, h => by simp at h
  | _ :: _, [], h => by simp at h
  | false :: nM, t :: tM, _ => by rw [List.cons_append, sweepL_false, sweepL_false]
  | true :: nM, t :: tM, h => by
    rw [List.cons_append, List.cons_append, sweepL_true, sweepL_true,
      sweepL_append_stop v nZ x tZ nM tM (by simpa using h), List.cons_append]

/-- the Spec's `nsmAfter` from the end of a prefix `P` -/
theorem nsmAfter_append (v : BidiClass) : ∀ (S : List BidiClass) (nS : List Bool) (P : List BidiClass)
    (nP : List Bool) (fuel : Nat), P.length = nP.length → S.length = nS.length → S.length ≤ fuel →
    Spec.n0One.nsmAfter (nP ++ nS) v fuel P.length (P ++ S) = P ++ sweepL v nS S := by
  intro S
  induction S with
  | nil =>
    intro nS P nP fuel hP hS _
    have : nS = [] := by cases nS with | nil => rfl | cons _ _ => simp at hS
    subst this
    cases fuel with
    | zero => simp [Spec.n0One.nsmAfter, sweepL_nil]
    | succ f =>
      have : (nP ++ []).getD P.length false = false := by
        simp [List.getD_eq_getElem?_getD, hP]
      simp only [Spec.n0One.nsmAfter, this, Bool.false_eq_true, if_false, sweepL_nil]
  | cons s S ih =>
    intro nS P nP fuel hP hS hf
    obtain ⟨n, nS', rfl⟩ : ∃ n nS', nS = n :: nS' := by
      cases nS with | nil => simp at hS | cons n nS' => exact ⟨n, nS', rfl⟩
    obtain ⟨f, rfl⟩ : ∃ f, fuel = f + 1 := ⟨fuel - 1, by simp at hf; omega⟩
    have hget : (nP ++ n :: nS').getD P.length false = n := by
      simp [List.getD_eq_getElem?_getD, hP]
    simp only [Spec.n0One.nsmAfter, hget]
    cases n with
    | false => simp only [Bool.false_eq_true, if_false, sweepL_false]
    | true =>
      simp only [if_true]
      have hset : (P ++ s :: S).set P.length v = (P ++ [v]) ++ S := by simp
      have hnp : nP ++ true :: nS' = (nP ++ [true]) ++ nS' := by simp
      have hlen : P.length + 1 = (P ++ [v]).length := by simp
      rw [hset, hnp, hlen, ih nS' (P ++ [v]) (nP ++ [true]) f (by simp [hP]) (by simpa using hS)
        (by simp at hf; omega), sweepL_true]
      simp

theorem sweepL_idem (v : BidiClass) : ∀ (ns : List Bool) (ts : List BidiClass),
    sweepL v ns (sweepL v ns ts) = sweepL v ns ts
  | [], ts => by rw [sweepL_nil, sweepL_nil]
  | false :: ns, ts => by rw [sweepL_false, sweepL_false]
  | true :: ns, [] => rfl
  | true :: ns, t :: ts => by rw [sweepL_true, sweepL_true, sweepL_idem v ns ts]

/-- the sweep after the opening bracket over `M`, the closing bracket (already typed `v`) and `Z`:
    whether or not it runs on past the closing bracket (an original NSM, flag `nc`), the sweep after
    the closing bracket gives the same result -/
theorem sweepL_append_mid (v : BidiClass) (nc : Bool) (nZ : List Bool) (tZ : List BidiClass) :
    ∀ (nM : List Bool) (tM : List BidiClass), nM.length = tM.length →
      ∃ X, sweepL v (nM ++ nc :: nZ) (tM ++ v :: tZ) = sweepL v nM tM ++ v :: X ∧
        sweepL v nZ X = sweepL v nZ tZ ∧ X.length = tZ.length
  | [], [], _ => by
    cases nc with
    | false => exact ⟨tZ, by rw [List.nil_append, List.nil_append, sweepL_false, sweepL_nil, List.nil_append], rfl, rfl⟩
    | true =>
      exact ⟨sweepL v nZ tZ, by rw [List.nil_append, List.nil_append, sweepL_true, sweepL_nil, List.nil_append],
        sweepL_idem v nZ tZ, sweepL_length v nZ tZ⟩
  | [], _ :: _, h => by simp at h
  | _ :: _, [], h => by simp at h
  | false :: nM, t :: tM, _ => ⟨tZ, by rw [List.cons_append, sweepL_false, sweepL_false], rfl, rfl⟩
  | true :: nM, t :: tM, h => by
    obtain ⟨X, h1, h2, h3⟩ := sweepL_append_mid v nc nZ tZ nM tM (by simpa using h)
    exact ⟨X, by rw [List.cons_append, List.cons_append, sweepL_true, sweepL_true, h1, List.cons_append], h2, h3⟩

/-- the Spec's writes for one pair, on a list split at the two brackets -/
theorem spec_writes (v : BidiClass) (tA tM tZ : List BidiClass) (nA nM nZ : List Bool) (x y : BidiClass)
    (no nc : Bool) (hA : tA.length = nA.length) (hM : tM.length = nM.length) (hZ : tZ.length = nZ.length) :
    let NS := nA ++ no :: (nM ++ nc :: nZ)
    let L1 := ((tA ++ x :: (tM ++ y :: tZ)).set tA.length v).set (tA.length + 1 + tM.length) v
    Spec.n0One.nsmAfter NS v (Spec.n0One.nsmAfter NS v L1.length (tA.length + 1) L1).length
        (tA.length + 1 + tM.length + 1) (Spec.n0One.nsmAfter NS v L1.length (tA.length + 1) L1) =
      tA ++ v :: (sweepL v nM tM ++ v :: sweepL v nZ tZ) := by
  intro NS L1
  have hL1 : L1 = (tA ++ [v]) ++ (tM ++ v :: tZ) := by
    show ((tA ++ x :: (tM ++ y :: tZ)).set tA.length v).set (tA.length + 1 + tM.length) v = _
    have e1 : (tA ++ x :: (tM ++ y :: tZ)).set tA.length v = tA ++ v :: (tM ++ y :: tZ) := by simp
    rw [e1]
    have e2 : tA ++ v :: (tM ++ y :: tZ) = (tA ++ v :: tM) ++ y :: tZ := by simp
    have e3 : tA.length + 1 + tM.length = (tA ++ v :: tM).length := by simp; omega
    rw [e2, e3]
    simp
  obtain ⟨X, hX1, hX2, hX3⟩ := sweepL_append_mid v nc nZ tZ nM tM hM.symm
  have hNS1 : NS = (nA ++ [no]) ++ (nM ++ nc :: nZ) := by simp [NS]
  have hstep1 : Spec.n0One.nsmAfter NS v L1.length (tA.length + 1) L1 =
      (tA ++ [v]) ++ (sweepL v nM tM ++ v :: X) := by
    have hl : tA.length + 1 = (tA ++ [v]).length := by simp
    rw [hl, hL1, hNS1, nsmAfter_append v _ _ _ _ _ (by simp [hA]) (by simp [hM, hZ]) (by simp; omega), hX1]
  rw [hstep1]
  have hP2 : (tA ++ [v]) ++ (sweepL v nM tM ++ v :: X) = (tA ++ [v] ++ sweepL v nM tM ++ [v]) ++ X := by simp
  have hNS2 : NS = (nA ++ [no] ++ nM ++ [nc]) ++ nZ := by simp [NS]
  have hl2 : tA.length + 1 + tM.length + 1 = (tA ++ [v] ++ sweepL v nM tM ++ [v]).length := by
    simp [sweepL_length]; omega
  rw [hl2, hP2, hNS2, nsmAfter_append v _ _ _ _ _ (by simp [sweepL_length, hA, hM]) (by rw [hX3, hZ])
    (by simp; omega), hX2]
  simp

/-! ### the crate's sweep, read at the kept units -/

theorem first_kept_lt (keep : Nat → Bool) : ∀ (S : List Nat), S.Pairwise (· < ·) → ∀ k rest,
    S.filter keep = k :: rest → k ∈ S ∧ keep k = true ∧ ∀ i ∈ S, i < k → keep i = false := by
  intro S
  induction S with
  | nil => intro _ k rest h; simp at h
  | cons s S ih =>
    intro hp k rest h
    rw [List.pairwise_cons] at hp
    rw [List.filter_cons] at h
    by_cases hs : keep s = true
    · simp only [hs, if_true, List.cons.injEq] at h
      obtain ⟨rfl, _⟩ := h
      refine ⟨by simp, hs, ?_⟩
      intro i hi hlt
      simp only [List.mem_cons] at hi
      rcases hi with rfl | hi
      · omega
      · have := hp.1 i hi; omega
    · simp only [hs, Bool.false_eq_true, if_false] at h
      obtain ⟨h1, h2, h3⟩ := ih hp.2 k rest h
      refine ⟨by simp [h1], h2, ?_⟩
      intro i hi hlt
      simp only [List.mem_cons] at hi
      rcases hi with rfl | hi
      · simpa using hs
      · exact h3 i hi hlt

/-- the crate's "NSMs after the bracket" sweep along `S` (it overwrites original NSMs, steps over
    removed units, and stops at the first other unit), read at the kept units of `S`, is the
    Spec's sweep over the kept units -/
theorem sweep_proj (ocs pcs : Classes) (v : BidiClass) : ∀ (S : List Nat), S.Pairwise (· < ·) →
    (S.filter (keepU ocs)).map
        (fun j => if j ∈ S.takeWhile (condP ocs) ∧ nsmU ocs j = true then v else cget pcs j) =
      sweepL v ((S.filter (keepU ocs)).map (fun i => cget ocs i == NSM))
        ((S.filter (keepU ocs)).map (cget pcs)) := by
  intro S
  induction S with
  | nil => intro _; rfl
  | cons s S ih =>
    intro hp
    rw [List.pairwise_cons] at hp
    by_cases hc : condP ocs s = true
    · -- the sweep passes `s`
      have hcs := (condP_iff _ _).1 hc
      have ih' := ih hp.2
      have hcongr : (S.filter (keepU ocs)).map
            (fun j => if j ∈ (s :: S).takeWhile (condP ocs) ∧ nsmU ocs j = true then v else cget pcs j) =
          (S.filter (keepU ocs)).map
            (fun j => if j ∈ S.takeWhile (condP ocs) ∧ nsmU ocs j = true then v else cget pcs j) := by
        apply List.map_congr_left
        intro j hj
        have hjS : j ∈ S := (List.mem_filter.1 hj).1
        have hne : j ≠ s := by have := hp.1 j hjS; omega
        simp only [List.takeWhile_cons, hc, if_true, List.mem_cons, hne, false_or]
      by_cases hks : keepU ocs s = true
      · have hnsm : cget ocs s = NSM := by
          rcases hcs with h | h
          · exact h
          · rw [hks] at h; cases h
        have hb : (cget ocs s == NSM) = true := by rw [hnsm]; rfl
        have hn : nsmU ocs s = true := hb
        rw [List.filter_cons, if_pos hks]
        simp only [List.map_cons, hb, sweepL_true]
        rw [hcongr, ih']
        simp [hc, hn]
      · have hks' : keepU ocs s = false := by simpa using hks
        rw [List.filter_cons, if_neg hks, hcongr, ih']
    · -- the sweep stops at `s`
      have hc' : condP ocs s = false := by simpa using hc
      have hid : (fun j => if j ∈ (s :: S).takeWhile (condP ocs) ∧ nsmU ocs j = true then v else cget pcs j) =
          cget pcs := by
        funext j; simp [hc']
      rw [hid]
      have hns : cget ocs s ≠ NSM := fun h => hc ((condP_iff _ _).2 (Or.inl h))
      have hks : keepU ocs s = true := by
        cases hk : keepU ocs s with
        | true => rfl
        | false => exact absurd ((condP_iff _ _).2 (Or.inr hk)) hc
      have hb : (cget ocs s == NSM) = false := by
        cases hb : cget ocs s == NSM with
        | false => rfl
        | true => exact absurd ((beq_iff _ _).1 hb) hns
      rw [List.filter_cons, if_pos hks]
      simp only [List.map_cons, hb, sweepL_false]

/-! ### the two searches -/

theorem contains_filter_keep (keep : Nat → Bool) (g : Nat → BidiClass) (M : List Nat) (d : BidiClass)
    (h : ∀ p ∈ M, keep p = false → Spec.strongOfN0 (g p) = some d → ∃ q ∈ M, keep q = true ∧ g q = g p) :
    ((M.map g).filterMap Spec.strongOfN0).contains d =
      (((M.filter keep).map g).filterMap Spec.strongOfN0).contains d := by
  rw [Bool.eq_iff_iff]
  simp only [List.contains_iff_mem, List.mem_filterMap, List.mem_map, List.mem_filter]
  constructor
  · rintro ⟨_, ⟨p, hp, rfl⟩, hd⟩
    cases hk : keep p with
    | true => exact ⟨_, ⟨p, ⟨hp, hk⟩, rfl⟩, hd⟩
    | false =>
      obtain ⟨q, hq, hkq, hgq⟩ := h p hp hk hd
      exact ⟨_, ⟨q, ⟨hq, hkq⟩, rfl⟩, by rw [hgq]; exact hd⟩
  · rintro ⟨_, ⟨p, ⟨hp, _⟩, rfl⟩, hd⟩
    exact ⟨_, ⟨p, hp, rfl⟩, hd⟩

theorem head_filterMap_find {α β} (g : α → Option β) : ∀ (xs : List α),
    (xs.filterMap g).head? = (xs.find? (fun x => (g x).isSome)).bind g
  | [] => rfl
  | x :: xs => by
    cases hx : g x with
    | none => simp [hx, head_filterMap_find g xs]
    | some y => simp [hx]

/-- the previous-strong search over a decreasing list, with and without the removed units -/
theorem prev_filter_keep (keep : Nat → Bool) (g : Nat → BidiClass) (xs : List Nat) (hp : xs.Pairwise (· > ·))
    (h : ∀ p ∈ xs, keep p = false → (Spec.strongOfN0 (g p)).isSome = true →
      (∃ q ∈ xs, q > p ∧ keep q = true ∧ (Spec.strongOfN0 (g q)).isSome = true) ∨
      (∃ q ∈ xs, p > q ∧ keep q = true ∧ g q = g p ∧ ∀ i ∈ xs, p > i → i > q → keep i = false)) :
    ((xs.map g).filterMap Spec.strongOfN0).head? =
      (((xs.filter keep).map g).filterMap Spec.strongOfN0).head? := by
  rw [List.filterMap_map, List.filterMap_map, head_filterMap_find, head_filterMap_find]
  have := find_filter_keep (· > ·) (fun a b h1 h2 => by omega) keep
    (fun i => (Spec.strongOfN0 (g i)).isSome) (fun i => Spec.strongOfN0 (g i)) xs hp (by
      intro p hpx hk hP
      rcases h p hpx hk hP with ⟨q, hq, h1, h2, h3⟩ | ⟨q, hq, h1, h2, h3, h4⟩
      · exact Or.inl ⟨q, hq, h1, h2, h3⟩
      · exact Or.inr ⟨q, hq, h1, h2, by simp only [h3]; exact hP, by simp only [h3], h4⟩)
  simp only [Function.comp_def]
  generalize List.find? (fun i => (Spec.strongOfN0 (g i)).isSome) xs = a at this ⊢
  generalize List.find? (fun i => (Spec.strongOfN0 (g i)).isSome) (List.filter keep xs) = b at this ⊢
  cases a <;> cases b <;> simp_all

end UBidi.Lemmas.C01Neutral
