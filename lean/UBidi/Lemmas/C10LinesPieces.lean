/-
  UBidi.Lemmas.C10LinesPieces — for C10 (line queries): the free function `reorder_line(text, line, levels, runs)`
  (`reorderLinePieces`) and `reorder_line` of the two info types (`reorderLine`) on a paragraph's sub-text
  versus the whole text: the same pieces, every character's position shifted by the paragraph start.
-/
import UBidi.Lemmas.C10LinesRuns
namespace UBidi.Lemmas.C10Lines
open UBidi UBidi.Lemmas.C03

/-- a character moved `s` code units to the right -/
def shiftSeg (s : Nat) (g : Seg) : Seg := { g with start := g.start + s }

/-- a piece of a reordered line moved `s` code units to the right -/
def shiftPiece (s : Nat) (p : Piece) : Piece := { p with segs := p.segs.map (shiftSeg s) }

/-- the characters of a run -/
theorem runSegs_shift (t : Text) (s e : Nat) (r : Nat × Nat) (h : s + r.2 ≤ e) :
    t.segs.filter (fun g => (shiftRun s r).1 ≤ g.start && g.start < (shiftRun s r).2)
      = ((t.subrange s e).segs.filter (fun g => r.1 ≤ g.start && g.start < r.2)).map (shiftSeg s) := by
  simp only [Text.subrange, List.filter_map, List.map_map, List.filter_filter, shiftRun]
  have hf : ∀ x : Seg, (((fun g : Seg => decide (r.1 ≤ g.start) && decide (g.start < r.2)) ∘ fun s_1 : Seg =>
                ({ start := s_1.start - s, cp := s_1.cp, len := s_1.len } : Seg)) x &&
            (decide (s ≤ x.start) && decide (x.start < e)))
          = (decide (r.1 + s ≤ x.start) && decide (x.start < r.2 + s)) := by
    intro x
    simp only [Function.comp]
    rw [Bool.eq_iff_iff]
    simp only [Bool.and_eq_true, decide_eq_true_eq]
    omega
  simp only [hf]
  symm
  refine (List.map_congr_left (g := id) ?_).trans (List.map_id _)
  intro x hx
  simp only [List.mem_filter, Bool.and_eq_true, decide_eq_true_eq] at hx
  simp only [Function.comp, shiftSeg, id]
  have : x.start - s + s = x.start := by omega
  rw [this]

/-- the free function `reorder_line` on shifted runs -/
theorem reorderLinePieces_shift (t : Text) (lv : List Nat) (s e : Nat) (runs : List (Nat × Nat))
    (het : e ≤ t.len) (hbd : t.isBoundary e = true) (hr : ∀ r ∈ runs, s + r.1 < e ∧ s + r.2 ≤ e) :
    reorderLinePieces t lv (runs.map (shiftRun s))
      = ((reorderLinePieces (t.subrange s e) (slice lv s e) runs).1.map (·.map (shiftPiece s)),
         (reorderLinePieces (t.subrange s e) (slice lv s e) runs).2) := by
  have hlv : ∀ r ∈ runs, lv.getD (shiftRun s r).1 0 = (slice lv s e).getD r.1 0 := by
    intro r h
    rw [getD_slice_sub lv s e r.1 0 (hr r h).1, Nat.add_comm s r.1]; rfl
  have hall : (runs.map (shiftRun s)).all (fun r => Level.isLtr (lv.getD r.1 0))
      = runs.all (fun r => Level.isLtr ((slice lv s e).getD r.1 0)) := by
    rw [List.all_map, Bool.eq_iff_iff, List.all_eq_true, List.all_eq_true]
    constructor
    · intro h r hx; rw [← hlv r hx]; exact h r hx
    · intro h r hx; simp only [Function.comp]; rw [hlv r hx]; exact h r hx
  have hbdy : ∀ r ∈ runs, (t.isBoundary (shiftRun s r).1 && t.isBoundary (shiftRun s r).2)
      = ((t.subrange s e).isBoundary r.1 && (t.subrange s e).isBoundary r.2) := by
    intro r h
    have h1 := isBoundary_subrange t s e (r.1 + s) (by omega) (by have := (hr r h).1; omega) het hbd
    have h2 := isBoundary_subrange t s e (r.2 + s) (by omega) (by have := (hr r h).2; omega) het hbd
    rw [Nat.add_sub_cancel] at h1 h2
    rw [h1, h2]; rfl
  have hbad : (runs.map (shiftRun s)).any (fun r => !(t.isBoundary r.1 && t.isBoundary r.2))
      = runs.any (fun r => !((t.subrange s e).isBoundary r.1 && (t.subrange s e).isBoundary r.2)) := by
    rw [List.any_map, Bool.eq_iff_iff, List.any_eq_true, List.any_eq_true]
    constructor
    · rintro ⟨r, hx, h⟩; exact ⟨r, hx, by rw [← hbdy r hx]; exact h⟩
    · rintro ⟨r, hx, h⟩; exact ⟨r, hx, by simp only [Function.comp]; rw [hbdy r hx]; exact h⟩
  unfold reorderLinePieces
  rw [hall, hbad]
  by_cases hc : (runs.all fun r => Level.isLtr ((slice lv s e).getD r.1 0)) = true
  · simp only [hc, if_true, Option.map_none]
  · simp only [hc, if_false, Bool.false_eq_true, Option.map_some, List.map_map]
    refine Prod.ext ?_ rfl
    simp only [Option.some.injEq]
    apply List.map_congr_left
    intro r hx
    simp only [Function.comp]
    rw [hlv r hx, runSegs_shift t s e r (hr r hx).2]
    split
    · simp only [shiftPiece, List.map_reverse]
    · simp only [shiftPiece]

/-- **`reorder_line` inside a paragraph**: for a non-empty line `[a,b)` inside `[s,e)` (`e` a character
    boundary), `reorder_line` on the whole text returns the pieces it returns on the sub-text `[s,e)` with the
    restricted classes and levels for the line `[a-s, b-s)`, every character's position shifted by `s`; it
    returns the line unchanged (`none`) in the same cases and panics in the same cases -/
theorem reorderLine_shift (t : Text) (classes : Classes) (levels : List Nat) (pl s e a b : Nat)
    (hs : s ≤ a) (hab : a < b) (hbe : b ≤ e) (het : e ≤ t.len) (hec : e ≤ classes.length)
    (hel : e ≤ levels.length) (hbd : t.isBoundary e = true) :
    reorderLine t classes levels pl a b
      = ((reorderLine (t.subrange s e) (slice classes s e) (slice levels s e) pl (a - s) (b - s)).1.map
            (·.map (shiftPiece s)),
         (reorderLine (t.subrange s e) (slice classes s e) (slice levels s e) pl (a - s) (b - s)).2) := by
  have c1 : (decide (a > b) || decide (b > levels.length)) = false := by simp; omega
  have c1' : (decide (a - s > b - s) || decide (b - s > (slice levels s e).length)) = false := by
    rw [length_slice_of_le _ _ _ hel]; simp; omega
  have hba := isBoundary_subrange t s e a hs (by omega) het hbd
  have hbb := isBoundary_subrange t s e b (by omega) hbe het hbd
  have henc : (t.subrange s e).enc = t.enc := rfl
  obtain ⟨r1, r2⟩ := reorderedLevels_shift t classes levels pl s e a b hs (by omega) hbe het hec hel hbd
  have hlen : (reorderedLevels t classes levels pl a b).1.length = levels.length := by
    unfold reorderedLevels
    split
    · rfl
    · split
      · rfl
      · split
        · rfl
        · rename_i h1 _ _
          simp only [List.length_append, List.length_take, List.length_drop, length_reorderLevels]
          rw [length_slice_of_le _ _ _ (by omega)]
          omega
  unfold reorderLine
  rw [c1, c1']
  simp only [Bool.false_eq_true, if_false, henc, hba, hbb, slice_slice_sub levels s e a b hs (by omega) hbe]
  by_cases hc : (!Level.hasRtl (slice levels a b) && Level.isLtr pl) = true
  · simp only [hc, if_true, Option.map_none]
  · simp only [hc, if_false, Bool.false_eq_true]
    rw [← r2, ← r1]
    generalize hL : reorderedLevels t classes levels pl a b = L at *
    obtain ⟨L1, L2⟩ := L
    cases L2 with
    | some err => simp only [Option.map_none]
    | none =>
      simp only [] at hlen ⊢
      have hv := visualRuns_shift L1 s e a b ⟨hs, hab, hbe, by omega⟩
      have hvb := visualRuns_bounds (slice L1 s e) (a - s) (b - s) (by omega)
        (by rw [length_slice_of_le _ _ _ (by omega)]; omega)
      rw [hv]
      generalize visualRunsForLine (slice L1 s e) (a - s) (b - s) = V at *
      obtain ⟨V1, V2⟩ := V
      cases V2 with
      | some err => simp only [Option.map_none]
      | none =>
        simp only [] at hvb ⊢
        exact reorderLinePieces_shift t L1 s e V1 het hbd
          (fun r hr => by have := hvb r hr; omega)

end UBidi.Lemmas.C10Lines
