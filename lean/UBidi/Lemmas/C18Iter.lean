/- C18 helpers: the forward iteration and one step of the double-ended iterator. -/
import UBidi.Lemmas.C18CharAt
namespace UBidi.Lemmas.C18
open UBidi

theorem charAt_len (u : List Nat) {i c l : Nat} (h : Utf16.charAt u i = some (c, l)) : l = 1 ∨ l = 2 := by
  have hi := (charAt_some_good u h).1
  rw [charAt_eq u hi] at h
  repeat' split at h
  all_goals simp at h
  all_goals omega

/-- the indices strictly inside the character found by `charAt` are not good -/
theorem charAt_skips (u : List Nat) {i c l : Nat} (h : Utf16.charAt u i = some (c, l)) :
    ∀ m, i < m → m < i + l → good u m = false := by
  intro m h1 h2
  rcases charAt_len u h with rfl | rfl
  · omega
  · have hm : m = i + 1 := by omega
    subst hm
    obtain ⟨_, hh, hl, _⟩ := charAt_len_two u h
    unfold good
    rw [Nat.add_sub_cancel, hh, hl]
    simp

/-! ### forward iteration -/

theorem iterFrom_eq (u : List Nat) : ∀ (fuel i : Nat), i ≤ u.length → good u i = true →
    u.length - i < fuel → Utf16.iterFrom u fuel i = lay i (Spec.lossy (u.drop i)) := by
  intro fuel
  induction fuel with
  | zero => intro i _ _ h; omega
  | succ fuel ih =>
    intro i hi hg hf
    unfold Utf16.iterFrom
    by_cases hlt : i < u.length
    · obtain ⟨c, l, hc, hl0, hle, hg', hlossy⟩ := charAt_good u hlt hg
      rw [hc]
      simp only
      rw [ih (i + l) hle hg' (by omega)]
      rw [← slice_to_end u i, lossy_slice_split u (Nat.le_add_right i l) hle (Nat.le_refl _) hg', hlossy,
        slice_to_end]
      rfl
    · have : i = u.length := by omega
      subst this
      rw [charAt_ge u (Nat.le_refl _)]
      simp [Spec.lossy, lay]

theorem segments_eq (u : List Nat) : Utf16.segments u = lay 0 (Spec.lossy u) := by
  unfold Utf16.segments
  rw [iterFrom_eq u _ 0 (Nat.zero_le _) (good_zero u) (by omega)]
  rfl

/-- every segment the iteration produces is what `charAt` says at its start -/
theorem mem_iterFrom (u : List Nat) : ∀ (fuel i : Nat) (s : Seg), s ∈ Utf16.iterFrom u fuel i →
    Utf16.charAt u s.start = some (s.cp, s.len) := by
  intro fuel
  induction fuel with
  | zero => intro i s h; simp [Utf16.iterFrom] at h
  | succ fuel ih =>
    intro i s h
    unfold Utf16.iterFrom at h
    split at h
    · rename_i c l hc
      rcases List.mem_cons.mp h with rfl | h'
      · exact hc
      · exact ih _ s h'
    · simp at h

/-- a tiling covers every index of its range -/
theorem segsFrom_cover : ∀ (segs : List Seg) (p e i : Nat), SegsFrom p segs e → p ≤ i → i < e →
    ∃ s ∈ segs, s.start ≤ i ∧ i < s.start + s.len := by
  intro segs
  induction segs with
  | nil => intro p e i h h1 h2; simp only [SegsFrom] at h; omega
  | cons s ss ih =>
    intro p e i h h1 h2
    obtain ⟨hs, hl, hrest⟩ := h
    by_cases hi : i < p + s.len
    · exact ⟨s, List.mem_cons_self, by omega, by omega⟩
    · obtain ⟨s', hm, h3⟩ := ih (p + s.len) e i hrest (by omega) h2
      exact ⟨s', List.mem_cons_of_mem _ hm, h3⟩

/-- in a tiling every segment starts inside the range -/
theorem segsFrom_start_lt : ∀ (segs : List Seg) (p e : Nat), SegsFrom p segs e →
    ∀ s ∈ segs, s.start < e := by
  intro segs
  induction segs with
  | nil => intro p e _ s hs; simp at hs
  | cons s ss ih =>
    intro p e h s' hs'
    obtain ⟨hs, hl, hrest⟩ := h
    have hpe : ∀ (l : List Seg) (a b : Nat), SegsFrom a l b → a ≤ b := by
      intro l
      induction l with
      | nil => intro a b h; simp only [SegsFrom] at h; omega
      | cons x xs ihx => intro a b h; have := ihx _ _ h.2.2; omega
    rcases List.mem_cons.mp hs' with rfl | hm
    · have := hpe _ _ _ hrest; omega
    · exact ih _ _ hrest s' hm

/-! ### the double-ended iterator -/

/-- invariant of `Utf16.Iter`: both ends are good indices -/
structure Inv (u : List Nat) (it : Utf16.Iter) : Prop where
  le : it.cur ≤ it.stop
  stop_le : it.stop ≤ u.length
  gcur : good u it.cur = true
  gstop : good u it.stop = true

/-- the characters the iterator still has to yield -/
def deque (u : List Nat) (it : Utf16.Iter) : List Nat :=
  (Spec.lossy (slice u it.cur it.stop)).map (·.1)

theorem inv_new (u : List Nat) : Inv u (Utf16.Iter.new u) :=
  ⟨Nat.zero_le _, Nat.le_refl _, good_zero u, good_of_ge u (Nat.le_refl _)⟩

theorem deque_new (u : List Nat) : deque u (Utf16.Iter.new u) = (Spec.lossy u).map (·.1) := by
  unfold deque Utf16.Iter.new
  simp only
  rw [slice_zero_end]

theorem next_spec (u : List Nat) (it : Utf16.Iter) (hinv : Inv u it) :
    Inv u (Utf16.Iter.next u it).2 ∧
    ((deque u it = [] ∧ (Utf16.Iter.next u it).1 = none ∧ deque u (Utf16.Iter.next u it).2 = []) ∨
     (∃ c, (Utf16.Iter.next u it).1 = some c ∧ deque u it = c :: deque u (Utf16.Iter.next u it).2)) := by
  obtain ⟨hle, hsl, hgc, hgs⟩ := hinv
  unfold Utf16.Iter.next
  by_cases hge : it.cur ≥ it.stop
  · rw [if_pos hge]
    have : it.cur = it.stop := by omega
    refine ⟨⟨hle, hsl, hgc, hgs⟩, Or.inl ?_⟩
    have hd : deque u it = [] := by unfold deque; rw [this, slice_self]; rfl
    exact ⟨hd, rfl, hd⟩
  · rw [if_neg hge]
    have hlt : it.cur < u.length := by omega
    obtain ⟨c, l, hc, hl0, hlen, hg', hlossy⟩ := charAt_good u hlt hgc
    have hstop : it.cur + l ≤ it.stop := by
      apply Nat.le_of_not_lt
      intro hcon
      have := charAt_skips u hc it.stop (by omega) hcon
      rw [this] at hgs; cases hgs
    rw [hc]
    simp only
    refine ⟨⟨hstop, hsl, hg', hgs⟩, Or.inr ⟨c, rfl, ?_⟩⟩
    unfold deque
    simp only
    rw [lossy_slice_split u (Nat.le_add_right _ l) hstop hsl hg', hlossy]
    rfl

theorem nextBack_spec (u : List Nat) (it : Utf16.Iter) (hinv : Inv u it) :
    Inv u (Utf16.Iter.nextBack u it).2 ∧
    ((deque u it = [] ∧ (Utf16.Iter.nextBack u it).1 = none ∧ deque u (Utf16.Iter.nextBack u it).2 = []) ∨
     (∃ c, (Utf16.Iter.nextBack u it).1 = some c ∧
        deque u it = deque u (Utf16.Iter.nextBack u it).2 ++ [c])) := by
  obtain ⟨hle, hsl, hgc, hgs⟩ := hinv
  unfold Utf16.Iter.nextBack
  by_cases hge : it.stop ≤ it.cur
  · rw [if_pos hge]
    have : it.cur = it.stop := by omega
    refine ⟨⟨hle, hsl, hgc, hgs⟩, Or.inl ?_⟩
    have hd : deque u it = [] := by unfold deque; rw [this, slice_self]; rfl
    exact ⟨hd, rfl, hd⟩
  · rw [if_neg hge]
    simp only
    have he : it.stop - 1 < u.length := by omega
    have he1 : it.stop - 1 + 1 = it.stop := by omega
    -- the last unit alone, when `stop - 1` is a good index
    have single : good u (it.stop - 1) = true →
        Inv u { it with stop := it.stop - 1 } ∧
        deque u it = deque u { it with stop := it.stop - 1 } ++ [Spec.lossyUnit (u.getD (it.stop - 1) 0)] := by
      intro hg
      refine ⟨⟨by simp only; omega, by simp only; omega, hgc, hg⟩, ?_⟩
      unfold deque
      simp only
      rw [lossy_slice_split u (show it.cur ≤ it.stop - 1 by omega) (Nat.sub_le _ _) hsl hg]
      have := slice_one u he
      rw [he1] at this
      rw [this, lossy_single]
      simp
    rw [isSurrogate_eq]
    by_cases hs : (Spec.isHighS (u.getD (it.stop - 1) 0) || Spec.isLowS (u.getD (it.stop - 1) 0)) = false
    · -- not a surrogate
      rw [hs]
      simp only [Bool.not_false, if_true]
      have hg : good u (it.stop - 1) = true :=
        good_of_not_low u _ (by simp only [Bool.or_eq_false_iff] at hs; exact hs.2)
      obtain ⟨hi, hd⟩ := single hg
      refine ⟨hi, Or.inr ⟨_, rfl, ?_⟩⟩
      rw [hd, lossyUnit_of_not_surr hs]
    · have hs' : (Spec.isHighS (u.getD (it.stop - 1) 0) || Spec.isLowS (u.getD (it.stop - 1) 0)) = true := by
        cases hb : (Spec.isHighS (u.getD (it.stop - 1) 0) || Spec.isLowS (u.getD (it.stop - 1) 0)) with
        | true => rfl
        | false => exact absurd hb hs
      rw [hs']
      simp only [Bool.not_true, Bool.false_eq_true, if_false]
      -- the answer when the last unit is a lone surrogate
      have lone : good u (it.stop - 1) = true →
          Inv u { it with stop := it.stop - 1 } ∧
          ((deque u it = [] ∧ (some Utf16.replacement : Option Nat) = none ∧
              deque u { it with stop := it.stop - 1 } = []) ∨
           (∃ c, some Utf16.replacement = some c ∧
              deque u it = deque u { it with stop := it.stop - 1 } ++ [c])) := by
        intro hg
        obtain ⟨hi, hd⟩ := single hg
        refine ⟨hi, Or.inr ⟨_, rfl, ?_⟩⟩
        rw [hd, lossyUnit_of_surr hs']; rfl
      by_cases hgt : it.stop - 1 > it.cur
      · rw [if_pos hgt]
        have he2 : it.stop - 1 - 1 + 1 = it.stop - 1 := by omega
        -- if `stop - 1` were not good, `charAt (stop - 2)` would have answered a pair
        have good_of_no_pair : (∀ c, Utf16.charAt u (it.stop - 1 - 1) ≠ some (c, 2)) →
            good u (it.stop - 1) = true := by
          intro hno
          cases hg : good u (it.stop - 1)
          · exfalso
            unfold good at hg
            simp only [Bool.not_eq_false', Bool.and_eq_true, decide_eq_true_eq] at hg
            obtain ⟨⟨_, hh⟩, hl⟩ := hg
            have hl' : Spec.isLowS (u.getD (it.stop - 1 - 1 + 1) 0) = true := by rw [he2]; exact hl
            exact hno _ (charAt_pair u (by omega) hh hl')
          · rfl
        split
        · rename_i c l hc
          by_cases hl2 : l = 2
          · have hb : (l == 2) = true := by rw [hl2]; rfl
            rw [if_pos hb]
            rw [hl2] at hc
            obtain ⟨_, hh, hl, hcomb⟩ := charAt_len_two u hc
            have hg2 : good u (it.stop - 1 - 1) = true := good_of_not_low u _ (high_not_low hh)
            refine ⟨⟨by simp only; omega, by simp only; omega, hgc, hg2⟩, Or.inr ⟨c, rfl, ?_⟩⟩
            unfold deque
            simp only
            rw [lossy_slice_split u (show it.cur ≤ it.stop - 1 - 1 by omega) (by omega) hsl hg2]
            have h2 := slice_two u (i := it.stop - 1 - 1) (by omega)
            have e3 : it.stop - 1 - 1 + 2 = it.stop := by omega
            rw [e3] at h2
            rw [h2, lossy_pair hh hl, hcomb]
            rw [List.map_append]; rfl
          · have hb : (l == 2) = false := by simpa using hl2
            rw [if_neg (by rw [hb]; exact Bool.false_ne_true)]
            apply lone
            apply good_of_no_pair
            intro c' hc'
            rw [hc] at hc'
            simp only [Option.some.injEq, Prod.mk.injEq] at hc'
            exact hl2 hc'.2
        · rename_i hnone
          apply lone
          apply good_of_no_pair
          intro c' hc'
          rw [hnone] at hc'; cases hc'
      · rw [if_neg hgt]
        apply lone
        have : it.stop - 1 = it.cur := by omega
        rw [this]; exact hgc

end UBidi.Lemmas.C18
