/-
  Helper lemmas for C17 (summary queries): the `para_direction` loop with its two flags,
  the "paragraph level is 0 or 1" invariant of `compute_initial_info`, slices of an all-zero vector.
-/
import UBidi.Model.Reorder
namespace UBidi.Lemmas.C17
open UBidi BidiClass

/-- `para_direction`'s loop, for any reachable flag state (never both flags set). -/
theorem dirLoop_spec (ltr rtl : Bool) (ls : List Nat) (h : ¬ (ltr = true ∧ rtl = true)) :
    (paraDirectionLoop ltr rtl ls = .ltr ↔ rtl = false ∧ (∀ l ∈ ls, l % 2 = 0) ∧ (ltr = true ∨ ls ≠ [])) ∧
    (paraDirectionLoop ltr rtl ls = .rtl ↔ ltr = false ∧ (∀ l ∈ ls, l % 2 = 1)) ∧
    (paraDirectionLoop ltr rtl ls = .mixed ↔ (ltr = true ∨ ∃ l ∈ ls, l % 2 = 0) ∧ (rtl = true ∨ ∃ l ∈ ls, l % 2 = 1)) := by
  induction ls generalizing ltr rtl with
  | nil => cases ltr <;> cases rtl <;> simp_all [paraDirectionLoop]
  | cons l ls ih =>
    have hl : l % 2 = 0 ∨ l % 2 = 1 := by omega
    cases ltr <;> cases rtl <;> simp_all [paraDirectionLoop, Level.isLtr] <;> grind

/-- an optional paragraph level that is absent, 0 or 1 -/
def PL01 (o : Option Nat) : Prop := o = none ∨ o = some 0 ∨ o = some 1

theorem iiStep_PL01 (ds : DataSource) (T : Text) (split : Bool) (d : Option Nat) (hd : PL01 d)
    (st : IIState) (s : Seg) (h : PL01 st.paraLevel) : PL01 (iiStep ds T split d st s).paraLevel := by
  unfold iiStep
  simp only
  split <;> (try split) <;> (try split) <;> (try split) <;> simp_all [PL01] <;> grind

theorem foldl_PL01 (ds : DataSource) (T : Text) (split : Bool) (d : Option Nat) (hd : PL01 d)
    (segs : List Seg) (st : IIState) (h : PL01 st.paraLevel) :
    PL01 (segs.foldl (iiStep ds T split d) st).paraLevel := by
  induction segs generalizing st with
  | nil => exact h
  | cons s ss ih => exact ih _ (iiStep_PL01 ds T split d hd st s h)

/-- with a default level in {auto, 0, 1} the level of the last (or only) paragraph is 0 or 1 -/
theorem lastLevel_le_one (ds : DataSource) (t : Text) (d : Option Nat) (hd : PL01 d) (split : Bool) :
    (computeInitialInfo ds t d split).lastLevel = 0 ∨ (computeInitialInfo ds t d split).lastLevel = 1 := by
  have := foldl_PL01 ds t split d hd t.segs { paraLevel := d } hd
  simp only [computeInitialInfo]
  rcases this with h | h | h <;> simp [h]

theorem hasRtl_slice_replicate (n a b : Nat) : Level.hasRtl (slice (List.replicate n 0) a b) = false := by
  simp only [Level.hasRtl, slice]
  rw [List.any_eq_false]
  intro x hx
  have := List.mem_of_mem_take hx
  have := List.mem_of_mem_drop this
  simp at this
  simp [this.2, Level.isRtl]

end UBidi.Lemmas.C17
