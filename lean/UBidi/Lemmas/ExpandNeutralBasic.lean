/-
  UBidi.Lemmas.ExpandNeutralBasic — infrastructure for the Expand lemma of the neutral stage:
  positions of characters (`pos`, `clen`), reading an expanded array, the unit walk of a
  character walk (`walk`), and writing whole characters into an expanded array.
-/
import UBidi.Lemmas.ExpandDefs
namespace UBidi.Expand.Neutral
open UBidi UBidi.BidiClass

/-- number of code units of character number `k` (0 beyond the end) -/
def clen (t : Text) (k : Nat) : Nat := (t.segs[k]?.map (·.len)).getD 0

/-! ### `SegsFrom` -/

theorem segsFrom_step {p e : Nat} {segs : List Seg} (h : SegsFrom p segs e) (k : Nat) (hk : k < segs.length) :
    0 < segs[k].len ∧ ((segs[k+1]?.map (·.start)).getD e) = segs[k].start + segs[k].len := by
  induction segs generalizing p k with
  | nil => simp at hk
  | cons s ss ih =>
    obtain ⟨h1, h2, h3⟩ := h
    cases k with
    | zero =>
      refine ⟨h2, ?_⟩
      cases ss with
      | nil => simp [SegsFrom] at h3 ⊢; omega
      | cons s2 ss2 => simp [SegsFrom] at h3 ⊢; omega
    | succ k => simpa using ih h3 k (by simpa using hk)

theorem segsFrom_head {p e : Nat} {segs : List Seg} (h : SegsFrom p segs e) :
    (segs[0]?.map (·.start)).getD e = p := by
  cases segs with
  | nil => simp [SegsFrom] at h ⊢; omega
  | cons s ss => simp [SegsFrom] at h ⊢; omega

/-! ### `pos` and `clen` -/

theorem pos_zero (t : Text) (hwf : t.WF) : pos t 0 = 0 := segsFrom_head hwf.tiles

theorem pos_of_lt (t : Text) {k : Nat} (hk : k < t.segs.length) : pos t k = t.segs[k].start := by
  simp [pos, hk]

theorem clen_of_lt (t : Text) {k : Nat} (hk : k < t.segs.length) : clen t k = t.segs[k].len := by
  simp [clen, hk]

theorem pos_of_ge (t : Text) {k : Nat} (hk : t.segs.length ≤ k) : pos t k = t.len := by
  simp [pos, hk]

theorem clen_pos (t : Text) (hwf : t.WF) {k : Nat} (hk : k < t.segs.length) : 0 < clen t k := by
  rw [clen_of_lt t hk]; exact (segsFrom_step hwf.tiles k hk).1

theorem pos_succ (t : Text) (hwf : t.WF) {k : Nat} (hk : k < t.segs.length) :
    pos t (k + 1) = pos t k + clen t k := by
  rw [clen_of_lt t hk, pos_of_lt t hk]; exact (segsFrom_step hwf.tiles k hk).2

theorem pos_le (t : Text) (hwf : t.WF) {a b : Nat} (hab : a ≤ b) (hb : b ≤ t.segs.length) :
    pos t a ≤ pos t b := by
  induction b with
  | zero => have : a = 0 := by omega
            subst this; exact Nat.le_refl _
  | succ b ih =>
    by_cases h : a = b + 1
    · subst h; exact Nat.le_refl _
    · have := ih (by omega) (by omega)
      rw [pos_succ t hwf (by omega)]; omega

theorem pos_lt (t : Text) (hwf : t.WF) {a b : Nat} (hab : a < b) (hb : b ≤ t.segs.length) :
    pos t a < pos t b := by
  have h1 := pos_succ t hwf (k := a) (by omega)
  have h2 := clen_pos t hwf (k := a) (by omega)
  have h3 := pos_le t hwf (a := a + 1) (b := b) (by omega) hb
  omega

theorem pos_lt_iff (t : Text) (hwf : t.WF) {a b : Nat} (ha : a ≤ t.segs.length) (hb : b ≤ t.segs.length) :
    pos t a < pos t b ↔ a < b := by
  constructor
  · intro h
    by_cases hab : a < b
    · exact hab
    · have := pos_le t hwf (a := b) (b := a) (by omega) ha
      omega
  · intro h; exact pos_lt t hwf h hb

theorem pos_le_iff (t : Text) (hwf : t.WF) {a b : Nat} (ha : a ≤ t.segs.length) (hb : b ≤ t.segs.length) :
    pos t a ≤ pos t b ↔ a ≤ b := by
  constructor
  · intro h
    by_cases hab : a ≤ b
    · exact hab
    · have := pos_lt t hwf (a := b) (b := a) (by omega) ha
      omega
  · intro h; exact pos_le t hwf h hb

theorem pos_le_len (t : Text) (hwf : t.WF) (k : Nat) : pos t k ≤ t.len := by
  by_cases hk : k ≤ t.segs.length
  · have := pos_le t hwf hk (Nat.le_refl _)
    rwa [pos_of_ge t (Nat.le_refl _)] at this
  · rw [pos_of_ge t (by omega)]; exact Nat.le_refl _

/-- the unit `pos t k + j` of character `k` lies before character `k'` iff `k < k'` -/
theorem unit_lt_pos_iff (t : Text) (hwf : t.WF) {k j k' : Nat} (hk : k < t.segs.length)
    (hj : j < clen t k) (hk' : k' ≤ t.segs.length) : pos t k + j < pos t k' ↔ k < k' := by
  have h1 := pos_succ t hwf hk
  constructor
  · intro h
    by_cases hkk : k < k'
    · exact hkk
    · have := pos_le t hwf (a := k') (b := k) (by omega) (by omega)
      omega
  · intro h
    have := pos_le t hwf (a := k + 1) (b := k') (by omega) hk'
    omega

/-- units of different characters are different -/
theorem unit_inj (t : Text) (hwf : t.WF) {k j k' j' : Nat} (hk : k < t.segs.length) (hj : j < clen t k)
    (hk' : k' < t.segs.length) (hj' : j' < clen t k') (h : pos t k + j = pos t k' + j') : k = k' := by
  have h1 := unit_lt_pos_iff t hwf hk hj (k' := k') (by omega)
  have h2 := unit_lt_pos_iff t hwf hk' hj' (k' := k) (by omega)
  by_cases a : k < k'
  · have := h1.2 a; omega
  · by_cases b : k' < k
    · have := h2.2 b; omega
    · omega

/-! ### reading an expanded array -/

def expandL {α} (segs : List Seg) (xs : List α) : List α :=
  (segs.zip xs).flatMap (fun (s, x) => List.replicate s.len x)

theorem expand_eq {α} (t : Text) (xs : List α) : expand t xs = expandL t.segs xs := rfl

theorem expandL_cons {α} (s : Seg) (segs : List Seg) (x : α) (xs : List α) :
    expandL (s :: segs) (x :: xs) = List.replicate s.len x ++ expandL segs xs := by
  simp [expandL]

theorem length_expandL {α} {p e : Nat} {segs : List Seg} (h : SegsFrom p segs e) (xs : List α)
    (hl : xs.length = segs.length) : (expandL segs xs).length + p = e := by
  induction segs generalizing p xs with
  | nil => simp [SegsFrom] at h; simp [expandL, h]
  | cons s ss ih =>
    obtain ⟨h1, h2, h3⟩ := h
    cases xs with
    | nil => simp at hl
    | cons x xs =>
      rw [expandL_cons]
      have := ih h3 xs (by simpa using hl)
      simp only [List.length_append, List.length_replicate]; omega

theorem segsFrom_start_ge {p e : Nat} {segs : List Seg} (h : SegsFrom p segs e) (k : Nat) (hk : k < segs.length) :
    p ≤ segs[k].start := by
  induction segs generalizing p k with
  | nil => simp at hk
  | cons s ss ih =>
    obtain ⟨h1, h2, h3⟩ := h
    cases k with
    | zero => simp; omega
    | succ k => have := ih h3 k (by simpa using hk); simp; omega

theorem getElem?_expandL {α} {p e : Nat} {segs : List Seg} (h : SegsFrom p segs e) (xs : List α)
    (hl : xs.length = segs.length) (k j : Nat) (hk : k < segs.length) (hj : j < segs[k].len) :
    (expandL segs xs)[segs[k].start + j - p]? = xs[k]? := by
  induction segs generalizing p xs k with
  | nil => simp at hk
  | cons s ss ih =>
    obtain ⟨h1, h2, h3⟩ := h
    cases xs with
    | nil => simp at hl
    | cons x xs =>
      rw [expandL_cons]
      cases k with
      | zero =>
        simp only [List.getElem_cons_zero] at hj ⊢
        rw [List.getElem?_append_left (by simp; omega)]
        simp [List.getElem?_replicate]; omega
      | succ k =>
        have hk' : k < ss.length := by simpa using hk
        simp only [List.getElem_cons_succ] at hj ⊢
        have hge := segsFrom_start_ge h3 k hk'
        rw [List.getElem?_append_right (by simp; omega)]
        have := ih h3 xs (by simpa using hl) k hk' hj
        simp only [List.length_replicate, List.getElem?_cons_succ]
        rw [← this]; congr 1; omega

theorem segsFrom_cover {p e : Nat} {segs : List Seg} (h : SegsFrom p segs e) (i : Nat) (h1 : p ≤ i) (h2 : i < e) :
    ∃ k j, ∃ hk : k < segs.length, j < segs[k].len ∧ i = segs[k].start + j := by
  induction segs generalizing p with
  | nil => simp [SegsFrom] at h; omega
  | cons s ss ih =>
    obtain ⟨h3, h4, h5⟩ := h
    by_cases hi : i < p + s.len
    · exact ⟨0, i - p, by simp, by simp; omega, by simp; omega⟩
    · obtain ⟨k, j, hk, hj, he⟩ := ih h5 (by omega)
      exact ⟨k + 1, j, by simpa using hk, by simpa using hj, by simpa using he⟩

theorem length_expand {α} (t : Text) (hwf : t.WF) (xs : List α) (hl : xs.length = t.segs.length) :
    (expand t xs).length = t.len := by
  have := length_expandL hwf.tiles xs hl
  rw [expand_eq]; omega

theorem getElem?_expand {α} (t : Text) (hwf : t.WF) (xs : List α) (hl : xs.length = t.segs.length)
    {k j : Nat} (hk : k < t.segs.length) (hj : j < clen t k) :
    (expand t xs)[pos t k + j]? = xs[k]? := by
  rw [clen_of_lt t hk] at hj
  have := getElem?_expandL hwf.tiles xs hl k j hk hj
  rw [pos_of_lt t hk, expand_eq]; simpa using this

theorem unit_cover (t : Text) (hwf : t.WF) {i : Nat} (hi : i < t.len) :
    ∃ k j, k < t.segs.length ∧ j < clen t k ∧ i = pos t k + j := by
  obtain ⟨k, j, hk, hj, he⟩ := segsFrom_cover hwf.tiles i (Nat.zero_le _) hi
  exact ⟨k, j, hk, by rw [clen_of_lt t hk]; exact hj, by rw [pos_of_lt t hk]; exact he⟩

/-- extensionality against an expanded array -/
theorem expand_ext {α} (t : Text) (hwf : t.WF) (A : List α) (ys : List α) (hl : ys.length = t.segs.length)
    (hA : A.length = t.len)
    (h : ∀ k j, k < t.segs.length → j < clen t k → A[pos t k + j]? = ys[k]?) : A = expand t ys := by
  apply List.ext_getElem?
  intro i
  by_cases hi : i < t.len
  · obtain ⟨k, j, hk, hj, rfl⟩ := unit_cover t hwf hi
    rw [h k j hk hj, getElem?_expand t hwf ys hl hk hj]
  · rw [List.getElem?_eq_none (by omega), List.getElem?_eq_none (by rw [length_expand t hwf ys hl]; omega)]

theorem cget_expand (t : Text) (hwf : t.WF) (xs : Classes) (hl : xs.length = t.segs.length)
    {k j : Nat} (hk : k < t.segs.length) (hj : j < clen t k) :
    cget (expand t xs) (pos t k + j) = cget xs k := by
  unfold cget
  rw [List.getD_eq_getElem?_getD, List.getD_eq_getElem?_getD, getElem?_expand t hwf xs hl hk hj]

theorem cget_expand_pos (t : Text) (hwf : t.WF) (xs : Classes) (hl : xs.length = t.segs.length)
    {k : Nat} (hk : k < t.segs.length) : cget (expand t xs) (pos t k) = cget xs k :=
  cget_expand t hwf xs hl hk (j := 0) (clen_pos t hwf hk)

theorem getD_expand_pos {α} (t : Text) (hwf : t.WF) (xs : List α) (hl : xs.length = t.segs.length)
    (k : Nat) (hk : k ≤ t.segs.length) (d : α) : (expand t xs).getD (pos t k) d = xs.getD k d := by
  rw [List.getD_eq_getElem?_getD, List.getD_eq_getElem?_getD]
  by_cases h : k < t.segs.length
  · have := getElem?_expand t hwf xs hl h (j := 0) (clen_pos t hwf h)
    rw [Nat.add_zero] at this; rw [this]
  · rw [pos_of_ge t (by omega), List.getElem?_eq_none (by rw [length_expand t hwf xs hl]; omega),
      List.getElem?_eq_none (by omega)]

/-! ### blocks and walks -/

/-- `blk` lists exactly the units of character `k`, each once (in any order) -/
structure Block (t : Text) (k : Nat) (blk : List Nat) : Prop where
  mem : ∀ i, i ∈ blk ↔ pos t k ≤ i ∧ i < pos t k + clen t k
  nodup : blk.Nodup

/-- units of character `k`, ascending -/
def fwd (t : Text) (k : Nat) : List Nat := List.range' (pos t k) (clen t k)
/-- units of character `k`, descending -/
def bwd (t : Text) (k : Nat) : List Nat := (List.range' (pos t k) (clen t k)).reverse

theorem block_fwd (t : Text) (k : Nat) : Block t k (fwd t k) :=
  ⟨by intro i; simp only [fwd, List.mem_range'_1], List.nodup_range'⟩

theorem block_bwd (t : Text) (k : Nat) : Block t k (bwd t k) :=
  ⟨by intro i; simp only [bwd, List.mem_reverse, List.mem_range'_1], by
    have : (List.range' (pos t k) (clen t k)).Nodup := List.nodup_range'
    unfold bwd; grind⟩

/-- a block of an in-range character is `u :: rest` -/
theorem Block.ne_nil {t : Text} (hwf : t.WF) {k : Nat} {blk : List Nat} (hb : Block t k blk)
    (hk : k < t.segs.length) : ∃ u rest, blk = u :: rest := by
  cases blk with
  | nil =>
    have := (hb.mem (pos t k)).2 ⟨Nat.le_refl _, by have := clen_pos t hwf hk; omega⟩
    simp at this
  | cons u rest => exact ⟨u, rest, rfl⟩

theorem Block.unit {t : Text} {k : Nat} {blk : List Nat} (hb : Block t k blk) {u : Nat} (hu : u ∈ blk) :
    ∃ j, j < clen t k ∧ u = pos t k + j := by
  have := (hb.mem u).1 hu
  exact ⟨u - pos t k, by omega, by omega⟩

/-- the units of the characters `ks`, character by character -/
def units (t : Text) (ks : List Nat) : List Nat := ks.flatMap (fwd t)
/-- the same, every character's units descending (for backward walks) -/
def unitsR (t : Text) (ks : List Nat) : List Nat := ks.flatMap (bwd t)

theorem units_reverse (t : Text) (ks : List Nat) : (units t ks).reverse = unitsR t ks.reverse := by
  simp only [units, unitsR, List.reverse_flatMap]
  rfl

theorem range_units (t : Text) (hwf : t.WF) (a b : Nat) (ha : a ≤ t.segs.length) (hb : b ≤ t.segs.length) :
    List.range' (pos t a) (pos t b - pos t a) = units t (List.range' a (b - a)) := by
  generalize hd : b - a = d
  induction d generalizing a with
  | zero =>
    have : pos t b ≤ pos t a := pos_le t hwf (by omega) ha
    have : pos t b - pos t a = 0 := by omega
    rw [this]; rfl
  | succ d ih =>
    have ha' : a < t.segs.length := by omega
    have h1 := pos_succ t hwf ha'
    have h2 := pos_le t hwf (a := a + 1) (b := b) (by omega) hb
    rw [List.range'_succ, units, List.flatMap_cons, ← units, ← ih (a + 1) (by omega) (by omega), h1, fwd]
    rw [List.range'_append_1]
    congr 1
    omega

theorem range_unitsR (t : Text) (hwf : t.WF) (a b : Nat) (ha : a ≤ t.segs.length) (hb : b ≤ t.segs.length) :
    (List.range' (pos t a) (pos t b - pos t a)).reverse = unitsR t (List.range' a (b - a)).reverse := by
  rw [range_units t hwf a b ha hb, units_reverse]

end UBidi.Expand.Neutral
