/-
  C01 / composition, part 6 (layer 1): a paragraph of single-unit characters, general branch of
  `compute_bidi_info_for_para`.  The levels the Model computes are the levels UAX #9 assigns
  (`paraLevels_unit_true` for `has_isolate_controls = true`, `paraLevels_unit` for the flag the
  crate really passes).
-/
import UBidi.Lemmas.C01ComposeSeqs
import UBidi.Lemmas.C01ComposeFill
namespace UBidi.Lemmas.C01Compose
open UBidi UBidi.BidiClass UBidi.Lemmas.C01Seq UBidi.Lemmas.C01Neutral
open UBidi.Props.C13 (Contig contig_bounds)

/-- the hypotheses of layer 1: a single-unit text `t` of `n` characters, `chars` its characters as the
    Spec sees them (class after X5c, bracket property from the data source) -/
structure Ctx (ds : DataSource) (t : Text) (n pl : Nat) (chars : List Spec.Ch) : Prop where
  hu : UnitText t n
  hpl : pl ≤ 1
  hlen : chars.length = n
  hB : NoInnerB (chars.map (·.cls))
  hbrk : chars.map (·.brk) = t.segs.map (fun s => ds.brk s.cp)

section
variable {ds : DataSource} {t : Text} {n pl : Nat} {chars : List Spec.Ch}

theorem Ctx.clen (c : Ctx ds t n pl chars) : (chars.map (·.cls)).length = n := by
  rw [List.length_map]; exact c.hlen

/-- the survivor standing for the kept position `i` -/
theorem ks_at (pl : Nat) (chars : List Spec.Ch) (i : Nat) (hi : i < chars.length)
    (hk : keptAt (chars.map (·.cls)) i = true) :
    (ksOf pl chars).getD (toKs (chars.map (·.cls)) i) default =
      ({ orig := i, level := ((Spec.explicit pl (chars.map (·.cls))).getD i (0, ON)).1,
         ty := ((Spec.explicit pl (chars.map (·.cls))).getD i (0, ON)).2,
         cls := (chars.map (·.cls)).getD i ON, brk := (chars.getD i default).brk } : Spec.K) := by
  rw [ksOf_eq, List.getD_eq_getElem?_getD, List.getElem?_map,
    keptIdx_getElem?_toKs _ i (by rw [List.length_map]; exact hi) hk]
  rfl

/-- … with the Model's explicit level and type -/
theorem ks_at_model (c : Ctx ds t n pl chars) (i : Nat) (hi : i < n)
    (hk : keptAt (chars.map (·.cls)) i = true) :
    (ksOf pl chars).getD (toKs (chars.map (·.cls)) i) default =
      ({ orig := i, level := (explicitCompute t pl (chars.map (·.cls))).levels.getD i 0,
         ty := (explicitCompute t pl (chars.map (·.cls))).pcs.getD i ON,
         cls := (chars.map (·.cls)).getD i ON, brk := brkAt ds t i } : Spec.K) := by
  obtain ⟨_, _, hagree, _, _, _⟩ := explicit_unit t n c.hu pl c.hpl _ c.clen
  rw [ks_at pl chars i (by rw [c.hlen]; exact hi) hk, brkAt_unit ds c.hu chars c.hbrk i hi]
  have := hagree i hi hk
  rw [List.getD_eq_getElem?_getD, this]
  rfl

/-- the loop over the Model's sequences -/
theorem model_fold (hweak : WeakInv ds) (c : Ctx ds t n pl chars) :
    let cls := chars.map (·.cls)
    let ex := explicitCompute t pl cls
    let seqs := (isolatingRunSequences pl cls ex.levels ex.runs true).1
    ∃ F, resolveSequences ds t ex.levels cls seqs ex.pcs = (F, none) ∧ F.length = n ∧
      ∀ s ∈ seqs, (keptOf cls s).map (cget F) = modelCore ds t ex.levels cls ex.pcs s := by
  intro cls ex seqs
  have hcl : cls.length = n := c.clen
  obtain ⟨_, _, _, hcontig, hstart, _⟩ := explicit_unit t n c.hu pl c.hpl cls hcl
  obtain ⟨hpl', hremX, hovX, _⟩ := explicit_unit_more t n c.hu pl c.hpl cls hcl
  rw [← hcl] at hcontig
  obtain ⟨hseq, hperm⟩ := model_seqs pl cls ex.levels ex.runs hcontig hstart
  have hnd : (seqs.flatMap (·.indices)).Nodup :=
    (List.Perm.nodup_iff hperm).2 (List.nodup_range' (step := 1) (by omega))
  have := fold_local (Expand.Pipeline.seqStep ds t ex.levels cls) ex.pcs (keepU cls)
    (modelCore ds t ex.levels cls ex.pcs) seqs hnd (by
      intro s hs P hP hag
      obtain ⟨hok, hne, hsos, heos, _, _⟩ := hseq s hs
      rw [hcl] at hok
      have hilt : ∀ i ∈ s.indices, i < n := fun i hi => Expand.Weak.mem_indices_lt hok hi
      obtain ⟨out, o1, o2, o3, o4⟩ := seqStep_unit ds hweak t n c.hu ex.levels cls hcl s hok hne hsos heos P
        (by rw [hP, hpl'])
        (by
          intro i hi hk
          rw [hag i hi]
          exact hremX i (hilt i hi) hk)
        (by
          intro i hi hk
          rw [hag i hi]
          exact hovX i (hilt i hi) hk)
      refine ⟨out, o1, by rw [o2, hP, hpl'], o3, ?_⟩
      show (keptOf cls s).map (cget out) = _
      rw [o4]
      unfold modelCore
      have : (keptOf cls s).map (cget P) = (keptOf cls s).map (cget ex.pcs) :=
        List.map_congr_left (fun i hi => hag i (List.mem_filter.1 hi).1)
      rw [this])
  obtain ⟨F, f1, f2, f3⟩ := this
  exact ⟨F, f1, by rw [f2, hpl'], f3⟩

/-- a Model sequence and the Spec sequence with the same item: `Spec.resolveSequence` gives, at the
    positions of the sequence, what the Model leaves at the corresponding kept units -/
theorem link (c : Ctx ds t n pl chars) (F : Classes) (s : IRSeq)
    (hs : s ∈ (isolatingRunSequences pl (chars.map (·.cls))
      (explicitCompute t pl (chars.map (·.cls))).levels (explicitCompute t pl (chars.map (·.cls))).runs true).1)
    (hF : (keptOf (chars.map (·.cls)) s).map (cget F) =
      modelCore ds t (explicitCompute t pl (chars.map (·.cls))).levels (chars.map (·.cls))
        (explicitCompute t pl (chars.map (·.cls))).pcs s)
    (q : List (Nat × Nat)) (hq : modelItem (chars.map (·.cls)) s = some (specItem pl (ksOf pl chars) q)) :
    Spec.resolveSequence pl (ksOf pl chars) q =
      (keptOf (chars.map (·.cls)) s).map (fun i => (toKs (chars.map (·.cls)) i, cget F i)) := by
  have hcl := c.clen
  generalize hcls : chars.map (·.cls) = cls at *
  generalize hex : explicitCompute t pl cls = ex at *
  obtain ⟨_, _, _, hcontig, hstart, _⟩ := explicit_unit t n c.hu pl c.hpl cls hcl
  obtain ⟨_, _, _, huni⟩ := explicit_unit_more t n c.hu pl c.hpl cls hcl
  rw [hex] at hcontig hstart huni
  rw [← hcl] at hcontig
  obtain ⟨hseq, _⟩ := model_seqs pl cls ex.levels ex.runs hcontig hstart
  obtain ⟨hok, hne, _, _, hrun, hfirst⟩ := hseq s hs
  rw [hcl] at hok
  -- the item
  unfold modelItem at hq
  have hK : s.indices.filter (fun i => notRemoved (cls.getD i ON)) = keptOf cls s := rfl
  simp only [hK] at hq
  by_cases hKe : keptOf cls s = []
  · rw [if_pos hKe] at hq; cases hq
  rw [if_neg hKe, Option.some.injEq] at hq
  unfold specItem at hq
  simp only [Prod.mk.injEq] at hq
  obtain ⟨hpos, hsos, heos⟩ := hq
  have hposne : Spec.seqPositions q ≠ [] := by
    rw [← hpos]; simpa using hKe
  have hKlt : ∀ i ∈ keptOf cls s, i < n ∧ keptAt cls i = true := by
    intro i hi
    obtain ⟨h1, h2⟩ := List.mem_filter.1 hi
    exact ⟨Expand.Weak.mem_indices_lt hok h1, h2⟩
  have hks : ∀ i ∈ keptOf cls s, (ksOf pl chars).getD (toKs cls i) default =
      ({ orig := i, level := ex.levels.getD i 0, ty := ex.pcs.getD i ON, cls := cls.getD i ON,
         brk := brkAt ds t i } : Spec.K) := by
    intro i hi
    have := ks_at_model c i (hKlt i hi).1 (by rw [hcls]; exact (hKlt i hi).2)
    rw [hcls, hex] at this
    exact this
  -- the embedding direction
  obtain ⟨i0, tl, hi0, e1, e2, e3⟩ := hfirst hKe
  obtain ⟨r0, rest, hr0⟩ := List.exists_cons_of_ne_nil hne
  rw [hr0, List.headD_cons] at e1 e2
  have hr0m : r0 ∈ ex.runs := hrun r0 (by rw [hr0]; simp)
  have hlev : ex.levels.getD i0 0 = ex.levels.getD r0.1 0 := huni r0 hr0m i0 e1 e2 e3
  have hhead : (Spec.seqPositions q).headD 0 = toKs cls i0 := by
    rw [← hpos, hi0]; rfl
  rw [resolveSequence_eq pl (ksOf pl chars) q hposne]
  simp only []
  rw [hhead, hks i0 (by rw [hi0]; simp), ← hpos, ← hsos, ← heos]
  simp only [List.map_map]
  have hts0 : (keptOf cls s).map ((fun p => ((ksOf pl chars).getD p default).ty) ∘ toKs cls) =
      (keptOf cls s).map (cget ex.pcs) :=
    List.map_congr_left (fun i hi => by simp only [Function.comp, hks i hi]; rfl)
  have hnsm : (keptOf cls s).map ((fun p => ((ksOf pl chars).getD p default).cls == NSM) ∘ toKs cls) =
      (keptOf cls s).map (fun u => cget cls u == NSM) :=
    List.map_congr_left (fun i hi => by simp only [Function.comp, hks i hi]; rfl)
  have hbs : (keptOf cls s).map ((fun p => ((ksOf pl chars).getD p default).brk) ∘ toKs cls) =
      (keptOf cls s).map (brkAt ds t) :=
    List.map_congr_left (fun i hi => by simp only [Function.comp, hks i hi])
  rw [hts0, hnsm, hbs, hlev]
  have hcore : (keptOf cls s).map (cget F) = core s.sos s.eos (Level.bidiClass (ex.levels.getD r0.1 0))
      ((keptOf cls s).map (cget ex.pcs)) ((keptOf cls s).map (fun u => cget cls u == NSM))
      ((keptOf cls s).map (brkAt ds t)) := by
    rw [hF]; unfold modelCore; rw [hr0, List.headD_cons]
  rw [← List.zip_map' (f := toKs cls) (g := cget F), hcore]
  rfl

end

end UBidi.Lemmas.C01Compose
