/-
  UBidi.Lemmas.C03Line — lengths, uniformity of expanded levels, and well-formedness of
  `Text.subrange` on character boundaries (for property C03).
-/
import UBidi.Lemmas.C03Scan
namespace UBidi.Lemmas.C03
open UBidi BidiClass

/-! ### lengths -/

theorem length_l1 (pl p : Nat) (cs : List (BidiClass × Nat)) : (Spec.l1 pl p cs).length = cs.length := by
  induction cs generalizing p with
  | nil => rfl
  | cons c rest ih => obtain ⟨c, l⟩ := c; simp [Spec.l1, ih]

theorem length_l1Step (enc : Enc) (cls : Classes) (pl : Nat) (st : L1State) (s : Seg) :
    (l1Step enc cls pl st s).levels.length = st.levels.length := by
  unfold l1Step; dsimp only
  split <;> split <;> simp [length_setRange]

theorem length_foldl_l1Step (enc : Enc) (cls : Classes) (pl : Nat) (segs : List Seg) (st : L1State) :
    (segs.foldl (l1Step enc cls pl) st).levels.length = st.levels.length := by
  induction segs generalizing st with
  | nil => rfl
  | cons s ss ih => rw [List.foldl_cons, ih, length_l1Step]

/-- `reorder_levels` keeps the length of the level vector, for every input -/
theorem length_reorderLevels (cls : Classes) (lv : List Nat) (t : Text) (pl : Nat) :
    (reorderLevels cls lv t pl).1.length = lv.length := by
  rw [reorderLevels_eq_finish]
  unfold finish
  split <;> simp [length_setRange, length_foldl_l1Step]

/-! ### expanded levels are uniform -/

theorem expandS_uniform (segs : List Seg) :
    ∀ (xs P : List Nat) (k n : Nat), SegsFrom k segs n → xs.length = segs.length → P.length = k →
      UniformS segs (P ++ expandS segs xs) ∧ (P ++ expandS segs xs).length = n := by
  induction segs with
  | nil =>
    intro xs P k n h _ hP
    have : k = n := h
    simp [UniformS, expandS_nil, hP, this]
  | cons s ss ih =>
    intro xs P k n h hx hP
    obtain ⟨hs, hpos, h'⟩ := h
    cases xs with
    | nil => simp at hx
    | cons x xs =>
      rw [expandS_cons, ← List.append_assoc]
      have := ih xs (P ++ List.replicate s.len x) (k + s.len) n h' (by simpa using hx) (by simp [hP])
      refine ⟨?_, this.2⟩
      intro s' hs' j hj
      rcases List.mem_cons.1 hs' with rfl | hs'
      · have h1 : ∀ q, q < s'.len → (P ++ List.replicate s'.len x ++ expandS ss xs)[s'.start + q]? = some x := by
          intro q hq
          rw [List.getElem?_append_left (by simp; omega), List.getElem?_append_right (by omega)]
          simp [List.getElem?_replicate]; omega
        rw [h1 j hj]; exact (h1 0 hpos).symm
      · exact this.1 s' hs' j hj

/-! ### sub-ranges on character boundaries -/

/-- `i` is a character start of `segs` or the end `n` -/
def IsBdy (segs : List Seg) (n i : Nat) : Prop := i = n ∨ ∃ s ∈ segs, s.start = i

theorem isBoundary_iff (t : Text) (i : Nat) : t.isBoundary i = true ↔ IsBdy t.segs t.len i := by
  simp [Text.isBoundary, IsBdy]

def subSegs (a b : Nat) (segs : List Seg) : List Seg :=
  (segs.filter (fun s => a ≤ s.start && s.start < b)).map (fun s => { s with start := s.start - a })

theorem subrange_segs (t : Text) (a b : Nat) : (t.subrange a b).segs = subSegs a b t.segs := rfl

theorem IsBdy_tail {k n i : Nat} {s : Seg} {ss : List Seg} (h : SegsFrom k (s :: ss) n)
    (hi : IsBdy (s :: ss) n i) (hne : i ≠ k) : IsBdy ss n i ∧ k + s.len ≤ i := by
  obtain ⟨hs, _, h'⟩ := h
  have hb := SegsFrom_bounds h'
  rcases hi with rfl | ⟨x, hx, rfl⟩
  · exact ⟨Or.inl rfl, hb.1⟩
  · rcases List.mem_cons.1 hx with rfl | hx
    · exact absurd hs hne
    · exact ⟨Or.inr ⟨x, hx, rfl⟩, (hb.2 x hx).1⟩

theorem subSegs_nil_of_le {k n a b : Nat} {segs : List Seg} (h : SegsFrom k segs n) (hb : b ≤ k) :
    subSegs a b segs = [] := by
  have := (SegsFrom_bounds h).2
  simp only [subSegs, List.map_eq_nil_iff, List.filter_eq_nil_iff]
  intro s hs
  have := this s hs
  simp; omega

theorem subSegs_from {a b : Nat} (segs : List Seg) :
    ∀ (k n : Nat), SegsFrom k segs n → a ≤ k → k ≤ b → IsBdy segs n b →
      SegsFrom (k - a) (subSegs a b segs) (b - a) := by
  induction segs with
  | nil =>
    intro k n h _ _ hb
    have hk : k = n := h
    rcases hb with rfl | ⟨x, hx, _⟩
    · simp [subSegs, SegsFrom, hk]
    · simp at hx
  | cons s ss ih =>
    intro k n h hak hkb hb
    by_cases hlt : k < b
    · obtain ⟨hbt, hle⟩ := IsBdy_tail h hb (by omega)
      obtain ⟨hs, hpos, h'⟩ := h
      have hf : subSegs a b (s :: ss) = { s with start := s.start - a } :: subSegs a b ss := by
        simp [subSegs, hs, hak, hlt]
      rw [hf]
      refine ⟨by simp [hs], hpos, ?_⟩
      have := ih (k + s.len) n h' (by omega) hle hbt
      rwa [show k + s.len - a = k - a + s.len by omega] at this
    · have hkb' : k = b := by omega
      rw [subSegs_nil_of_le h (by omega), hkb']
      rfl

theorem subSegs_tiles {a b : Nat} (segs : List Seg) :
    ∀ (k n : Nat), SegsFrom k segs n → k ≤ a → a ≤ b → IsBdy segs n a → IsBdy segs n b →
      SegsFrom 0 (subSegs a b segs) (b - a) := by
  induction segs with
  | nil =>
    intro k n h _ _ ha hb
    rcases ha with rfl | ⟨x, hx, _⟩
    · rcases hb with rfl | ⟨x, hx, _⟩
      · simp [subSegs, SegsFrom]
      · simp at hx
    · simp at hx
  | cons s ss ih =>
    intro k n h hka hab ha hb
    by_cases heq : k = a
    · have := subSegs_from (a := a) (b := b) (s :: ss) k n h (by omega) (by omega) hb
      rwa [heq, Nat.sub_self] at this
    · obtain ⟨hat, hle⟩ := IsBdy_tail h ha (by omega)
      obtain ⟨hbt, _⟩ := IsBdy_tail h hb (by omega)
      obtain ⟨hs, hpos, h'⟩ := h
      have hf : subSegs a b (s :: ss) = subSegs a b ss := by
        have : ¬ a ≤ s.start := by omega
        simp [subSegs, this]
      rw [hf]
      exact ih (k + s.len) n h' hle hab hat hbt

theorem mem_subSegs {a b : Nat} {segs : List Seg} {s' : Seg} (h : s' ∈ subSegs a b segs) :
    ∃ s ∈ segs, a ≤ s.start ∧ s.start < b ∧ s' = { s with start := s.start - a } := by
  simp only [subSegs, List.mem_map, List.mem_filter, Bool.and_eq_true, decide_eq_true_eq] at h
  obtain ⟨s, ⟨hs, h1, h2⟩, rfl⟩ := h
  exact ⟨s, hs, h1, h2, rfl⟩

/-- a sub-range on character boundaries of a well-formed text is well-formed -/
theorem subrange_WF (t : Text) (hwf : t.WF) (a b : Nat) (hab : a ≤ b)
    (ha : t.isBoundary a = true) (hb : t.isBoundary b = true) : (t.subrange a b).WF := by
  constructor
  · exact subSegs_tiles t.segs 0 t.len hwf.tiles (Nat.zero_le _) hab
      ((isBoundary_iff t a).1 ha) ((isBoundary_iff t b).1 hb)
  · intro s' hs'
    obtain ⟨s, hs, _, _, rfl⟩ := mem_subSegs (by rw [← subrange_segs]; exact hs')
    exact hwf.lens s hs

theorem getElem?_slice {α} (xs : List α) (a b i : Nat) :
    (slice xs a b)[i]? = if i < b - a then xs[a + i]? else none := by
  simp [slice, List.getElem?_take, List.getElem?_drop]

/-- uniformity is inherited by a sub-range on character boundaries -/
theorem subrange_uniform {α} (t : Text) (hwf : t.WF) (a b : Nat) (hab : a ≤ b)
    (ha : t.isBoundary a = true) (hb : t.isBoundary b = true) (xs : List α)
    (hu : UniformS t.segs xs) : UniformS (t.subrange a b).segs (slice xs a b) := by
  have hb' := (SegsFrom_bounds (subrange_WF t hwf a b hab ha hb).tiles).2
  intro s' hs' j hj
  have hbd := hb' s' hs'
  obtain ⟨s, hs, h1, h2, rfl⟩ := mem_subSegs (by rw [← subrange_segs]; exact hs')
  simp only [Text.subrange] at hbd
  dsimp only at hbd hj ⊢
  simp only [getElem?_slice]
  rw [if_pos (by omega), if_pos (by omega)]
  have := hu s hs j hj
  rw [show a + (s.start - a + j) = s.start + j by omega, show a + (s.start - a) = s.start by omega]
  exact this

end UBidi.Lemmas.C03
