/-
  UBidi.Lemmas.CheckedLinesDefs — CHECKED COPIES of the two parts of the Model that
  `UBidi/Lemmas/CheckedDefs.lean` left out:

    (A) lib.rs `compute_initial_info`                      (Model/Initial.lean: `iiStep`, `computeInitialInfo`)
    (B) the line queries of lib.rs / deprecated.rs          (Model/Reorder.lean):
        `reorder_levels`, `reordered_levels`, `reordered_levels_per_char`, `visual_runs_for_line` /
        `deprecated::visual_runs`, `reorder_visual` (with `next_range`), `reorder_line` (free function and
        method), `Paragraph::direction`, `Paragraph::level_at`.

  As in `CheckedDefs.lean`: the same algorithm statement for statement, but EVERY array read, array write
  and slice goes through the flag-raising primitives of `CheckedDefs.lean` (`rd`, `rdOpt`, `wr`, `slc`,
  `sliceC`, `takeC`, `dropC`, `wrRange`, `wrRangeLoop`, `mapC`, `foldlC`, …) and the flags are ORed into
  `Chk.oob`.  Index sites that the Model already represents as explicit panic sites (`err := some …`:
  the X5c range check of `iiStep`, the asserts and range checks of `reorderedLevels` / `reorderLine`, the
  empty line of `visualRunsForLine`, the `str` character-boundary condition) are kept as they are — the
  `err` is propagated unchanged — and the flag is raised IN ADDITION where the access itself is performed.
  `UBidi/Lemmas/CheckedLinesVal.lean` proves `(fC args).val = f args`, `UBidi/Lemmas/CheckedLinesOob*.lean`
  prove `(fC args).oob = false` under the hypotheses of the property theorems,
  `UBidi/Props/C07IndexLines.lean` composes them.

  Where the crate runs an INDEX loop and the Model recurses over a list, the copy is the index loop:
  the L2 pass of `visual_runs_for_line` (`l2PassC` / `seqEndC`: `runs[seq_start]`, `runs[seq_end].start`,
  `levels[…]`, `runs[seq_start..seq_end].reverse()`; the Model: `revGroups`).

  TWO NEW PRIMITIVES (first section), both NON-panicking operations of the crate — an iterator adaptor
  and the `Option`-returning accessor — which the Model writes with `take`/`drop` and `xs[i]?`:
      `iterRange xs x y`   `xs.iter().take(y).skip(x)`   (never out of range: the iterator just ends)
      `getOpt xs i`        `xs.get(i)`                   (`None` out of range, no panic)

  AUDIT.  Below the section marker line that ends the primitives (the only line of this file matching
  `^.-! ## =+ PRIMITIVES \(END\)`), this file — comments included — must not mention, as whole words,
  any totalised access nor any unchecked Model function of the two parts.  Command:
    awk '/^.-! ## =+ PRIMITIVES \(END\)/{f=1;next} f' UBidi/Lemmas/CheckedLinesDefs.lean | grep -nE \
      '\b(getD|cget|setRange|setAll|slice|getLast\??|head!|iiStep|computeInitialInfo|l1Step|reorderLevels|reorderedLevels|reorderedLevelsPerChar|revGroups|l2RunsLoop|visualRunsForLine|skipBelow|skipAtLeast|nextRange|reverseRange|rvPass|rvLoop|reorderVisual|reorderLinePieces|reorderLine|paraDirection|levelAt|piecesUnits16|bidiInfo|paragraphBidiInfo)\b|List\.set|\.set |get!|\]!|\]\?|List\.take|\.take |List\.drop|\.drop '
  must print nothing.  This file contains definitions only (no theorem, no example).  Index-free
  Model functions are used as they are: `findRuns` (the first loop of `visual_runs_for_line`, an iterator
  with `enumerate`), `paraDirectionLoop` (a `for` over a slice), `Level.*`, `Text.charAt`, `Text.subrange`
  (its range is checked by `slc`), `Text.isBoundary`, `orErr`, the record types `IIState`, `L1State`,
  `InitialOut`, `Piece`.  `Vec::last()` / `Vec::pop()` on `isolate_stack` return `Option` (no index): they
  are the list patterns `start :: _` / `.tail` of the Model, kept.  `unwrapOr` (a primitive of
  `CheckedDefs.lean`) is `Option::unwrap_or`.
-/
import UBidi.Lemmas.CheckedDefs
import UBidi.Model.Reorder
namespace UBidi.Checked
open UBidi UBidi.BidiClass

/-! ## ======================= PRIMITIVES (BEGIN) ======================= -/

/-- `xs.iter().take(y).skip(x)` (also with `enumerate()`): an iterator adaptor, NOT an index — out of
    range it simply yields fewer elements, it cannot panic; no flag -/
def iterRange {α : Type} (xs : List α) (x y : Nat) : List α := (xs.drop x).take (y - x)

/-- `xs.get(i)`: the `Option`-returning accessor of a slice, NOT an index — `None` out of range, it
    cannot panic; no flag -/
def getOpt {α : Type} (xs : List α) (i : Nat) : Option α := xs[i]?

/-! ## ======================= PRIMITIVES (END) ======================= -/

/-! ### (A) lib.rs `compute_initial_info` -/

/-- X5c at a strong character inside an isolate whose initiator sits at unit `start`
    (`isolate_stack.last() = Some(&start)`): `original_classes[start] == FSI`, then
    `for j in 0..fsi_len { original_classes[start + j] = … }`.  The range check that the Model records
    in `err` is kept. -/
def x5cC (t : Text) (cls : BidiClass) (st : IIState) (start : Nat) : Chk IIState := do
  let c ← rd st.classes start ON
  if c == FSI then do
    let n := match t.charAt start with | some fsi => fsi.len | none => 1
    let v := if cls == L then LRI else RLI
    let classes ← wrRange st.classes start n v
    pure { st with
      classes := classes
      err := orErr st.err (if start + n ≤ st.classes.length then none else some .indexOutOfBounds) }
  else pure st

/-- the arm `L | R | AL` after `is_pure_ltr` is updated: `match isolate_stack.last()` — X5c inside an
    isolate, P2 outside -/
def iiStrongC (t : Text) (cls : BidiClass) (st : IIState) : Chk IIState :=
  match st.stack with
  | start :: _ => x5cC t cls st start
  | [] =>
    if st.paraLevel.isNone then
      pure { st with paraLevel := some (if cls != L then 1 else 0) }
    else pure st

/-- One iteration of `for (i, c) in text.char_indices()` of `compute_initial_info`.
    `original_classes.extend(repeat(class).take(len))` appends (no index); `isolate_stack.last()`,
    `.push(i)`, `.pop()`, `.clear()` are not index expressions. -/
def iiStepC (ds : DataSource) (t : Text) (split : Bool) (dflt : Option Nat)
    (st : IIState) (s : Seg) : Chk IIState :=
  let enc := t.enc
  let cls := ds.cls s.cp
  let len := enc.charLen s.cp
  let i := s.start
  let st := { st with classes := st.classes ++ List.replicate len cls }
  match cls with
  | B =>
    if split then
      let paraEnd := i + len
      pure { st with
        paras := st.paras ++ [{ start := st.paraStart, stop := paraEnd, level := unwrapOr st.paraLevel 0 }]
        flags := st.flags ++ [{ pureLtr := st.pureLtr, hasIso := st.hasIso }]
        paraStart := paraEnd
        paraLevel := dflt
        pureLtr := true
        hasIso := false
        stack := [] }
    else pure st
  | L | R | AL => iiStrongC t cls (if cls != L then { st with pureLtr := false } else st)
  | AN | LRE | RLE | LRO | RLO => pure { st with pureLtr := false }
  | RLI | LRI | FSI => pure { st with pureLtr := false, hasIso := true, stack := i :: st.stack }
  | PDI => pure { st with stack := st.stack.tail }
  | _ => pure st

/-- `compute_initial_info(data_source, text, default_para_level, split_paragraphs)` -/
def computeInitialInfoC (ds : DataSource) (t : Text) (dflt : Option Nat) (split : Bool) : Chk InitialOut := do
  let st0 : IIState := { paraLevel := dflt }
  let st ← foldlC (iiStepC ds t split dflt) st0 t.segs
  let pf : List ParaInfo × List Flags :=
    if split && st.paraStart < t.len then
      (st.paras ++ [{ start := st.paraStart, stop := t.len, level := unwrapOr st.paraLevel 0 }],
       st.flags ++ [{ pureLtr := st.pureLtr, hasIso := st.hasIso }])
    else (st.paras, st.flags)
  pure { classes := st.classes, paras := pf.1, flags := pf.2,
         lastLevel := unwrapOr st.paraLevel 0, lastPureLtr := st.pureLtr, lastHasIso := st.hasIso,
         err := st.err }

/-- `BidiInfo::new_with_data_source` with EVERY stage checked: the first pass (this file) and the
    paragraph loop of `bidiInfoC` (`CheckedDefs.lean`, which runs the first pass unchecked) -/
def bidiInfoFullC (ds : DataSource) (t : Text) (dflt : Option Nat) : Chk BidiInfo := do
  let ii ← computeInitialInfoC ds t dflt true
  let r ← foldlC (fun (acc : List Nat × Option Panic) (pf : ParaInfo × Flags) => do
      let p := pf.1
      slc t.len p.start p.stop
      let cls ← sliceC ii.classes p.start p.stop
      let le ← paraLevelsC ds p.level pf.2.pureLtr pf.2.hasIso (t.subrange p.start p.stop) cls
      pure (acc.1 ++ le.1, orErr acc.2 le.2))
    ([], ii.err) (ii.paras.zip ii.flags)
  pure { classes := ii.classes, levels := r.1, paras := ii.paras, err := r.2 }

/-- `ParagraphBidiInfo::new_with_data_source` with every stage checked -/
def paragraphBidiInfoFullC (ds : DataSource) (t : Text) (dflt : Option Nat) : Chk ParagraphBidiInfo := do
  let ii ← computeInitialInfoC ds t dflt false
  let le ← paraLevelsC ds ii.lastLevel ii.lastPureLtr ii.lastHasIso t ii.classes
  pure { classes := ii.classes, levels := le.1, paraLevel := ii.lastLevel, pureLtr := ii.lastPureLtr,
         err := orErr ii.err le.2 }

/-! ### (B) lib.rs `reorder_levels` (rule L1) -/

/-- the class of the character at unit `i` of the line: the first `match` of the loop body;
    `&mut line_levels[i..i + T::char_len(c)]` is a range check and a write of each of its units -/
def l1ClassC (enc : Enc) (st : L1State) (s : Seg) (c : BidiClass) : Chk L1State :=
  let i := s.start
  match c with
  | B | S =>
    pure { st with err := orErr st.err (if st.resetTo.isNone then none else some .resetToAssert)
                   resetTo := some (i + enc.charLen s.cp)
                   resetFrom := if st.resetFrom.isNone then some i else st.resetFrom }
  | WS | FSI | LRI | RLI | PDI =>
    pure { st with resetFrom := if st.resetFrom.isNone then some i else st.resetFrom }
  | RLE | LRE | RLO | LRO | PDF | BN => do
    let lv ← wrRange st.levels i (enc.charLen s.cp) st.prev
    pure { st with resetFrom := if st.resetFrom.isNone then some i else st.resetFrom
                   levels := lv }
  | _ => pure { st with resetFrom := none }

/-- `if let (Some(from), Some(to)) = (reset_from, reset_to) { for level in &mut line_levels[from..to] … }`:
    the range bounds `from ≤ to ≤ len`, then every write -/
def l1ResetC (paraLevel : Nat) (st : L1State) : Chk L1State :=
  match st.resetFrom, st.resetTo with
  | some a, some b => do
    slc st.levels.length a b
    let lv ← wrRangeLoop a paraLevel st.levels (b - a)
    pure { st with levels := lv, resetFrom := none, resetTo := none }
  | _, _ => pure st

/-- One iteration of `for (i, c) in line_text.char_indices()` of `reorder_levels`:
    `line_classes[i]`, the two range writes, `prev_level = line_levels[i]`. -/
def l1StepC (enc : Enc) (lineClasses : Classes) (paraLevel : Nat) (st : L1State) (s : Seg) : Chk L1State := do
  let c ← rd lineClasses s.start ON
  let st ← l1ClassC enc st s c
  let st ← l1ResetC paraLevel st
  let p ← rd st.levels s.start 0
  pure { st with prev := p }

/-- `reorder_levels(line_classes, line_levels, line_text, para_level)`; the final
    `&mut line_levels[from..]` -/
def reorderLevelsC (lineClasses : Classes) (lineLevels : List Nat) (lineText : Text) (paraLevel : Nat) :
    Chk (List Nat × Option Panic) := do
  let st ← foldlC (l1StepC lineText.enc lineClasses paraLevel)
              { levels := lineLevels, prev := paraLevel } lineText.segs
  match st.resetFrom with
  | some a => do
    slc st.levels.length a st.levels.length
    let lv ← wrRangeLoop a paraLevel st.levels (st.levels.length - a)
    pure (lv, st.err)
  | none => pure (st.levels, st.err)

/-- `BidiInfo::reordered_levels(para, line)` / `ParagraphBidiInfo::reordered_levels(line)`:
    the two asserts and the range / boundary conditions are the Model's explicit panic sites; then
    `&self.original_classes[line.clone()]`, `&mut levels[line.clone()]`, `self.text.subrange(line)`; the
    result is the vector with the line written back in place (before the line, the line, after it). -/
def reorderedLevelsC (t : Text) (classes : Classes) (levels : List Nat) (paraLevel : Nat)
    (a b : Nat) : Chk (List Nat × Option Panic) :=
  if a > levels.length || b > levels.length then pure (levels, some .lineOutOfRange)
  else if a > b || b > classes.length then pure (levels, some .indexOutOfBounds)
  else if t.enc == .utf8 && !(t.isBoundary a && t.isBoundary b) then pure (levels, some .sliceBoundary)
  else do
    let lc ← sliceC classes a b
    let ll ← sliceC levels a b
    slc t.len a b
    let r ← reorderLevelsC lc ll (t.subrange a b) paraLevel
    let pre ← takeC levels a
    let post ← dropC levels b
    pure (pre ++ r.1 ++ post, r.2)

/-- `reordered_levels_per_char`: `self.text.char_indices().map(|(i, _)| levels[i]).collect()` -/
def reorderedLevelsPerCharC (t : Text) (classes : Classes) (levels : List Nat) (paraLevel : Nat)
    (a b : Nat) : Chk (List Nat × Option Panic) := do
  let r ← reorderedLevelsC t classes levels paraLevel a b
  let lv ← mapC (fun (s : Seg) => rd r.1 s.start 0) t.segs
  pure (lv, r.2)

/-! ### lib.rs `visual_runs_for_line` / deprecated.rs `visual_runs` (rule L2 on level runs) -/

/-- `xs[x..y].reverse()` in place: the range bounds `x ≤ y ≤ len`; the result is the part before, the
    reversed range, the part after -/
def revRangeC {α : Type} (xs : List α) (x y : Nat) : Chk (List α) := do
  let pre ← takeC xs x
  let mid ← sliceC xs x y
  let post ← dropC xs y
  pure (pre ++ mid.reverse ++ post)

/-- `while seq_end < run_count { if levels[runs[seq_end].start] < max_level { break; } seq_end += 1; }`
    (`fuel` bounds the iterations) -/
def seqEndC (levels : List Nat) (runs : List (Nat × Nat)) (maxL : Nat) : Nat → Nat → Chk Nat
  | 0, e => pure e
  | fuel + 1, e =>
    if e < runs.length then do
      let r ← rd runs e (0, 0)
      let l ← rd levels r.1 0
      if l < maxL then pure e else seqEndC levels runs maxL fuel (e + 1)
    else pure e

/-- `while seq_start < run_count { … }` for one value of `max_level`: `levels[runs[seq_start].start]`,
    the inner loop, `runs[seq_start..seq_end].reverse()`, `seq_start = seq_end`
    (`fuel` bounds the iterations) -/
def l2PassC (levels : List Nat) (maxL : Nat) : Nat → Nat → List (Nat × Nat) → Chk (List (Nat × Nat))
  | 0, _, runs => pure runs
  | fuel + 1, s, runs =>
    if s < runs.length then do
      let r ← rd runs s (0, 0)
      let l ← rd levels r.1 0
      if l < maxL then l2PassC levels maxL fuel (s + 1) runs
      else do
        let e ← seqEndC levels runs maxL runs.length (s + 1)
        let runs ← revRangeC runs s e
        l2PassC levels maxL fuel e runs
    else pure runs

/-- the `while max_level >= min_level` loop; `fuel` bounds the iterations -/
def l2RunsLoopC (levels : List Nat) (minL : Nat) :
    Nat → Nat → List (Nat × Nat) → Chk (List (Nat × Nat) × Option Panic)
  | 0, _, runs => pure (runs, none)
  | fuel + 1, maxL, runs =>
    if maxL ≥ minL then do
      let runs ← l2PassC levels maxL (runs.length + 1) 0 runs
      match Level.lower maxL 1 with
      | some m => l2RunsLoopC levels minL fuel m runs
      | none => pure (runs, some .lowerUnderflow)
    else pure (runs, none)

/-- `visual_runs_for_line(levels, line)` and `deprecated::visual_runs(line, levels)`: `levels[start]`
    (the Model's explicit site `emptyLine`; the flag is raised as well), the run detection over the
    iterator `levels.iter().enumerate().take(line.end).skip(start + 1)`, the L2 loop -/
def visualRunsForLineC (levels : List Nat) (a b : Nat) : Chk (List (Nat × Nat) × Option Panic) := do
  let l0? ← rdOpt levels a
  match l0? with
  | none => pure ([], some .emptyLine)
  | some l0 =>
    let runs := findRuns a l0 (a + 1) b (iterRange levels (a + 1) b)
    let lv := iterRange levels a b
    let minL := lv.foldl min l0
    let maxL := lv.foldl max l0
    match Level.newLowestGeRtl minL with
    | none => pure (runs, none)
    | some minOdd => l2RunsLoopC levels minOdd (maxL + 1) maxL runs

/-! ### lib.rs `reorder_visual` (rule L2 on an index map) -/

/-- `while let Some(l) = levels.get(start_index) { if *l >= max { break; } start_index += 1; }` -/
def skipBelowC (levels : List Nat) (maxL : Nat) : Nat → Nat → Nat
  | 0, i => i
  | fuel + 1, i =>
    match getOpt levels i with
    | some l => if l ≥ maxL then i else skipBelowC levels maxL fuel (i + 1)
    | none => i

/-- `while let Some(l) = levels.get(end_index) { if *l < max { return …; } end_index += 1; }` -/
def skipAtLeastC (levels : List Nat) (maxL : Nat) : Nat → Nat → Nat
  | 0, i => i
  | fuel + 1, i =>
    match getOpt levels i with
    | some l => if l < maxL then i else skipAtLeastC levels maxL fuel (i + 1)
    | none => i

/-- `next_range(levels, start_index, max)`: only `levels.get(…)`, `is_empty()`, `len()` — no index
    expression, hence a plain function -/
def nextRangeC (levels : List Nat) (startIndex maxL : Nat) : Nat × Nat :=
  if levels.isEmpty || startIndex ≥ levels.length then (startIndex, startIndex)
  else
    let s := skipBelowC levels maxL levels.length startIndex
    if (getOpt levels s).isNone then (s, s)
    else (s, skipAtLeastC levels maxL levels.length (s + 1))

/-- the inner `loop` for one value of `max`: `result[range.clone()].reverse()` -/
def rvPassC (levels : List Nat) (maxL : Nat) : Nat → Nat → List Nat → Chk (List Nat)
  | 0, _, result => pure result
  | fuel + 1, pos, result => do
    let r := nextRangeC levels pos maxL
    let result ← revRangeC result r.1 r.2
    if r.2 ≥ levels.length then pure result else rvPassC levels maxL fuel r.2 result

def rvLoopC (levels : List Nat) (minL : Nat) : Nat → Nat → List Nat → Chk (List Nat × Option Panic)
  | 0, _, result => pure (result, none)
  | fuel + 1, maxL, result =>
    if minL ≤ maxL then do
      let result ← rvPassC levels maxL (levels.length + 1) 0 result
      match Level.lower maxL 1 with
      | some m => rvLoopC levels minL fuel m result
      | none => pure (result, some .lowerUnderflow)
    else pure (result, none)

/-- `reorder_visual(levels)`: `levels[0]` after the `is_empty()` test -/
def reorderVisualC (levels : List Nat) : Chk (List Nat × Option Panic) :=
  if levels.isEmpty then pure ([], none)
  else do
    let l0 ← rd levels 0 0
    let minL := levels.foldl min l0
    let maxL := levels.foldl max l0
    let result := List.range levels.length
    if minL == maxL && Level.isLtr minL then pure (result, none)
    else match Level.newLowestGeRtl minL with
      | none => pure (result, some .lowestGeRtl)
      | some minOdd => rvLoopC levels minOdd (maxL + 1) maxL result

/-! ### lib.rs `reorder_line` -/

/-- `runs.iter().all(|run| levels[run.start].is_ltr())` — lazy: reads up to the first odd level -/
def allLtrC (levels : List Nat) : List (Nat × Nat) → Chk Bool
  | [] => pure true
  | r :: rs => do
    let l ← rd levels r.1 0
    if Level.isLtr l then allLtrC levels rs else pure false

/-- one run of the `for run in runs` loop: `levels[run.start]`, `text[run]` (the range bounds; the
    character-boundary condition of a `str` is the Model's explicit site) -/
def pieceC (t : Text) (levels : List Nat) (r : Nat × Nat) : Chk Piece := do
  let l ← rd levels r.1 0
  slc t.len r.1 r.2
  let segs := t.segs.filter (fun s => r.1 ≤ s.start && s.start < r.2)
  pure (if Level.isRtl l then { verbatim := false, segs := segs.reverse } else { verbatim := true, segs := segs })

/-- the free function `reorder_line(text, line, levels, runs)`; `text[line]` on the early return -/
def reorderLinePiecesC (t : Text) (a b : Nat) (levels : List Nat) (runs : List (Nat × Nat)) :
    Chk (Option (List Piece) × Option Panic) := do
  let all ← allLtrC levels runs
  if all then do
    slc t.len a b
    pure (none, none)
  else do
    let bad := runs.any (fun r => !(t.isBoundary r.1 && t.isBoundary r.2))
    let pieces ← mapC (pieceC t levels) runs
    pure (some pieces, if bad && t.enc == .utf8 then some .sliceBoundary else none)

/-- `BidiInfo::reorder_line(para, line)` / `ParagraphBidiInfo::reorder_line(line)`:
    `&self.levels[line.clone()]`, `self.text[line]`, then `visual_runs` and the free function -/
def reorderLineC (t : Text) (classes : Classes) (levels : List Nat) (paraLevel : Nat) (a b : Nat) :
    Chk (Option (List Piece) × Option Panic) :=
  if a > b || b > levels.length then pure (none, some .indexOutOfBounds)
  else do
    let ll ← sliceC levels a b
    if !Level.hasRtl ll && Level.isLtr paraLevel then do
      slc t.len a b
      pure (none, if t.enc == .utf8 && !(t.isBoundary a && t.isBoundary b) then some .sliceBoundary else none)
    else do
      let r ← reorderedLevelsC t classes levels paraLevel a b
      match r.2 with
      | some e => pure (none, some e)
      | none => do
        let v ← visualRunsForLineC r.1 a b
        match v.2 with
        | some e => pure (none, some e)
        | none => reorderLinePiecesC t a b r.1 v.1

/-! ### the summary queries -/

/-- `para_direction(levels)`: a `for` over the levels, no index -/
def paraDirectionC (levels : List Nat) : Chk Direction := pure (paraDirectionLoop false false levels)

/-- `Paragraph::direction`: `para_direction(&self.info.levels[self.para.range.clone()])` -/
def paragraphDirectionC (levels : List Nat) (p : ParaInfo) : Chk Direction := do
  let lv ← sliceC levels p.start p.stop
  paraDirectionC lv

/-- `Paragraph::level_at(pos)`: `self.info.levels[self.para.range.start + pos]` (the Model returns the
    `Option`; out of range the flag is raised) -/
def levelAtC (levels : List Nat) (p : ParaInfo) (pos : Nat) : Chk (Option Nat) := rdOpt levels (p.start + pos)

end UBidi.Checked
