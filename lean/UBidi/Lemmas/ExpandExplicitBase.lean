/-
  UBidi.Lemmas.ExpandExplicitBase — list layer of the Expand lemma family:
  `ex ls xs` repeats the k-th entry of `xs` `ls[k]` times, `ps ls k` is the position
  of the k-th block.  `take / drop / slice / getD / find? / findIdx? / rposition / reverse`
  on `ex ls xs`, then the link to `Expand.expand / pos / contract` of a well-formed text.
-/
import UBidi.Lemmas.ExpandDefs
namespace UBidi.Expand
open UBidi

/-- the k-th entry of `xs` repeated `ls[k]` times -/
def ex {α} (ls : List Nat) (xs : List α) : List α :=
  (ls.zip xs).flatMap (fun p => List.replicate p.1 p.2)

/-- start of the k-th block -/
def ps (ls : List Nat) (k : Nat) : Nat := (ls.take k).sum

/-- all block lengths positive -/
def AllPos (ls : List Nat) : Prop := ∀ l ∈ ls, 0 < l

section ex
variable {α : Type}

@[simp] theorem ex_nil_left (xs : List α) : ex [] xs = [] := by simp [ex]
@[simp] theorem ex_nil_right (ls : List Nat) : ex ls ([] : List α) = [] := by simp [ex]
@[simp] theorem ex_cons (l : Nat) (ls : List Nat) (x : α) (xs : List α) :
    ex (l :: ls) (x :: xs) = List.replicate l x ++ ex ls xs := by simp [ex]

@[simp] theorem ps_zero (ls : List Nat) : ps ls 0 = 0 := by simp [ps]
@[simp] theorem ps_nil (k : Nat) : ps [] k = 0 := by simp [ps]
@[simp] theorem ps_cons_succ (l : Nat) (ls : List Nat) (k : Nat) : ps (l :: ls) (k + 1) = l + ps ls k := by
  simp [ps]

theorem AllPos.tail {l : Nat} {ls : List Nat} (h : AllPos (l :: ls)) : AllPos ls :=
  fun x hx => h x (by simp [hx])
theorem AllPos.head {l : Nat} {ls : List Nat} (h : AllPos (l :: ls)) : 0 < l := h l (by simp)

theorem ps_add (ls : List Nat) (a j : Nat) : ps ls (a + j) = ps ls a + ps (ls.drop a) j := by
  unfold ps; rw [List.take_add, List.sum_append]

theorem ps_succ (ls : List Nat) (k : Nat) (h : k < ls.length) : ps ls (k + 1) = ps ls k + ls[k] := by
  unfold ps; rw [List.take_succ_eq_append_getElem h, List.sum_append]; simp

theorem ps_of_length_le (ls : List Nat) (k : Nat) (h : ls.length ≤ k) : ps ls k = ls.sum := by
  simp [ps, List.take_of_length_le h]

theorem ps_le_sum (ls : List Nat) (k : Nat) : ps ls k ≤ ls.sum := by
  have := List.take_append_drop k ls
  have h2 : ls.sum = (ls.take k).sum + (ls.drop k).sum := by rw [← List.sum_append, this]
  unfold ps; omega

theorem ps_mono (ls : List Nat) {a b : Nat} (h : a ≤ b) : ps ls a ≤ ps ls b := by
  obtain ⟨j, rfl⟩ := Nat.exists_eq_add_of_le h
  rw [ps_add]; omega

theorem ps_lt (ls : List Nat) (hp : AllPos ls) {a b : Nat} (h : a < b) (hb : b ≤ ls.length) :
    ps ls a < ps ls b := by
  have h1 : ps ls (a + 1) ≤ ps ls b := ps_mono ls h
  have ha : a < ls.length := by omega
  rw [ps_succ ls a ha] at h1
  have := hp ls[a] (List.getElem_mem ha)
  omega

theorem ps_lt_iff (ls : List Nat) (hp : AllPos ls) {a b : Nat} (hb : b ≤ ls.length) :
    ps ls a < ps ls b ↔ a < b := by
  constructor
  · intro h
    by_cases hab : a < b
    · exact hab
    · have := ps_mono ls (Nat.le_of_not_lt hab); omega
  · intro h; exact ps_lt ls hp h hb

theorem ps_eq_zero_iff (ls : List Nat) (hp : AllPos ls) {k : Nat} (hk : k ≤ ls.length) :
    ps ls k = 0 ↔ k = 0 := by
  constructor
  · intro h
    by_cases h0 : k = 0
    · exact h0
    · have := ps_lt ls hp (a := 0) (b := k) (by omega) hk
      simp at this; omega
  · rintro rfl; simp

theorem ex_length (ls : List Nat) (xs : List α) (h : xs.length = ls.length) : (ex ls xs).length = ls.sum := by
  induction ls generalizing xs with
  | nil => simp
  | cons l ls ih =>
    cases xs with
    | nil => simp at h
    | cons x xs => simp [ih xs (by simpa using h)]

theorem ex_length_ps (ls : List Nat) (xs : List α) (h : xs.length = ls.length) :
    (ex ls xs).length = ps ls ls.length := by
  rw [ex_length ls xs h, ps_of_length_le ls _ (Nat.le_refl _)]

theorem ex_append (ls ls' : List Nat) (xs xs' : List α) (h : ls.length = xs.length) :
    ex (ls ++ ls') (xs ++ xs') = ex ls xs ++ ex ls' xs' := by
  simp [ex, List.zip_append h]

theorem ex_take (ls : List Nat) (xs : List α) (k : Nat) :
    (ex ls xs).take (ps ls k) = ex (ls.take k) (xs.take k) := by
  induction ls generalizing xs k with
  | nil => simp
  | cons l ls ih =>
    cases xs with
    | nil => simp
    | cons x xs =>
      cases k with
      | zero => simp
      | succ k =>
        simp only [ps_cons_succ, ex_cons, List.take_succ_cons, List.take_append, List.length_replicate]
        rw [List.take_of_length_le (by simp), show l + ps ls k - l = ps ls k by omega, ih]

theorem ex_drop (ls : List Nat) (xs : List α) (k : Nat) :
    (ex ls xs).drop (ps ls k) = ex (ls.drop k) (xs.drop k) := by
  induction ls generalizing xs k with
  | nil => simp
  | cons l ls ih =>
    cases xs with
    | nil => simp
    | cons x xs =>
      cases k with
      | zero => simp
      | succ k =>
        simp only [ps_cons_succ, ex_cons, List.drop_succ_cons, List.drop_append, List.length_replicate]
        rw [List.drop_of_length_le (by simp), show l + ps ls k - l = ps ls k by omega, ih]
        simp

theorem ex_slice (ls : List Nat) (xs : List α) (a b : Nat) (h : a ≤ b) :
    slice (ex ls xs) (ps ls a) (ps ls b) = ex (slice ls a b) (slice xs a b) := by
  obtain ⟨j, rfl⟩ := Nat.exists_eq_add_of_le h
  unfold slice
  rw [ex_drop, ps_add, show ps ls a + ps (ls.drop a) j - ps ls a = ps (ls.drop a) j by omega, ex_take]
  simp

/-- every unit of block `k` carries `xs[k]` -/
theorem ex_getElem? (ls : List Nat) (xs : List α) (k j : Nat) (hk : k < ls.length) (hj : j < ls[k]) :
    (ex ls xs)[ps ls k + j]? = xs[k]? := by
  induction ls generalizing xs k with
  | nil => simp at hk
  | cons l ls ih =>
    cases xs with
    | nil => simp
    | cons x xs =>
      cases k with
      | zero =>
        simp only [List.getElem_cons_zero] at hj
        simp [List.getElem?_append_left, hj]
      | succ k =>
        simp only [List.getElem_cons_succ] at hj
        simp only [ps_cons_succ, ex_cons, List.getElem?_cons_succ]
        rw [List.getElem?_append_right (by simp; omega)]
        simp only [List.length_replicate]
        rw [show l + ps ls k + j - l = ps ls k + j by omega]
        exact ih xs k (by simpa using hk) hj

theorem ex_getD (ls : List Nat) (hp : AllPos ls) (xs : List α) (hl : xs.length = ls.length) (k : Nat) (d : α) :
    (ex ls xs).getD (ps ls k) d = xs.getD k d := by
  by_cases hk : k < ls.length
  · have := ex_getElem? ls xs k 0 hk (hp _ (List.getElem_mem hk))
    simp only [Nat.add_zero] at this
    simp [List.getD_eq_getElem?_getD, this]
  · have h1 : ps ls k = (ex ls xs).length := by
      rw [ex_length ls xs hl, ps_of_length_le ls k (by omega)]
    rw [List.getD_eq_getElem?_getD, List.getD_eq_getElem?_getD, List.getElem?_eq_none (by omega),
      List.getElem?_eq_none (by omega)]

/-- the last unit of block `k` -/
theorem ex_getD_last (ls : List Nat) (hp : AllPos ls) (xs : List α) (k : Nat) (hk : k < ls.length) (d : α) :
    (ex ls xs).getD (ps ls (k + 1) - 1) d = xs.getD k d := by
  have h0 := hp _ (List.getElem_mem hk)
  have := ex_getElem? ls xs k (ls[k] - 1) hk (by omega)
  rw [ps_succ ls k hk, show ps ls k + ls[k] - 1 = ps ls k + (ls[k] - 1) by omega]
  simp [List.getD_eq_getElem?_getD, this]

theorem ex_findIdx? (ls : List Nat) (hp : AllPos ls) (xs : List α) (hl : xs.length = ls.length) (p : α → Bool) :
    (ex ls xs).findIdx? p = (xs.findIdx? p).map (ps ls) := by
  induction ls generalizing xs with
  | nil => cases xs with
    | nil => simp
    | cons x xs => simp at hl
  | cons l ls ih =>
    cases xs with
    | nil => simp at hl
    | cons x xs =>
      have h0 := hp.head
      have ih' := ih hp.tail xs (by simpa using hl)
      simp only [ex_cons, List.findIdx?_append, List.findIdx?_replicate, List.length_replicate,
        List.findIdx?_cons, ih']
      by_cases hx : p x = true
      · simp [hx, h0]
      · cases xs.findIdx? p with
        | none => simp [hx]
        | some i => simp [hx, Nat.add_comm]

theorem ex_find? (ls : List Nat) (hp : AllPos ls) (xs : List α) (hl : xs.length = ls.length) (p : α → Bool) :
    (ex ls xs).find? p = xs.find? p := by
  induction ls generalizing xs with
  | nil => cases xs with
    | nil => simp
    | cons x xs => simp at hl
  | cons l ls ih =>
    cases xs with
    | nil => simp at hl
    | cons x xs =>
      have h0 := hp.head
      have ih' := ih hp.tail xs (by simpa using hl)
      simp only [ex_cons, List.find?_append, List.find?_replicate, List.find?_cons, ih']
      have : l ≠ 0 := by omega
      by_cases hx : p x = true
      · simp [hx, this]
      · simp [hx]

theorem ex_reverse (ls : List Nat) (xs : List α) (hl : xs.length = ls.length) :
    (ex ls xs).reverse = ex ls.reverse xs.reverse := by
  induction ls generalizing xs with
  | nil => simp
  | cons l ls ih =>
    cases xs with
    | nil => simp
    | cons x xs =>
      have hl' : xs.length = ls.length := by simpa using hl
      simp only [ex_cons, List.reverse_append, List.reverse_replicate, List.reverse_cons, ih xs hl']
      rw [ex_append _ _ _ _ (by simp [hl'])]
      simp

theorem ps_reverse (ls : List Nat) (k : Nat) :
    ps ls.reverse k + ps ls (ls.length - k) = ls.sum := by
  unfold ps
  rw [List.take_reverse, List.sum_reverse]
  have := List.take_append_drop (ls.length - k) ls
  have h2 : ls.sum = (ls.take (ls.length - k)).sum + (ls.drop (ls.length - k)).sum := by
    rw [← List.sum_append, this]
  omega

theorem rposition_lt {p : α → Bool} {xs : List α} {k : Nat} (h : rposition p xs = some k) : k < xs.length := by
  unfold rposition at h
  cases h' : xs.reverse.findIdx? p with
  | none => simp [h'] at h
  | some j =>
    obtain ⟨hk, _⟩ := List.findIdx?_eq_some_iff_getElem.1 h'
    simp [h'] at h
    simp at hk
    omega

theorem findIdx?_lt {p : α → Bool} {xs : List α} {k : Nat} (h : xs.findIdx? p = some k) : k < xs.length := by
  obtain ⟨hk, _⟩ := List.findIdx?_eq_some_iff_getElem.1 h
  exact hk

/-- the last unit satisfying `p` is the last unit of the last character satisfying `p` -/
theorem ex_rposition (ls : List Nat) (hp : AllPos ls) (xs : List α) (hl : xs.length = ls.length) (p : α → Bool) :
    rposition p (ex ls xs) = (rposition p xs).map (fun k => ps ls (k + 1) - 1) := by
  unfold rposition
  have hp' : AllPos ls.reverse := fun l hl => hp l (by simpa using hl)
  rw [ex_reverse ls xs hl, ex_findIdx? ls.reverse hp' xs.reverse (by simp [hl]) p]
  cases h : xs.reverse.findIdx? p with
  | none => simp
  | some k =>
    have hk : k < xs.length := by simpa using findIdx?_lt h
    simp only [Option.map_some, Option.some.injEq]
    have h1 := ps_reverse ls k
    rw [ex_length ls xs hl, hl, show ls.length - 1 - k + 1 = ls.length - k by omega]
    have h2 : ps ls.reverse k < ls.sum := by
      have := ps_lt ls.reverse hp' (a := k) (b := ls.length) (by omega) (by simp)
      rw [ps_of_length_le ls.reverse ls.length (by simp), List.sum_reverse] at this
      exact this
    omega

end ex

/-! ### a well-formed text as a list of block lengths -/

/-- the unit counts of the characters of `t` -/
def lens (t : Text) : List Nat := t.segs.map (·.len)

@[simp] theorem lens_length (t : Text) : (lens t).length = t.segs.length := by simp [lens]

theorem expand_eq_ex {α : Type} (t : Text) (xs : List α) : expand t xs = ex (lens t) xs := by
  unfold expand ex lens
  rw [List.zip_map_left, List.flatMap_map]
  rfl

theorem segsFrom_ps : ∀ (segs : List Seg) (p e : Nat), SegsFrom p segs e →
    AllPos (segs.map (·.len)) ∧ e = p + (segs.map (·.len)).sum ∧
    ∀ k (h : k < segs.length), segs[k].start = p + ps (segs.map (·.len)) k
  | [], p, e, h => by
    simp only [SegsFrom] at h
    subst h
    refine ⟨fun l hl => by simp at hl, by simp, fun k h => by simp at h⟩
  | s :: segs, p, e, h => by
    obtain ⟨h1, h2, h3⟩ := h
    obtain ⟨i1, i2, i3⟩ := segsFrom_ps segs _ e h3
    refine ⟨?_, ?_, ?_⟩
    · intro l hl
      simp only [List.map_cons, List.mem_cons] at hl
      rcases hl with rfl | hl
      · exact h2
      · exact i1 l hl
    · simp only [List.map_cons, List.sum_cons]; omega
    · intro k hk
      cases k with
      | zero => simp [h1]
      | succ k =>
        simp only [List.getElem_cons_succ, List.map_cons, ps_cons_succ]
        rw [i3 k (by simpa using hk)]; omega

theorem lens_pos (t : Text) (hwf : t.WF) : AllPos (lens t) := (segsFrom_ps _ _ _ hwf.tiles).1

theorem len_eq_sum (t : Text) (hwf : t.WF) : t.len = (lens t).sum := by
  have := (segsFrom_ps _ _ _ hwf.tiles).2.1
  simpa [lens] using this

theorem seg_start (t : Text) (hwf : t.WF) (k : Nat) (h : k < t.segs.length) :
    t.segs[k].start = ps (lens t) k := by
  have := (segsFrom_ps _ _ _ hwf.tiles).2.2 k h
  simpa [lens] using this

theorem seg_len (t : Text) (k : Nat) (h : k < t.segs.length) :
    t.segs[k].len = (lens t)[k]'(by simpa using h) := by simp [lens]

theorem pos_eq_ps (t : Text) (hwf : t.WF) (k : Nat) : pos t k = ps (lens t) k := by
  unfold pos
  by_cases h : k < t.segs.length
  · simp [List.getElem?_eq_getElem h, seg_start t hwf k h]
  · rw [List.getElem?_eq_none (by omega)]
    simp only [Option.map_none, Option.getD_none]
    rw [len_eq_sum t hwf, ps_of_length_le _ _ (by simp; omega)]

theorem len_eq_ps (t : Text) (hwf : t.WF) : t.len = ps (lens t) t.segs.length := by
  rw [len_eq_sum t hwf, ps_of_length_le _ _ (by simp)]

theorem mapRun_eq (t : Text) (hwf : t.WF) (r : Nat × Nat) :
    mapRun t r = (ps (lens t) r.1, ps (lens t) r.2) := by
  simp [mapRun, pos_eq_ps t hwf]

/-! ### the four basic lemmas -/

theorem segsFrom_zipIdx (segs : List Seg) (k : Nat) :
    SegsFrom k ((segs.zipIdx k).map (fun (p : Seg × Nat) => ({ start := p.2, cp := p.1.cp, len := 1 } : Seg)))
      (k + segs.length) := by
  induction segs generalizing k with
  | nil => simp [SegsFrom]
  | cons s ss ih =>
    simp only [List.zipIdx_cons, List.map_cons, SegsFrom, List.length_cons, true_and]
    refine ⟨by omega, ?_⟩
    have := ih (k + 1)
    rw [show k + 1 + ss.length = k + (ss.length + 1) by omega] at this
    exact this

/-- `unitize t` is a well-formed (`utf32`) text -/
theorem unitize_wf (t : Text) : (unitize t).WF := by
  constructor
  · have := segsFrom_zipIdx t.segs 0
    simpa [unitize] using this
  · intro s hs
    simp only [unitize, List.mem_map] at hs
    obtain ⟨p, _, rfl⟩ := hs
    rfl

@[simp] theorem unitize_segs_length (t : Text) : (unitize t).segs.length = t.segs.length := by
  simp [unitize]

@[simp] theorem unitize_len (t : Text) : (unitize t).len = t.segs.length := rfl

theorem unitize_getElem (t : Text) (k : Nat) (h : k < t.segs.length) :
    (unitize t).segs[k]'(by simpa using h) = { start := k, cp := t.segs[k].cp, len := 1 } := by
  simp [unitize]

@[simp] theorem contract_length {α : Type} (t : Text) (xs : List α) (d : α) :
    (contract t xs d).length = t.segs.length := by simp [contract]

theorem contract_getD {α : Type} (t : Text) (xs : List α) (d : α) (k : Nat) (h : k < t.segs.length) :
    (contract t xs d).getD k d = xs.getD t.segs[k].start d := by
  simp [contract, List.getD_eq_getElem?_getD, List.getElem?_eq_getElem h]

theorem expand_contract_aux {α : Type} (xs : List α) (d : α) : ∀ (segs : List Seg) (p e : Nat),
    SegsFrom p segs e → e ≤ xs.length →
    (∀ s ∈ segs, ∀ j, j < s.len → xs[s.start + j]? = xs[s.start]?) →
    ex (segs.map (·.len)) (segs.map (fun s => xs.getD s.start d)) = (xs.drop p).take (e - p)
  | [], p, e, h, _, _ => by
    simp only [SegsFrom] at h; subst h; simp
  | s :: segs, p, e, h, hle, hu => by
    obtain ⟨h1, h2, h3⟩ := h
    have ih := expand_contract_aux xs d segs _ e h3 hle (fun s' hs' => hu s' (by simp [hs']))
    have hb := (segsFrom_ps segs _ e h3).2.1
    simp only [List.map_cons, ex_cons, ih]
    have hsplit : e - p = s.len + (e - (p + s.len)) := by omega
    rw [hsplit, List.take_add, List.drop_drop]
    congr 1
    apply List.ext_getElem?
    intro i
    simp only [List.getElem?_replicate, List.getElem?_take, List.getElem?_drop]
    by_cases hi : i < s.len
    · have := hu s (by simp) i hi
      rw [h1] at this
      have hp : p < xs.length := by omega
      simp [hi, this, h1, List.getD_eq_getElem?_getD, List.getElem?_eq_getElem hp]
    · simp [hi]

theorem expand_contract {α : Type} (t : Text) (hwf : t.WF) (xs : List α) (d : α) (hlen : xs.length = t.len)
    (hu : UniformOn t xs) : expand t (contract t xs d) = xs := by
  rw [expand_eq_ex]
  have := expand_contract_aux xs d t.segs 0 t.len hwf.tiles (by omega) hu
  unfold contract lens
  rw [this]
  simp [← hlen]

theorem contract_expand {α : Type} (t : Text) (hwf : t.WF) (ys : List α) (d : α) (hlen : ys.length = t.segs.length) :
    contract t (expand t ys) d = ys := by
  apply List.ext_getElem?
  intro k
  by_cases hk : k < t.segs.length
  · have h1 := contract_getD t (expand t ys) d k hk
    rw [expand_eq_ex, seg_start t hwf k hk, ex_getD _ (lens_pos t hwf) ys (by simpa using hlen)] at h1
    have hk1 : k < (contract t (ex (lens t) ys) d).length := by simpa using hk
    have hk2 : k < ys.length := by omega
    rw [expand_eq_ex]
    simp only [List.getD_eq_getElem?_getD, List.getElem?_eq_getElem hk1, List.getElem?_eq_getElem hk2,
      Option.getD_some] at h1
    rw [List.getElem?_eq_getElem hk1, List.getElem?_eq_getElem hk2, h1]
  · rw [List.getElem?_eq_none (by simp; omega), List.getElem?_eq_none (by omega)]

theorem expand_uniform {α : Type} (t : Text) (hwf : t.WF) (ys : List α) (hlen : ys.length = t.segs.length) :
    UniformOn t (expand t ys) ∧ (expand t ys).length = t.len := by
  constructor
  · intro s hs j hj
    obtain ⟨k, hk, rfl⟩ := List.getElem_of_mem hs
    rw [expand_eq_ex, seg_start t hwf k hk]
    have hk' : k < (lens t).length := by simpa using hk
    have h0 : 0 < (lens t)[k] := lens_pos t hwf _ (List.getElem_mem hk')
    have hj' : j < (lens t)[k] := by rw [← seg_len t k hk]; exact hj
    have a := ex_getElem? (lens t) ys k j hk' hj'
    have b := ex_getElem? (lens t) ys k 0 hk' h0
    rw [a, ← b]; rfl
  · rw [expand_eq_ex, ex_length _ _ (by simpa using hlen), len_eq_sum t hwf]

/-! ### shapes of level-run lists (in character numbers) -/

/-- `runs` are non-empty, consecutive and tile `[p, e)` -/
def RunsTile : Nat → List (Nat × Nat) → Nat → Prop
  | p, [], e => p = e
  | p, r :: rs, e => r.1 = p ∧ r.1 < r.2 ∧ RunsTile r.2 rs e

/-- every run is non-empty and ends at or before `n` -/
def RunsIn (n : Nat) (runs : List (Nat × Nat)) : Prop := ∀ r ∈ runs, r.1 < r.2 ∧ r.2 ≤ n

theorem runsTile_snoc : ∀ (rs : List (Nat × Nat)) (p e e' : Nat), RunsTile p rs e → e < e' →
    RunsTile p (rs ++ [(e, e')]) e'
  | [], p, e, e', h, hlt => by
    simp only [RunsTile] at h; subst h; simp [RunsTile, hlt]
  | r :: rs, p, e, e', h, hlt => by
    obtain ⟨h1, h2, h3⟩ := h
    exact ⟨h1, h2, runsTile_snoc rs _ e e' h3 hlt⟩

theorem runsTile_bounds : ∀ (rs : List (Nat × Nat)) (p e : Nat), RunsTile p rs e →
    p ≤ e ∧ ∀ r ∈ rs, p ≤ r.1 ∧ r.1 < r.2 ∧ r.2 ≤ e
  | [], p, e, h => by simp only [RunsTile] at h; subst h; simp
  | r :: rs, p, e, h => by
    obtain ⟨h1, h2, h3⟩ := h
    have ih := runsTile_bounds rs _ e h3
    refine ⟨by omega, ?_⟩
    intro x hx
    rcases List.mem_cons.1 hx with rfl | hx
    · omega
    · have := ih.2 x hx; omega

theorem RunsTile.runsIn {rs : List (Nat × Nat)} {n : Nat} (h : RunsTile 0 rs n) : RunsIn n rs :=
  fun r hr => ((runsTile_bounds rs 0 n h).2 r hr).2

end UBidi.Expand
