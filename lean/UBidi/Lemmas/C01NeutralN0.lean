/-
  C01 stage lemma StageN, part 3: rule N0 for one bracket pair, and the whole of
  `resolveNeutral`, in the setting "one level run, every character one code unit long, no BN".

  * `scanEnclosed_spec`, `prevStrong_spec`, `setWhileNsm_spec`, `n0_writes` — the pieces of `n0Pair`;
  * `stageN0_pair_simple` — Layer 4: `n0Pair` = `Spec.n0One` for one pair;
  * `stageN0_fold_simple`, `stageN_simple` — the whole `resolveNeutral` = BD16, N0, N1/N2 of the Spec.
-/
import UBidi.Model.Implicit
import UBidi.Spec.UAX9
import UBidi.Lemmas.C01NeutralBD16
namespace UBidi.Lemmas.C01Neutral
open UBidi UBidi.BidiClass

theorem beq_iff (a b : BidiClass) : (a == b) = true ↔ a = b := by
  cases a <;> cases b <;> decide

instance instLawfulBEqBidiClassN : LawfulBEq BidiClass where
  eq_of_beq {a b} h := (beq_iff a b).1 h
  rfl {a} := (beq_iff a a).2 rfl

/-- the direction the Spec's N0 reads off a type, as a total function of the scan -/
def notEOf (e : BidiClass) : BidiClass := if e == L then R else L

/-- `scanEnclosed` over indices below `stop` followed by one at or beyond `stop` -/
theorem scanEnclosed_spec (pcs : Classes) (e : BidiClass) (he : e = L ∨ e = R) (stop : Nat)
    (y : Nat) (ys : List Nat) (hy : y ≥ stop) :
    ∀ (xs : List Nat) (fne : Bool), (∀ i ∈ xs, i < stop) →
      (scanEnclosed pcs e (notEOf e) stop (xs ++ y :: ys) fne).1 =
          ((xs.map (cget pcs)).filterMap Spec.strongOfN0).contains e ∧
      ((scanEnclosed pcs e (notEOf e) stop (xs ++ y :: ys) fne).1 = false →
        (scanEnclosed pcs e (notEOf e) stop (xs ++ y :: ys) fne).2 =
          (fne || ((xs.map (cget pcs)).filterMap Spec.strongOfN0).contains (notEOf e))) := by
  intro xs
  induction xs with
  | nil => intro fne _; simp [scanEnclosed, hy]
  | cons i xs ih =>
    intro fne hlt
    have hi : ¬ i ≥ stop := by have := hlt i (by simp); omega
    have ih' := fun f => ih f (fun j hj => hlt j (by simp [hj]))
    simp only [List.cons_append, scanEnclosed, hi, if_false, List.map_cons]
    generalize hS : List.filterMap Spec.strongOfN0 (List.map (cget pcs) xs) = S at ih' ⊢
    generalize hF : scanEnclosed pcs e (notEOf e) stop (xs ++ y :: ys) = F at ih' ⊢
    have h1 := ih' true
    have h2 := ih' fne
    rcases he with rfl | rfl <;> cases hc : cget pcs i <;>
      simp only [notEOf, Spec.strongOfN0, List.filterMap_cons, hS] at h1 h2 ⊢ <;>
      simp at h1 h2 ⊢ <;> cases hA : S.contains L <;> cases hB : S.contains R <;> simp_all


/-- the strong type before the opener: crate's `find` + EN/AN→R vs the Spec's `filterMap` -/
theorem prevStrong_spec (sos : BidiClass) (hs : sos = L ∨ sos = R) : ∀ (xs : List BidiClass),
    (let prev := (xs.find? (fun c => c == L || c == R || c == EN || c == AN)).getD sos
     if prev == EN || prev == AN then R else prev) =
      ((xs.filterMap Spec.strongOfN0).head?.getD sos)
  | [] => by rcases hs with rfl | rfl <;> rfl
  | c :: cs => by
    have ih := prevStrong_spec sos hs cs
    cases c <;> simp [Spec.strongOfN0] at ih ⊢ <;> exact ih

theorem strongHead_LR (sos : BidiClass) (hs : sos = L ∨ sos = R) (xs : List BidiClass) :
    ((xs.filterMap Spec.strongOfN0).head?.getD sos) = L ∨ ((xs.filterMap Spec.strongOfN0).head?.getD sos) = R := by
  induction xs with
  | nil => simpa using hs
  | cons c cs ih => cases c <;> simp [Spec.strongOfN0] at ih ⊢ <;> exact ih


/-- "no BN anywhere" in the form the loops test it -/
def NoBN (pcs : Classes) : Prop := ∀ i, cget pcs i ≠ BN

theorem noBN_of_forall {pcs : Classes} (h : ∀ c ∈ pcs, c ≠ BN) : NoBN pcs := by
  intro i
  unfold cget
  rw [List.getD_eq_getElem?_getD]
  cases hi : pcs[i]? with
  | none => simp
  | some c => simpa using h c (List.mem_of_getElem? hi)

theorem NoBN.set {pcs : Classes} (h : NoBN pcs) (i : Nat) {v : BidiClass} (hv : v ≠ BN) : NoBN (pcs.set i v) := by
  intro j; rw [cget_set]; split
  · exact hv
  · exact h j

theorem NoBN.mem {pcs : Classes} (h : NoBN pcs) : ∀ c ∈ pcs, c ≠ BN := by
  intro c hc
  obtain ⟨i, hi, rfl⟩ := List.getElem_of_mem hc
  have := h i
  simpa [cget, hi] using this

theorem setWhileBN_noBN {pcs : Classes} (h : NoBN pcs) (it : List Nat) (v : BidiClass) :
    setWhileBN pcs it v = pcs := by
  cases it with
  | nil => rfl
  | cons i it => simp [setWhileBN, h i]

theorem setRange_one {α} (xs : List α) (i : Nat) (v : α) : setRange xs i 1 v = xs.set i v := by
  simp [setRange]

/-- the crate's "following NSMs" loop is the Spec's `nsmAfter` when nothing is removed by X9 -/
theorem setWhileNsm_spec (ocs : Classes) (v : BidiClass) (hv : v ≠ BN) (n : Nat)
    (hocs : ∀ i < n, ¬ (cget ocs i).removedByX9 = true) :
    ∀ (fuel a : Nat) (xs : Classes), NoBN xs → xs.length = n → n ≤ a + fuel →
      setWhileNsmOrBN ocs xs (List.range' a (n - a)) v =
        Spec.n0One.nsmAfter (ocs.map (· == NSM)) v fuel a xs := by
  intro fuel
  induction fuel with
  | zero =>
    intro a xs _ _ hle
    have : n - a = 0 := by omega
    simp [this, setWhileNsmOrBN, Spec.n0One.nsmAfter]
  | succ fuel ih =>
    intro a xs hbn hlen hle
    have hcond : (ocs.map (· == NSM)).getD a false = (cget ocs a == NSM) := by
      unfold cget
      simp only [List.getD_eq_getElem?_getD, List.getElem?_map]
      cases ocs[a]? <;> simp
    simp only [Spec.n0One.nsmAfter, hcond]
    by_cases han : a < n
    · have hr : n - a = (n - (a + 1)) + 1 := by omega
      rw [hr, List.range'_succ]
      simp only [setWhileNsmOrBN]
      split
      · exact ih (a + 1) (xs.set a v) (hbn.set a hv) (by simpa using hlen) (by omega)
      · rw [if_neg (hocs a han)]
    · have hr : n - a = 0 := by omega
      rw [hr]
      simp only [List.range'_zero, setWhileNsmOrBN]
      have hset : xs.set a v = xs := by
        apply List.ext_getElem
        · simp
        · intro k h1 h2
          rw [List.getElem_set]
          split
          · omega
          · rfl
      split
      · rw [hset, ← ih (a + 1) xs hbn hlen (by omega)]
        have : n - (a + 1) = 0 := by omega
        simp [this, setWhileNsmOrBN]
      · rfl


/-! ### the text side -/

theorem charAt_unit (t : Text) (hwf : t.WF) (h1 : ∀ s ∈ t.segs, s.len = 1) (i : Nat) (hi : i < t.len) :
    ∃ s, t.charAt i = some s ∧ t.enc.charLen s.cp = 1 := by
  obtain ⟨hst, hlen⟩ := segs_unit_starts t.segs 0 t.len hwf.tiles h1
  have hmem : i ∈ t.segs.map (·.start) := by rw [hst, List.mem_range'_1]; omega
  obtain ⟨s0, hs0, hs0i⟩ := List.mem_map.1 hmem
  cases hf : t.charAt i with
  | none =>
    unfold Text.charAt at hf
    rw [List.find?_eq_none] at hf
    exact absurd (hf s0 hs0) (by simp [hs0i])
  | some s =>
    have hs : s ∈ t.segs := List.mem_of_find?_eq_some hf
    exact ⟨s, rfl, by rw [← hwf.lens s hs]; exact h1 s hs⟩

theorem iterFwd_single (n pos : Nat) (sos eos : BidiClass) :
    ({ runs := [(0, n)], sos := sos, eos := eos } : IRSeq).iterForwardsFrom pos 0 = List.range' pos (n - pos) := by
  simp [IRSeq.iterForwardsFrom]

theorem iterBwd_single (n pos : Nat) (sos eos : BidiClass) :
    ({ runs := [(0, n)], sos := sos, eos := eos } : IRSeq).iterBackwardsFrom pos 0 = (List.range' 0 pos).reverse := by
  simp [IRSeq.iterBackwardsFrom]

theorem range_split (o c n : Nat) (h1 : o < c) (h2 : c < n) :
    List.range' (o + 1) (n - (o + 1)) = List.range' (o + 1) (c - (o + 1)) ++ c :: List.range' (c + 1) (n - (c + 1)) := by
  have : c :: List.range' (c + 1) (n - (c + 1)) = List.range' c (n - c) := by
    have : n - c = (n - (c + 1)) + 1 := by omega
    rw [this, List.range'_succ]
  rw [this]
  have h3 : c = (o + 1) + (c - (o + 1)) := by omega
  conv => rhs; rhs; rw [h3]
  rw [List.range'_append_1]
  congr 1; omega

theorem map_cget_inside (pcs : Classes) (o c : Nat) (hc : c ≤ pcs.length) :
    (List.range' (o + 1) (c - (o + 1))).map (cget pcs) = (pcs.take c).drop (o + 1) := by
  apply List.ext_getElem
  · simp; omega
  · intro k h1 h2
    simp at h1
    simp [cget]
    rw [List.getElem?_eq_getElem (by omega)]; simp

theorem map_cget_before (pcs : Classes) (o : Nat) (ho : o ≤ pcs.length) :
    (List.range' 0 o).map (cget pcs) = pcs.take o := by
  apply List.ext_getElem
  · simp; omega
  · intro k h1 h2
    simp at h1
    simp [cget]
    rw [List.getElem?_eq_getElem (by omega)]; simp


theorem nsmAfter_props (M : List Bool) (v : BidiClass) (hv : v ≠ BN) :
    ∀ (fuel a : Nat) (xs : Classes), NoBN xs →
      (Spec.n0One.nsmAfter M v fuel a xs).length = xs.length ∧ NoBN (Spec.n0One.nsmAfter M v fuel a xs) := by
  intro fuel
  induction fuel with
  | zero => intro a xs h; exact ⟨rfl, h⟩
  | succ fuel ih =>
    intro a xs h
    simp only [Spec.n0One.nsmAfter]
    split
    · have := ih (a + 1) (xs.set a v) (h.set a hv)
      exact ⟨by rw [this.1]; simp, this.2⟩
    · exact ⟨rfl, h⟩

/-- the five writes of `n0Pair` are the Spec's two writes and two NSM sweeps -/
theorem n0_writes (ocs pcs : Classes) (hnb : NoBN pcs) (n : Nat) (hpl : pcs.length = n)
    (hocs : ∀ i < n, ¬ (cget ocs i).removedByX9 = true) (o c : Nat)
    (it : List Nat) (v : BidiClass) (hv : v ≠ BN) :
    setWhileNsmOrBN ocs
        (setWhileNsmOrBN ocs (setWhileBN (setRange (setRange pcs o 1 v) c 1 v) it v)
          (List.range' (o + 1) (n - (o + 1))) v)
        (List.range' (c + 1) (n - (c + 1))) v =
      Spec.n0One.nsmAfter (ocs.map (· == NSM)) v
        (Spec.n0One.nsmAfter (ocs.map (· == NSM)) v ((pcs.set o v).set c v).length (o + 1)
            ((pcs.set o v).set c v)).length
        (c + 1)
        (Spec.n0One.nsmAfter (ocs.map (· == NSM)) v ((pcs.set o v).set c v).length (o + 1)
          ((pcs.set o v).set c v)) := by
  have hX : NoBN ((pcs.set o v).set c v) := (hnb.set o hv).set c hv
  have hXl : ((pcs.set o v).set c v).length = n := by simpa using hpl
  rw [setRange_one, setRange_one, setWhileBN_noBN hX]
  rw [setWhileNsm_spec ocs v hv n hocs n (o + 1) _ hX hXl (by omega)]
  have hY := nsmAfter_props (ocs.map (· == NSM)) v hv n (o + 1) _ hX
  rw [setWhileNsm_spec ocs v hv n hocs n (c + 1) _ hY.2 (by rw [hY.1, hXl]) (by omega)]
  rw [hXl, hY.1, hXl]

theorem stageN0_pair_simple (t : Text) (hwf : t.WF) (h1 : ∀ s ∈ t.segs, s.len = 1)
    (n : Nat) (hn : t.len = n) (sos eos e : BidiClass) (hs : sos = L ∨ sos = R) (he : e = L ∨ e = R)
    (ocs pcs : Classes) (hpl : pcs.length = n) (hbn : ∀ c ∈ pcs, c ≠ BN)
    (hocs : ∀ i < n, ¬ (cget ocs i).removedByX9 = true)
    (pair : BracketPair) (hlt : pair.start < pair.stop) (hstop : pair.stop < n)
    (hsr : pair.startRun = 0) (her : pair.endRun = 0) :
    n0Pair t { runs := [(0, n)], sos := sos, eos := eos } e ocs (pcs, none) pair =
      (Spec.n0One sos e (ocs.map (· == NSM)) pcs (pair.start, pair.stop), none) := by
  obtain ⟨o, c, sr, er⟩ := pair
  simp only at hlt hstop hsr her
  subst hsr her
  obtain ⟨sseg, hcs, hls⟩ := charAt_unit t hwf h1 o (by omega)
  obtain ⟨eseg, hce, hle⟩ := charAt_unit t hwf h1 c (by omega)
  have hnb := noBN_of_forall hbn
  -- the scan
  have hscan := scanEnclosed_spec pcs e he c c (List.range' (c + 1) (n - (c + 1))) (Nat.le_refl _)
    (List.range' (o + 1) (c - (o + 1))) false (by intro i hi; rw [List.mem_range'_1] at hi; omega)
  rw [← range_split o c n hlt hstop, map_cget_inside pcs o c (by omega)] at hscan
  -- prev
  have hprev := prevStrong_spec sos hs ((List.range' 0 o).reverse.map (cget pcs))
  rw [List.map_reverse, map_cget_before pcs o (by omega)] at hprev
  have hLR := strongHead_LR sos hs (pcs.take o).reverse
  unfold n0Pair Spec.n0One
  simp only [hcs, hce, hls, hle, iterFwd_single, iterBwd_single]
  rw [List.map_reverse, map_cget_before pcs o (by omega)]
  simp only [notEOf] at hscan
  simp only at hprev
  rw [hprev]
  generalize scanEnclosed pcs e (if (e == L) = true then R else L) c (List.range' (o + 1) (n - (o + 1))) false = F
    at hscan ⊢
  generalize List.filterMap Spec.strongOfN0 (List.drop (o + 1) (List.take c pcs)) = S at hscan ⊢
  generalize (List.filterMap Spec.strongOfN0 (List.take o pcs).reverse).head?.getD sos = Bf at hLR ⊢
  have hw := fun v hv => n0_writes ocs pcs hnb n hpl hocs o c (List.range' 0 o).reverse v hv
  have heBN : e ≠ BN := by rcases he with rfl | rfl <;> decide
  have hBBN : Bf ≠ BN := by rcases hLR with rfl | rfl <;> decide
  cases hA : S.contains e
  · have h2 := hscan.2 (by rw [hscan.1, hA])
    rw [hscan.1, hA, h2]
    simp only [Bool.false_or, Bool.false_eq_true, if_false]
    cases hB : S.contains (if (e == L) = true then R else L)
    · simp
    · have hv : (if (Bf == if (e == L) = true then R else L) = true then (if (e == L) = true then R else L) else e) = Bf := by
        rcases he with rfl | rfl <;> rcases hLR with rfl | rfl <;> rfl
      simp only [if_true, hv]
      rw [hw Bf hBBN]
  · rw [hscan.1, hA]
    simp only [if_true]
    rw [hw e heBN]


theorem n0_value_ne_BN (e : BidiClass) (he : e = L ∨ e = R) (a b : Bool) (before v : BidiClass)
    (h : (if a = true then some e
          else if b = true then
            some (if (before == if (e == L) = true then R else L) = true then (if (e == L) = true then R else L) else e)
          else none) = some v) : v ≠ BN := by
  cases a <;> cases b <;> simp at h
  · subst h; rcases he with rfl | rfl <;> simp <;> split <;> decide
  · subst h; rcases he with rfl | rfl <;> decide
  · subst h; rcases he with rfl | rfl <;> decide

/-- the Spec's N0 for one pair keeps the length and introduces no BN -/
theorem n0One_props (sos e : BidiClass) (he : e = L ∨ e = R) (M : List Bool) (ts : Classes) (h : NoBN ts)
    (pair : Nat × Nat) :
    (Spec.n0One sos e M ts pair).length = ts.length ∧ NoBN (Spec.n0One sos e M ts pair) := by
  unfold Spec.n0One
  simp only
  split
  · exact ⟨rfl, h⟩
  · next v hv =>
    have hvBN : v ≠ BN := n0_value_ne_BN e he _ _ _ v hv
    have hX : NoBN ((ts.set pair.1 v).set pair.2 v) := (h.set _ hvBN).set _ hvBN
    have hY := nsmAfter_props M v hvBN ((ts.set pair.1 v).set pair.2 v).length (pair.1 + 1) _ hX
    have hZ := nsmAfter_props M v hvBN
      (Spec.n0One.nsmAfter M v ((ts.set pair.1 v).set pair.2 v).length (pair.1 + 1)
        ((ts.set pair.1 v).set pair.2 v)).length (pair.2 + 1) _ hY.2
    exact ⟨by rw [hZ.1, hY.1]; simp, hZ.2⟩

/-- N0 over a list of pairs (single run, single-unit characters, no BN) -/
theorem stageN0_fold_simple (t : Text) (hwf : t.WF) (h1 : ∀ s ∈ t.segs, s.len = 1)
    (n : Nat) (hn : t.len = n) (sos eos e : BidiClass) (hs : sos = L ∨ sos = R) (he : e = L ∨ e = R)
    (ocs : Classes) (hocs : ∀ i < n, ¬ (cget ocs i).removedByX9 = true) :
    ∀ (pairs : List BracketPair) (pcs : Classes), pcs.length = n → NoBN pcs →
      (∀ p ∈ pairs, p.start < p.stop ∧ p.stop < n ∧ p.startRun = 0 ∧ p.endRun = 0) →
      pairs.foldl (n0Pair t { runs := [(0, n)], sos := sos, eos := eos } e ocs) (pcs, none) =
        ((pairs.map (fun p => (p.start, p.stop))).foldl (Spec.n0One sos e (ocs.map (· == NSM))) pcs, none) := by
  intro pairs
  induction pairs with
  | nil => intro pcs _ _ _; rfl
  | cons p ps ih =>
    intro pcs hpl hnb hok
    have hp := hok p (by simp)
    simp only [List.foldl_cons, List.map_cons]
    rw [stageN0_pair_simple t hwf h1 n hn sos eos e hs he ocs pcs hpl hnb.mem hocs p hp.1 hp.2.1 hp.2.2.1 hp.2.2.2]
    have hpr := n0One_props sos e he (ocs.map (· == NSM)) pcs hnb (p.start, p.stop)
    exact ih _ (by rw [hpr.1, hpl]) hpr.2 (fun q hq => hok q (by simp [hq]))

theorem levelBidiClass_LR (l : Nat) : Level.bidiClass l = L ∨ Level.bidiClass l = R := by
  unfold Level.bidiClass; split <;> simp

/-- **StageN, simple setting**: the crate's `resolve_neutral` on one level run of single-unit
    characters without BN / removed characters is UAX #9's N0 (BD16 pairs, in order of their
    openers), then N1/N2; and it does not panic. -/
theorem stageN_simple (ds : DataSource) (t : Text) (hwf : t.WF) (h1 : ∀ s ∈ t.segs, s.len = 1)
    (n : Nat) (hn : t.len = n) (sos eos : BidiClass) (hs : sos = L ∨ sos = R) (levels : List Nat)
    (ocs pcs : Classes) (hpl : pcs.length = n) (hbn : ∀ c ∈ pcs, c ≠ BN)
    (hocs : ∀ i < n, ¬ (cget ocs i).removedByX9 = true) :
    resolveNeutral ds t { runs := [(0, n)], sos := sos, eos := eos } levels ocs pcs =
      (Spec.n12 sos eos (Level.bidiClass (levels.getD 0 0))
        ((Spec.bracketPairs pcs (t.segs.map (fun s => ds.brk s.cp))).foldl
          (Spec.n0One sos (Level.bidiClass (levels.getD 0 0)) (ocs.map (· == NSM))) pcs), none) := by
  have he := levelBidiClass_LR (levels.getD 0 0)
  unfold resolveNeutral
  simp only
  generalize Level.bidiClass (levels.getD 0 0) = e at he ⊢
  have hnb := noBN_of_forall hbn
  have hbd := stageBD16_simple ds t hwf h1 n hn sos eos ocs pcs hpl hocs
  have hok := identifyBracketPairs_simple_ok ds t hwf h1 n hn sos eos ocs pcs
  have hfold := stageN0_fold_simple t hwf h1 n hn sos eos e hs he ocs hocs _ pcs hpl hnb hok
  rw [hbd] at hfold
  have hres : ∀ (ts : Classes), ts.length = n → NoBN ts →
      n12 { runs := [(0, n)], sos := sos, eos := eos } e ts = Spec.n12 sos eos e ts :=
    fun ts hl hb => stageN12_noBN n sos eos e ts hl hb.mem
  have hprops : ∀ (sp : List (Nat × Nat)) (ts : Classes), ts.length = n → NoBN ts →
      (sp.foldl (Spec.n0One sos e (ocs.map (· == NSM))) ts).length = n ∧
      NoBN (sp.foldl (Spec.n0One sos e (ocs.map (· == NSM))) ts) := by
    intro sp
    induction sp with
    | nil => intro ts hl hb; exact ⟨hl, hb⟩
    | cons q qs ih =>
      intro ts hl hb
      have := n0One_props sos e he (ocs.map (· == NSM)) ts hb q
      exact ih _ (by rw [this.1, hl]) this.2
  have hfin := hprops (Spec.bracketPairs pcs (t.segs.map (fun s => ds.brk s.cp))) pcs hpl hnb
  rw [hfold]
  simp only
  rw [hres _ hfin.1 hfin.2]


/-! ### non-vacuity / tests (literal inputs; `decide` here is a test, not a proof) -/

/-- "a(b)c[d]" with types `R ON L ON L ON R ON`, e = R (level 1), sos = R, eos = L: the
    hypotheses of `stageN_simple` hold -/
example : exText.WF ∧ (∀ s ∈ exText.segs, s.len = 1) ∧ exText.len = 8 ∧
    [R, ON, L, ON, L, ON, R, ON].length = 8 ∧ (∀ c ∈ [R, ON, L, ON, L, ON, R, ON], c ≠ BN) ∧
    (∀ i < 8, ¬ (cget (List.replicate 8 ON) i).removedByX9 = true) :=
  ⟨exText_wf, by decide, by decide, by decide, by decide, by decide⟩
/-- test: the first pair "(b)" encloses only L (≠ e = R) and the strong type before it is R = e,
    so it takes R; the second pair "[d]" encloses R = e and takes R.  Both sides give the same
    list, and the crate does not panic. -/
example : resolveNeutral hardcoded exText { runs := [(0, 8)], sos := R, eos := L } [1, 1, 1, 1, 1, 1, 1, 1]
      (List.replicate 8 ON) [R, ON, L, ON, L, ON, R, ON] = ([R, R, L, R, L, R, R, R], none) := by
  decide +kernel
example : Spec.n12 R L R ((Spec.bracketPairs [R, ON, L, ON, L, ON, R, ON]
      (exText.segs.map (fun s => hardcoded.brk s.cp))).foldl
        (Spec.n0One R R ((List.replicate 8 ON).map (· == NSM))) [R, ON, L, ON, L, ON, R, ON])
    = [R, R, L, R, L, R, R, R] := by decide +kernel
/-- a pair meeting the hypotheses of `stageN0_pair_simple` -/
example : let p : BracketPair := { start := 1, stop := 3, startRun := 0, endRun := 0 }
    p.start < p.stop ∧ p.stop < 8 ∧ p.startRun = 0 ∧ p.endRun = 0 := by decide

end UBidi.Lemmas.C01Neutral
