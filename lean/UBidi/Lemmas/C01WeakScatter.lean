/-
  UBidi.Lemmas.C01WeakScatter — StageW layer 3, part 1: the view of an array at
  the (distinct, in-range) indices of a sequence (`gather`), writing a view back
  (`scatter`), and how `set`, `setAll`, `setWhileBN`, `cget` commute with them.
-/
import UBidi.Lemmas.C01WeakBN2
namespace UBidi.Lemmas.C01Weak
open UBidi UBidi.Spec BidiClass

/-- position of `j` in `idxs` -/
def pos (idxs : List Nat) (j : Nat) : Option Nat := idxs.findIdx? (· == j)

/-- write the view `v` back to the positions `idxs` of `orig` -/
def scatter (idxs : List Nat) (v orig : Classes) : Classes :=
  (List.range orig.length).map (fun j =>
    match pos idxs j with
    | some k => v.getD k ON
    | none => orig.getD j ON)

/-- the view of `p` at the positions `idxs` -/
def gather (idxs : List Nat) (p : Classes) : Classes := idxs.map (cget p)

/-- the `k`-th index of the sequence -/
def idx (idxs : List Nat) (k : Nat) : Nat := idxs.getD k 0

theorem pos_idx (idxs : List Nat) (hnd : idxs.Nodup) (k : Nat) (hk : k < idxs.length) :
    pos idxs (idx idxs k) = some k := by
  unfold pos idx
  rw [List.findIdx?_eq_some_iff_getElem]
  refine ⟨hk, ?_, ?_⟩
  · simp [List.getD_eq_getElem?_getD, hk]
  · intro j hj
    simp only [List.getD_eq_getElem?_getD, List.getElem?_eq_getElem hk, Option.getD_some, beq_iff_eq]
    intro h
    have := (List.getElem_inj (h₀ := Nat.lt_trans hj hk) (h₁ := hk) hnd).mp h
    omega

theorem pos_none (idxs : List Nat) (j : Nat) (hj : j ∉ idxs) : pos idxs j = none := by
  unfold pos
  rw [List.findIdx?_eq_none_iff]
  intro x hx
  by_cases h : x = j
  · subst h; exact absurd hx hj
  · simp [h]

theorem pos_some (idxs : List Nat) (j k : Nat) (h : pos idxs j = some k) : k < idxs.length ∧ idx idxs k = j := by
  unfold pos at h
  rw [List.findIdx?_eq_some_iff_getElem] at h
  obtain ⟨hk, h1, _⟩ := h
  refine ⟨hk, ?_⟩
  simp only [beq_iff_eq] at h1
  simp [idx, List.getD_eq_getElem?_getD, hk, h1]

theorem scatter_length (idxs : List Nat) (v orig : Classes) : (scatter idxs v orig).length = orig.length := by
  simp [scatter]

theorem scatter_getElem? (idxs : List Nat) (v orig : Classes) (j : Nat) (hj : j < orig.length) :
    (scatter idxs v orig)[j]? = some (match pos idxs j with
      | some k => v.getD k ON
      | none => orig.getD j ON) := by
  simp [scatter, hj]

theorem idx_lt (idxs : List Nat) (len : Nat) (hlt : ∀ i ∈ idxs, i < len) (k : Nat) (hk : k < idxs.length) :
    idx idxs k < len := by
  apply hlt
  simp [idx, List.getD_eq_getElem?_getD, hk]

section sc
variable (idxs : List Nat) (orig : Classes) (hnd : idxs.Nodup) (hlt : ∀ i ∈ idxs, i < orig.length)

include hnd hlt in
theorem cget_scatter (v : Classes) (k : Nat) (hk : k < idxs.length) :
    cget (scatter idxs v orig) (idx idxs k) = cget v k := by
  have h1 := idx_lt idxs orig.length hlt k hk
  simp only [cget, List.getD_eq_getElem?_getD]
  rw [scatter_getElem? _ _ _ _ h1, pos_idx idxs hnd k hk]
  simp [List.getD_eq_getElem?_getD]

include hnd hlt in
theorem set_scatter (v : Classes) (k : Nat) (hk : k < idxs.length) (hv : v.length = idxs.length) (x : BidiClass) :
    (scatter idxs v orig).set (idx idxs k) x = scatter idxs (v.set k x) orig := by
  have h1 := idx_lt idxs orig.length hlt k hk
  apply List.ext_getElem?
  intro j
  by_cases hj : j < orig.length
  · rw [List.getElem?_set, scatter_getElem? _ _ _ _ hj]
    by_cases hjk : idx idxs k = j
    · subst hjk
      rw [scatter_getElem? _ _ _ _ hj, pos_idx idxs hnd k hk]
      simp [scatter_length, h1, hv, hk]
    · rw [if_neg hjk, scatter_getElem? _ _ _ _ hj]
      cases hp : pos idxs j with
      | none => rfl
      | some k' =>
        obtain ⟨hk', hjk'⟩ := pos_some idxs j k' hp
        have : k ≠ k' := by intro h; subst h; exact hjk hjk'
        simp [List.getD_eq_getElem?_getD, this]
  · rw [List.getElem?_eq_none (by simp [scatter_length]; omega),
      List.getElem?_eq_none (by simp [scatter_length]; omega)]

include hnd hlt in
theorem setAll_scatter (v : Classes) (hv : v.length = idxs.length) (ks : List Nat) (hks : ∀ k ∈ ks, k < idxs.length)
    (x : BidiClass) :
    setAll (scatter idxs v orig) (ks.map (idx idxs)) x = scatter idxs (setAll v ks x) orig := by
  induction ks generalizing v with
  | nil => rfl
  | cons k ks ih =>
    simp only [setAll, List.map_cons, List.foldl_cons] at ih ⊢
    rw [set_scatter idxs orig hnd hlt v k (hks k (by simp)) hv]
    exact ih _ (by simp [hv]) (fun k' hk' => hks k' (by simp [hk']))

include hnd hlt in
theorem setWhileBN_scatter (v : Classes) (hv : v.length = idxs.length) (ks : List Nat)
    (hks : ∀ k ∈ ks, k < idxs.length) (x : BidiClass) :
    setWhileBN (scatter idxs v orig) (ks.map (idx idxs)) x = scatter idxs (setWhileBN v ks x) orig := by
  induction ks generalizing v with
  | nil => rfl
  | cons k ks ih =>
    simp only [List.map_cons, setWhileBN]
    rw [cget_scatter idxs orig hnd hlt v k (hks k (by simp))]
    split
    · rfl
    · rw [set_scatter idxs orig hnd hlt v k (hks k (by simp)) hv]
      exact ih _ (by simp [hv]) (fun k' hk' => hks k' (by simp [hk']))

include hnd hlt in
theorem map_cget_scatter (v : Classes) (ks : List Nat) (hks : ∀ k ∈ ks, k < idxs.length) :
    (ks.map (idx idxs)).map (cget (scatter idxs v orig)) = ks.map (cget v) := by
  rw [List.map_map]
  apply List.map_congr_left
  intro k hk
  exact cget_scatter idxs orig hnd hlt v k (hks k hk)

include hnd hlt in
theorem gather_scatter (v : Classes) (hv : v.length = idxs.length) : gather idxs (scatter idxs v orig) = v := by
  apply List.ext_getElem
  · simp [gather, hv]
  · intro k h1 h2
    simp only [gather, List.getElem_map]
    have hk : k < idxs.length := by simpa [gather] using h1
    have := cget_scatter idxs orig hnd hlt v k hk
    simp only [idx, List.getD_eq_getElem?_getD, List.getElem?_eq_getElem hk, Option.getD_some] at this
    rw [this]
    simp [cget, List.getD_eq_getElem?_getD, h2]

theorem scatter_gather : scatter idxs (gather idxs orig) orig = orig := by
  apply List.ext_getElem?
  intro j
  by_cases hj : j < orig.length
  · rw [scatter_getElem? _ _ _ _ hj]
    cases hp : pos idxs j with
    | none => simp [List.getD_eq_getElem?_getD, hj]
    | some k =>
      obtain ⟨hk, hjk⟩ := pos_some idxs j k hp
      simp only [gather, List.getD_eq_getElem?_getD, List.getElem?_map, List.getElem?_eq_getElem hk,
        Option.map_some, Option.getD_some]
      simp only [idx, List.getD_eq_getElem?_getD, List.getElem?_eq_getElem hk, Option.getD_some] at hjk
      rw [hjk]
      simp [cget, List.getD_eq_getElem?_getD, hj]
  · rw [List.getElem?_eq_none (by simp [scatter_length]; omega), List.getElem?_eq_none (by omega)]

theorem scatter_outside (v : Classes) (j : Nat) (hj : j ∉ idxs) : (scatter idxs v orig)[j]? = orig[j]? := by
  by_cases hjl : j < orig.length
  · rw [scatter_getElem? _ _ _ _ hjl, pos_none idxs j hj]
    simp [List.getD_eq_getElem?_getD, hjl]
  · rw [List.getElem?_eq_none (by simp [scatter_length]; omega), List.getElem?_eq_none (by omega)]

end sc


end UBidi.Lemmas.C01Weak
