/-
  UBidi.Lemmas.C01Pure — soundness of the pure-LTR paragraph shortcut (a stage
  lemma of C01): UAX #9 (the Spec) assigns level 0 to every character of a
  paragraph with paragraph level 0 that contains no R, AL, AN, LRE, RLE, LRO,
  RLO, RLI, LRI, FSI.
-/
import UBidi.Spec.UAX9
namespace UBidi.Lemmas.C01Pure
open UBidi UBidi.Spec BidiClass

/-- the derived `BEq` on `BidiClass` is equality -/
theorem beq_iff (a b : BidiClass) : (a == b) = true ↔ a = b := by
  cases a <;> cases b <;> decide

instance : LawfulBEq BidiClass where
  eq_of_beq {a b} h := (beq_iff a b).1 h
  rfl {a} := (beq_iff a a).2 rfl

/-- the classes a pure-LTR paragraph may contain -/
def pureClass (c : BidiClass) : Bool :=
  match c with
  | .L | .EN | .ES | .ET | .CS | .NSM | .BN | .B | .S | .WS | .ON | .PDF | .PDI => true
  | _ => false

/-- not R, AL, AN -/
def safe (c : BidiClass) : Bool :=
  match c with
  | .R | .AL | .AN => false
  | _ => true

/-- not R, AL, AN, EN: the types that I1 leaves at an even level -/
def good (c : BidiClass) : Bool :=
  match c with
  | .R | .AL | .AN | .EN => false
  | _ => true

theorem good_safe {c : BidiClass} (h : good c = true) : safe c = true := by
  cases c <;> first | rfl | cases h

/-! ### W1 – W7 -/

theorem w1_safe (prev : BidiClass) (ts : List BidiClass) (hp : safe prev = true)
    (h : ∀ c ∈ ts, safe c = true) : ∀ c ∈ w1 prev ts, safe c = true := by
  induction ts generalizing prev with
  | nil => simp [w1]
  | cons c cs ih =>
    have hc : safe c = true := h c (by simp)
    have hcs : ∀ x ∈ cs, safe x = true := fun x hx => h x (by simp [hx])
    have hc' : safe (if c == NSM then (if isIsoInit prev || prev == PDI then ON else prev) else c) = true := by
      split
      · split
        · rfl
        · exact hp
      · exact hc
    intro x hx
    simp only [w1, List.mem_cons] at hx
    rcases hx with rfl | hx
    · exact hc'
    · exact ih _ hc' hcs x hx

/-- a prefix-dependent pass maps `P`-lists to `Q`-lists when its step does -/
theorem mapWithPrefix_go_forall (f : List BidiClass → BidiClass → BidiClass) (P Q : BidiClass → Prop)
    (hf : ∀ pre c, (∀ x ∈ pre, P x) → P c → Q (f pre c))
    (pre ts : List BidiClass) (hpre : ∀ x ∈ pre, P x) (h : ∀ x ∈ ts, P x) :
    ∀ x ∈ mapWithPrefix.go f pre ts, Q x := by
  induction ts generalizing pre with
  | nil => simp [mapWithPrefix.go]
  | cons c cs ih =>
    have hc : P c := h c (by simp)
    have hcs : ∀ x ∈ cs, P x := fun x hx => h x (by simp [hx])
    intro x hx
    simp only [mapWithPrefix.go, List.mem_cons] at hx
    rcases hx with rfl | hx
    · exact hf pre c hpre hc
    · refine ih (pre ++ [c]) ?_ hcs x hx
      intro y hy
      simp only [List.mem_append, List.mem_singleton] at hy
      rcases hy with hy | rfl
      · exact hpre y hy
      · exact hc

theorem mapWithPrefix_forall (f : List BidiClass → BidiClass → BidiClass) (P Q : BidiClass → Prop)
    (hf : ∀ pre c, (∀ x ∈ pre, P x) → P c → Q (f pre c))
    (ts : List BidiClass) (h : ∀ x ∈ ts, P x) : ∀ x ∈ mapWithPrefix f ts, Q x :=
  mapWithPrefix_go_forall f P Q hf [] ts (by simp) h

/-- the last strong type of a prefix satisfies `P` when the prefix and `sos` do -/
theorem lastStrong_forall (strong : BidiClass → Bool) (sos : BidiClass) (pre : List BidiClass)
    (P : BidiClass → Prop) (hs : P sos) (h : ∀ x ∈ pre, P x) : P (lastStrong strong sos pre) := by
  unfold lastStrong
  cases hf : pre.reverse.find? strong with
  | none => exact hs
  | some y =>
    have := List.mem_of_find?_eq_some hf
    exact h y (by simpa using this)

theorem lastStrong_pred (strong : BidiClass → Bool) (sos : BidiClass) (pre : List BidiClass)
    (hs : strong sos = true) : strong (lastStrong strong sos pre) = true := by
  unfold lastStrong
  cases hf : pre.reverse.find? strong with
  | none => exact hs
  | some y => exact List.find?_some hf

theorem w2_safe (ts : List BidiClass) (h : ∀ c ∈ ts, safe c = true) :
    ∀ c ∈ w2 L ts, safe c = true := by
  unfold w2
  refine mapWithPrefix_forall _ (fun c => safe c = true) (fun c => safe c = true) ?_ ts h
  intro pre c hpre hc
  have h1 : safe (lastStrong isStrong L pre) = true :=
    lastStrong_forall isStrong L pre (fun c => safe c = true) rfl hpre
  have h2 : (lastStrong isStrong L pre == AL) = false := by
    generalize lastStrong isStrong L pre = y at h1
    cases y <;> first | rfl | cases h1
  simp only [h2, Bool.and_false]
  exact hc

theorem w3_safe (ts : List BidiClass) (h : ∀ c ∈ ts, safe c = true) :
    ∀ c ∈ w3 ts, safe c = true := by
  unfold w3
  intro x hx
  simp only [List.mem_map] at hx
  obtain ⟨c, hc, rfl⟩ := hx
  have := h c hc
  cases c <;> first | rfl | cases this

theorem w4_go_safe (prev : Option BidiClass) (ts : List BidiClass)
    (hp : ∀ p, prev = some p → safe p = true)
    (h : ∀ c ∈ ts, safe c = true) : ∀ c ∈ w4.go prev ts, safe c = true := by
  induction ts generalizing prev with
  | nil => simp [w4.go]
  | cons c cs ih =>
    have hc : safe c = true := h c (by simp)
    have hcs : ∀ x ∈ cs, safe x = true := fun x hx => h x (by simp [hx])
    intro x hx
    simp only [w4.go, List.mem_cons] at hx
    rcases hx with rfl | hx
    · split
      · rfl
      · split
        · rfl
        · split
          · rename_i h3
            simp only [Bool.and_eq_true, beq_iff_eq] at h3
            have := hp AN h3.1.2
            cases this
          · exact hc
    · exact ih (some c) (by intro p hp'; cases hp'; exact hc) hcs x hx

theorem w4_safe (ts : List BidiClass) (h : ∀ c ∈ ts, safe c = true) :
    ∀ c ∈ w4 ts, safe c = true :=
  w4_go_safe none ts (by simp) h

theorem w5_bwd_safe (ts : List BidiClass) (h : ∀ c ∈ ts, safe c = true) :
    ∀ c ∈ w5.bwd ts, safe c = true := by
  induction ts with
  | nil => simp [w5.bwd]
  | cons c cs ih =>
    have hc : safe c = true := h c (by simp)
    have hcs : ∀ x ∈ cs, safe x = true := fun x hx => h x (by simp [hx])
    intro x hx
    simp only [w5.bwd, List.mem_cons] at hx
    rcases hx with rfl | hx
    · split
      · rfl
      · exact hc
    · exact ih hcs x hx

theorem w5_fwd_safe (b : Bool) (ts : List BidiClass) (h : ∀ c ∈ ts, safe c = true) :
    ∀ c ∈ w5.fwd b ts, safe c = true := by
  induction ts generalizing b with
  | nil => simp [w5.fwd]
  | cons c cs ih =>
    have hc : safe c = true := h c (by simp)
    have hcs : ∀ x ∈ cs, safe x = true := fun x hx => h x (by simp [hx])
    intro x hx
    simp only [w5.fwd] at hx
    split at hx
    · simp only [List.mem_cons] at hx
      rcases hx with rfl | hx
      · rfl
      · exact ih _ hcs x hx
    · simp only [List.mem_cons] at hx
      rcases hx with rfl | hx
      · exact hc
      · exact ih _ hcs x hx

theorem w5_safe (ts : List BidiClass) (h : ∀ c ∈ ts, safe c = true) :
    ∀ c ∈ w5 ts, safe c = true :=
  w5_fwd_safe false _ (w5_bwd_safe ts h)

theorem w6_safe (ts : List BidiClass) (h : ∀ c ∈ ts, safe c = true) :
    ∀ c ∈ w6 ts, safe c = true := by
  unfold w6
  intro x hx
  simp only [List.mem_map] at hx
  obtain ⟨c, hc, rfl⟩ := hx
  split
  · rfl
  · exact h c hc

/-- W7 with `sos = L` in a list without R, AL, AN leaves no EN -/
theorem w7_good (ts : List BidiClass) (h : ∀ c ∈ ts, safe c = true) :
    ∀ c ∈ w7 L ts, good c = true := by
  unfold w7
  refine mapWithPrefix_forall _ (fun c => safe c = true) (fun c => good c = true) ?_ ts h
  intro pre c hpre hc
  have h1 : safe (lastStrong (fun x => x == L || x == R) L pre) = true :=
    lastStrong_forall _ L pre (fun c => safe c = true) rfl hpre
  have h2 := lastStrong_pred (fun x => x == L || x == R) L pre rfl
  have h3 : (lastStrong (fun x => x == L || x == R) L pre == L) = true := by
    generalize lastStrong (fun x => x == L || x == R) L pre = y at h1 h2
    cases y <;> first | rfl | exact absurd h1 (by decide) | exact absurd h2 (by decide)
  simp only [h3, Bool.and_true]
  cases c <;> first | rfl | cases hc

theorem weak_good (ts : List BidiClass) (h : ∀ c ∈ ts, safe c = true) :
    ∀ c ∈ weak L ts, good c = true := by
  unfold weak
  exact w7_good _ (w6_safe _ (w5_safe _ (w4_safe _ (w3_safe _ (w2_safe _ (w1_safe L ts rfl h))))))

/-! ### N0, N1, N2 -/

theorem set_forall {P : BidiClass → Prop} (ts : List BidiClass) (i : Nat) (v : BidiClass)
    (hv : P v) (h : ∀ x ∈ ts, P x) : ∀ x ∈ ts.set i v, P x := by
  intro x hx
  rcases List.mem_or_eq_of_mem_set hx with hx | rfl
  · exact h x hx
  · exact hv

theorem nsmAfter_good (o : List Bool) (fuel pos : Nat) (ts : List BidiClass)
    (h : ∀ x ∈ ts, good x = true) : ∀ x ∈ n0One.nsmAfter o L fuel pos ts, good x = true := by
  induction fuel generalizing pos ts with
  | zero => simpa [n0One.nsmAfter] using h
  | succ f ih =>
    unfold n0One.nsmAfter
    split
    · exact ih _ _ (set_forall ts pos L rfl h)
    · exact h

theorem strongs_no_R (l : List BidiClass) (h : ∀ x ∈ l, good x = true) :
    (l.filterMap strongOfN0).contains R = false := by
  rw [Bool.eq_false_iff]
  intro hc
  rw [List.contains_iff_mem, List.mem_filterMap] at hc
  obtain ⟨a, ha, hs⟩ := hc
  have := h a ha
  revert hs this
  cases a <;> decide

theorem n0One_good (o : List Bool) (ts : List BidiClass) (pair : Nat × Nat)
    (h : ∀ x ∈ ts, good x = true) : ∀ x ∈ n0One L L o ts pair, good x = true := by
  have hR : (((ts.take pair.2).drop (pair.1 + 1)).filterMap strongOfN0).contains R = false :=
    strongs_no_R _ (fun x hx => h x (List.mem_of_mem_take (List.mem_of_mem_drop hx)))
  unfold n0One
  simp only []
  split
  · exact h
  · rename_i v hv
    have hL : (L == L) = true := rfl
    simp only [hL, if_true, hR] at hv
    have hv' : v = L := by
      split at hv
      · exact (Option.some.inj hv).symm
      · simp at hv
    subst hv'
    exact nsmAfter_good _ _ _ _ (nsmAfter_good _ _ _ _ (set_forall _ _ L rfl (set_forall _ _ L rfl h)))

theorem n0_good (o : List Bool) (pairs : List (Nat × Nat)) (ts : List BidiClass)
    (h : ∀ x ∈ ts, good x = true) : ∀ x ∈ pairs.foldl (n0One L L o) ts, good x = true := by
  induction pairs generalizing ts with
  | nil => exact h
  | cons p ps ih => exact ih _ (n0One_good o ts p h)

theorem n1Dir_good (c : BidiClass) (h : good c = true) : n1Dir c = some L ∨ n1Dir c = none := by
  revert h; cases c <;> decide

theorem n12_go_good (prev : BidiClass) (ts : List BidiClass) (hp : good prev = true)
    (h : ∀ x ∈ ts, good x = true) : ∀ x ∈ n12.go L L prev ts, good x = true := by
  induction ts generalizing prev with
  | nil => simp [n12.go]
  | cons c cs ih =>
    have hc : good c = true := h c (by simp)
    have hcs : ∀ x ∈ cs, good x = true := fun x hx => h x (by simp [hx])
    intro x hx
    simp only [n12.go] at hx
    split at hx
    · simp only [List.mem_cons] at hx
      rcases hx with rfl | hx
      · have ha : good ((cs.find? (fun x => !Spec.isNI x)).getD L) = true := by
          cases hf : cs.find? (fun x => !Spec.isNI x) with
          | none => rfl
          | some y => exact hcs y (List.mem_of_find?_eq_some hf)
        generalize (cs.find? (fun x => !Spec.isNI x)).getD L = aft at ha
        rcases n1Dir_good _ hp with h1 | h1 <;> rcases n1Dir_good _ ha with h2 | h2 <;>
          simp only [h1, h2] <;> rfl
      · exact ih prev hp hcs x hx
    · simp only [List.mem_cons] at hx
      rcases hx with rfl | hx
      · exact hc
      · exact ih _ hc hcs x hx

theorem n12_good (ts : List BidiClass) (h : ∀ x ∈ ts, good x = true) :
    ∀ x ∈ n12 L L L ts, good x = true :=
  n12_go_good L ts rfl h


/-! ### X9, X10: one level run, one isolating run sequence -/

theorem levelRuns_zero (n pos : Nat) :
    levelRuns (List.replicate (n + 1) 0) pos = [(pos, pos + n + 1)] := by
  induction n generalizing pos with
  | zero => rfl
  | succ n ih =>
    rw [List.replicate_succ, List.replicate_succ, levelRuns, ← List.replicate_succ, ih (pos + 1)]
    simp only [beq_self_eq_true, if_true]
    congr 2; omega

theorem isolatingRunSequences_zero (ks : List K) (h : ∀ k ∈ ks, k.level = 0) (hne : ks ≠ []) :
    isolatingRunSequences ks = [[(0, ks.length)]] := by
  have hl : ks.map (·.level) = List.replicate ks.length 0 := by
    rw [List.eq_replicate_iff]
    simp only [List.length_map, List.mem_map, true_and]
    rintro b ⟨k, hk, rfl⟩
    exact h k hk
  obtain ⟨n, hn⟩ : ∃ n, ks.length = n + 1 := by
    cases ks with
    | nil => exact absurd rfl hne
    | cons a l => exact ⟨l.length, rfl⟩
  unfold isolatingRunSequences
  simp only [hl, hn, levelRuns_zero]
  simp [addRun]

theorem seqPositions_one (m : Nat) : seqPositions [(0, m)] = List.range' 0 m := by
  simp [seqPositions]


/-! ### one sequence: sos = eos = e = L, final types are not R, AL, AN, EN -/

theorem level_getD (ks : List K) (h : ∀ k ∈ ks, k.level = 0) (p : Nat) :
    (ks.getD p default).level = 0 := by
  rw [List.getD_eq_getElem?_getD]
  cases hp : ks[p]? with
  | none => rfl
  | some k => exact h k (List.mem_of_getElem? hp)

theorem resolveSequence_good (ks : List K) (h0 : ∀ k ∈ ks, k.level = 0)
    (hs : ∀ k ∈ ks, safe k.ty = true) :
    ∀ x ∈ resolveSequence 0 ks [(0, ks.length)], good x.2 = true := by
  unfold resolveSequence
  rw [seqPositions_one]
  simp only []
  split
  · simp only [level_getD ks h0, ite_self, Nat.max_self]
    have hL : dirOfLevel 0 = L := rfl
    rw [hL]
    rintro ⟨p, t⟩ hx
    have ht := (List.of_mem_zip hx).2
    refine n12_good _ (n0_good _ _ _ (weak_good _ ?_)) t ht
    intro c hc
    simp only [List.mem_map, List.mem_range'_1] at hc
    obtain ⟨q, hq, rfl⟩ := hc
    rw [List.getD_eq_getElem?_getD, List.getElem?_eq_getElem (by omega)]
    exact hs _ (List.getElem_mem _)
  · simp


theorem implicitLevel_good (t : BidiClass) (h : good t = true) : implicitLevel 0 t = 0 := by
  revert h; cases t <;> decide

/-- the final type looked up for any surviving position is not R, AL, AN, EN -/
theorem tyAt_good (ks : List K) (h0 : ∀ k ∈ ks, k.level = 0) (hs : ∀ k ∈ ks, safe k.ty = true)
    (p : Nat) :
    good (((((isolatingRunSequences ks).flatMap (resolveSequence 0 ks)).find?
      (fun x => x.1 == p)).map (·.2)).getD ON) = true := by
  cases hf : ((isolatingRunSequences ks).flatMap (resolveSequence 0 ks)).find? (fun x => x.1 == p) with
  | none => rfl
  | some x =>
    have hx := List.mem_of_find?_eq_some hf
    simp only [Option.map_some, Option.getD_some]
    by_cases hne : ks = []
    · subst hne
      simp [isolatingRunSequences, levelRuns] at hx
    · rw [isolatingRunSequences_zero ks h0 hne] at hx
      simp only [List.flatMap_cons, List.flatMap_nil, List.append_nil] at hx
      exact resolveSequence_good ks h0 hs x hx

/-! ### X1 – X8 -/

/-- the initial directional status stack at paragraph level 0 -/
def s0 : XState := { stack := [{ level := 0, override := none, isolate := false }] }

theorem xStep_pure (c : BidiClass) (h : pureClass c = true) : xStep 0 s0 c = (s0, 0, c) := by
  cases c <;> first | rfl | exact absurd h (by decide)

theorem xRun_pure (cls : List BidiClass) (h : ∀ c ∈ cls, pureClass c = true) :
    xRun 0 s0 cls = cls.map (fun c => (0, c)) := by
  induction cls with
  | nil => rfl
  | cons c cs ih =>
    simp only [xRun, xStep_pure c (h c (by simp)), List.map_cons]
    rw [ih (fun x hx => h x (by simp [hx]))]

theorem explicit_pure (cls : List BidiClass) (h : ∀ c ∈ cls, pureClass c = true) :
    explicit 0 cls = cls.map (fun c => (0, c)) := xRun_pure cls h

theorem pure_safe (c : BidiClass) (h : pureClass c = true) : safe c = true := by
  revert h; cases c <;> decide

/-! ### removed characters -/

theorem fill_zero (kl : List (Nat × Nat)) (h : ∀ x ∈ kl, x.2 = 0) (i : Nat) (l : List Nat) :
    paragraphLevels.fill kl 0 i l = List.replicate l.length 0 := by
  induction l generalizing i with
  | nil => rfl
  | cons a l ih =>
    unfold paragraphLevels.fill
    simp only []
    split
    · rename_i x hf
      rw [h x (List.mem_of_find?_eq_some hf), ih]
      rfl
    · rw [ih]
      rfl

theorem getD_map_pair (cls : List BidiClass) (i : Nat) :
    (cls.map (fun c => ((0 : Nat), c))).getD i (0, ON) = (0, cls.getD i ON) := by
  simp only [List.getD_eq_getElem?_getD, List.getElem?_map]
  cases cls[i]? <;> rfl

/-- everything after X9, for a list of survivors at level 0 without R, AL, AN -/
theorem levels_of_ks (ks : List K) (h0 : ∀ k ∈ ks, k.level = 0) (hs : ∀ k ∈ ks, safe k.ty = true)
    (n : Nat) :
    paragraphLevels.fill
      ((List.range ks.length).map (fun p =>
        ((ks.getD p default).orig,
          implicitLevel (ks.getD p default).level
            (((((isolatingRunSequences ks).flatMap (resolveSequence 0 ks)).find?
              (fun x => x.1 == p)).map (·.2)).getD ON))))
      0 0 (List.range n) = List.replicate n 0 := by
  rw [fill_zero]
  · simp
  · intro x hx
    simp only [List.mem_map, List.mem_range] at hx
    obtain ⟨p, hp, rfl⟩ := hx
    simp only [level_getD ks h0]
    exact implicitLevel_good _ (tyAt_good ks h0 hs p)

/-- **Soundness of the pure-LTR shortcut**: at paragraph level 0, a paragraph that contains only
    L, EN, ES, ET, CS, NSM, BN, B, S, WS, ON, PDF, PDI (i.e. none of the classes that clear the
    Model's `pureLtr` flag) gets level 0 on every character under UAX #9. -/
theorem pure_ltr_levels (chars : List Spec.Ch) (h : ∀ c ∈ chars, pureClass c.cls = true) :
    Spec.paragraphLevels 0 chars = List.replicate chars.length 0 := by
  have hcls : ∀ c ∈ chars.map (·.cls), pureClass c = true := by
    intro c hc
    simp only [List.mem_map] at hc
    obtain ⟨ch, hch, rfl⟩ := hc
    exact h ch hch
  unfold paragraphLevels
  simp only [explicit_pure _ hcls, getD_map_pair]
  refine levels_of_ks _ ?_ ?_ _
  · intro k hk
    simp only [List.mem_filter, List.mem_map, List.mem_range] at hk
    obtain ⟨⟨i, hi, rfl⟩, _⟩ := hk
    rfl
  · intro k hk
    simp only [List.mem_filter, List.mem_map, List.mem_range] at hk
    obtain ⟨⟨i, hi, rfl⟩, _⟩ := hk
    simp only [List.getD_eq_getElem?_getD]
    cases hc : (chars.map (·.cls))[i]? with
    | none => rfl
    | some c => exact pure_safe c (hcls c (List.mem_of_getElem? hc))

/-- non-vacuity (test): a paragraph with digits, separators, an NSM, brackets, a stray PDI and
    PDF, a BN and a paragraph separator meets the hypothesis, and the Spec gives all zeros -/
def sample : List Spec.Ch :=
  [⟨EN, none⟩, ⟨ES, none⟩, ⟨EN, none⟩, ⟨ET, none⟩, ⟨ON, some ⟨40, true⟩⟩, ⟨L, none⟩, ⟨NSM, none⟩,
   ⟨CS, none⟩, ⟨ON, some ⟨40, false⟩⟩, ⟨NSM, none⟩, ⟨WS, none⟩, ⟨PDI, none⟩, ⟨PDF, none⟩,
   ⟨BN, none⟩, ⟨S, none⟩, ⟨B, none⟩]

example : ∀ c ∈ sample, pureClass c.cls = true := by decide
example : Spec.paragraphLevels 0 sample = List.replicate 16 0 := pure_ltr_levels sample (by decide)


/-- `pureClass` is exactly the complement of the classes that clear `pureLtr` in `Model.iiStep` -/
theorem pureClass_eq (c : BidiClass) :
    pureClass c = !(c == R || c == AL || c == AN || c == LRE || c == RLE || c == LRO || c == RLO
      || c == RLI || c == LRI || c == FSI) := by
  cases c <;> rfl

/-- test: the hypothesis matters (each excluded class can raise a level) -/
example : Spec.paragraphLevels 0 [⟨L, none⟩, ⟨R, none⟩] = [0, 1] := by decide
example : Spec.paragraphLevels 0 [⟨L, none⟩, ⟨AN, none⟩] = [0, 2] := by decide
example : Spec.paragraphLevels 0 [⟨RLE, none⟩, ⟨ON, none⟩] = [0, 1] := by decide

end UBidi.Lemmas.C01Pure
