/-
  Helper lemmas for the end-to-end ("pipeline") corollaries of properties C03, C05 and C06
  (UBidi/Props/C03Pipeline.lean, C05Pipeline.lean, C06Pipeline.lean).

  * `hyp_multi` / `hyp_single` — the vectors `BidiInfo::new` / `ParagraphBidiInfo::new` store meet every
    hypothesis the relative theorems of C03 / C05 / C06 make about `classes` / `levels` / `paraLevel`
    (the record `Lemmas.C06.Hyp`): one class and one level per code unit (`C07.bidiInfo_stored`), levels
    ≤ 126, paragraph level ≤ 1, levels uniform within every character (`C08Uniform`);
  * `Hyp.sampled` — the line levels of `reordered_levels`, read at the starts of the line's characters, are
    the Spec's rule L1 on the line's characters; `Hyp.slice_line` — the units of the line hold its expansion;
  * `Hyp.runs` — all of property C05 for `visual_runs` on those line levels, and the run boundaries;
  * `para_uax9` / `line_uax9` — the `(character, class, level)` triples of a paragraph of `BidiInfo::new`
    (of a line inside it) are those of UAX #9 (`C01Levels.C01_bidiInfo`): the stored classes are X5c of the
    data source's classes, the stored levels are `Spec.paragraphLevels` at the level of P2/P3;
    `single_uax9` / `single_line_uax9` — the same for `ParagraphBidiInfo::new` on a one-paragraph text.
-/
import UBidi.Props.C03
import UBidi.Props.C05
import UBidi.Props.C06
import UBidi.Props.C07Total
import UBidi.Props.C08Uniform
import UBidi.Props.C01Levels
namespace UBidi.Lemmas.LinePipeline
open UBidi UBidi.BidiClass
open UBidi.Props.C02 (segsIn raw)

/-! ### the base-direction hypothesis, in its two forms -/

theorem hd_le_one {d : Option Nat} (hd : d = none ∨ d = some 0 ∨ d = some 1) : ∀ l, d = some l → l ≤ 1 := by
  intro l hl
  rcases hd with h | h | h <;> rw [h] at hl <;> cases hl <;> omega

theorem hd_cases {d : Option Nat} (hd : ∀ l, d = some l → l ≤ 1) : d = none ∨ d = some 0 ∨ d = some 1 := by
  cases d with
  | none => exact Or.inl rfl
  | some l =>
    have := hd l rfl
    rcases Nat.le_one_iff_eq_zero_or_eq_one.1 this with h | h <;> subst h
    · exact Or.inr (Or.inl rfl)
    · exact Or.inr (Or.inr rfl)

/-! ### a character boundary lies inside the text -/

theorem boundary_le (t : Text) (hwf : t.WF) (b : Nat) (hbb : t.isBoundary b = true) : b ≤ t.len := by
  rcases (Lemmas.C03.isBoundary_iff t b).1 hbb with h | ⟨s, hs, h⟩
  · omega
  · have := (Lemmas.C03.SegsFrom_bounds hwf.tiles).2 s hs; omega

/-! ### the stored vectors meet the hypotheses of the relative theorems -/

/-- `BidiInfo::new`: every hypothesis of C03 / C05 / C06 on `(classes, levels, paragraph level)` holds for
    the stored vectors and the level of any of the paragraphs, on every non-empty line on character
    boundaries -/
theorem hyp_multi (ds : DataSource) (t : Text) (hwf : t.WF) (d : Option Nat)
    (hd : d = none ∨ d = some 0 ∨ d = some 1) (p : ParaInfo) (hp : p ∈ (bidiInfo ds t d).paras)
    (a b : Nat) (hab : a < b) (ha : t.isBoundary a = true) (hbb : t.isBoundary b = true) :
    Lemmas.C06.Hyp t (bidiInfo ds t d).classes (bidiInfo ds t d).levels p.level a b := by
  obtain ⟨h1, h2, h3, h4⟩ := Props.C07.bidiInfo_stored ds t hwf d hd
  exact ⟨hwf, hab, boundary_le t hwf b hbb, ha, hbb, h1, h2,
    (Props.C07Total.uniformOn_iff t _).2 (Props.C08Uniform.C08_uniform_levels_multi ds t hwf d), h3,
    by have := h4 p hp; omega⟩

/-- `ParagraphBidiInfo::new`: the same -/
theorem hyp_single (ds : DataSource) (t : Text) (hwf : t.WF) (d : Option Nat)
    (hd : d = none ∨ d = some 0 ∨ d = some 1)
    (a b : Nat) (hab : a < b) (ha : t.isBoundary a = true) (hbb : t.isBoundary b = true) :
    Lemmas.C06.Hyp t (paragraphBidiInfo ds t d).classes (paragraphBidiInfo ds t d).levels
      (paragraphBidiInfo ds t d).paraLevel a b := by
  obtain ⟨h1, h2, h3, h4⟩ := Props.C07.paragraphBidiInfo_stored ds t hwf d hd
  exact ⟨hwf, hab, boundary_le t hwf b hbb, ha, hbb, h1, h2,
    (Props.C07Total.uniformOn_iff t _).2 (Props.C08Uniform.C08_uniform_levels_single ds t hwf d), h3,
    by omega⟩

/-! ### the line levels at the starts of the line's characters -/

/-- read at the first code unit of every character of the line, the line levels of `reordered_levels`
    are rule L1 of the Spec on the `(class, level)` of the line's characters -/
theorem Hyp.sampled {t : Text} {classes : List BidiClass} {levels : List Nat} {pl a b : Nat}
    (h : Lemmas.C06.Hyp t classes levels pl a b) :
    (Lemmas.C06.lineSegs t a b).map (fun s => (reorderedLevels t classes levels pl a b).1.getD s.start 0)
      = Lemmas.C06.lineL1 t classes levels pl a b := by
  apply List.ext_getElem
  · rw [List.length_map, Lemmas.C06.lineL1_length]
  · intro i h1 h2
    rw [List.length_map] at h1
    have hpos : 0 < ((Lemmas.C06.lineSegs t a b)[i]).len :=
      Lemmas.C06.segsFrom_pos h.tiles _ (List.getElem_mem h1)
    have := h.lv_get i h1 0 hpos
    rw [Nat.add_zero, List.getElem?_eq_getElem h2] at this
    rw [List.getElem_map, List.getD_eq_getElem?_getD, this, Option.getD_some]

/-- the units of the line in the line levels of `reordered_levels`: the expansion of rule L1 on the
    line's characters -/
theorem Hyp.slice_line {t : Text} {classes : List BidiClass} {levels : List Nat} {pl a b : Nat}
    (h : Lemmas.C06.Hyp t classes levels pl a b) :
    slice (reorderedLevels t classes levels pl a b).1 a b
      = Props.C03.expand (t.subrange a b) (Lemmas.C06.lineL1 t classes levels pl a b) := by
  have hlen : (Lemmas.C03.expandS (Lemmas.C06.shiftSegs a (Lemmas.C06.lineSegs t a b))
      (Lemmas.C06.lineL1 t classes levels pl a b)).length = b - a := by
    rw [Lemmas.C06.expandS_length _ _ 0 (b - a) h.tiles0
      (by simp [Lemmas.C06.shiftSegs, Lemmas.C06.lineL1_length])]
    omega
  have hla : (levels.take a).length = a := by
    rw [List.length_take, h.hl]; have := h.hb; have := h.hab; omega
  rw [h.lv_eq.2]
  unfold slice
  rw [List.append_assoc, List.drop_left' hla, List.take_left' hlen]
  rfl

/-- everything property C05 says about `visual_runs` on the line levels of `reordered_levels`, from the
    hypotheses of C06 -/
theorem Hyp.runs {t : Text} {classes : List BidiClass} {levels : List Nat} {pl a b : Nat}
    (h : Lemmas.C06.Hyp t classes levels pl a b) :
    let lv := (reorderedLevels t classes levels pl a b).1
    let runs := (visualRunsForLine lv a b).1
    let lr := Props.C05.logicalRuns lv a b
    (visualRunsForLine lv a b).2 = none ∧
    (∀ r ∈ runs, r.1 < r.2) ∧ runs.Perm lr ∧
    Props.C05.tiles a lr b ∧ (∀ r ∈ lr, Props.C05.oneLevel lv r) ∧ (∀ r ∈ lr, Props.C05.maximalIn lv a b r) ∧
    (∀ r ∈ runs, Props.C05.oneLevel lv r ∧ Props.C05.maximalIn lv a b r) ∧
    (runs.flatMap Lemmas.C05.units).Perm (List.range' a (b - a)) ∧
    Props.C05.runsOrder lv runs = (Spec.l2 (slice lv a b)).map (· + a) ∧
    slice lv a b = Props.C03.expand (t.subrange a b) (Lemmas.C06.lineL1 t classes levels pl a b) ∧
    (∀ r ∈ runs, a ≤ r.1 ∧ r.1 < r.2 ∧ r.2 ≤ b ∧ t.isBoundary r.1 = true ∧ t.isBoundary r.2 = true) := by
  intro lv runs lr
  have hb : b ≤ lv.length := by rw [h.lv_length]; exact h.hb
  have h126 := h.lv_le
  obtain ⟨p1, p2, p3, p4, p5⟩ := Props.C05.C05_partition lv a b h.hab hb h126
  exact ⟨Props.C05.C05_no_panic lv a b h.hab hb h126, p1, p2, p3, p4, p5,
    fun r hr => ⟨p4 r (p2.subset hr), p5 r (p2.subset hr)⟩,
    Props.C05.C05_cover lv a b h.hab hb h126, Props.C05.C05_order lv a b h.hab hb h126,
    Hyp.slice_line h, h.run_boundaries⟩

/-! ### list bookkeeping -/

theorem zipWith_map_self {α β γ} (f : β → α → γ) (g : α → β) : ∀ (xs : List α),
    List.zipWith f (xs.map g) xs = xs.map (fun s => f (g s) s)
  | [] => rfl
  | s :: xs => by simp [zipWith_map_self f g xs]

theorem zip_map_map {α β γ} (g : α → β) (h : α → γ) : ∀ (xs : List α),
    xs.zip ((xs.map g).zip (xs.map h)) = xs.map (fun s => (s, g s, h s))
  | [] => rfl
  | s :: xs => by simp [zip_map_map g h xs]

/-- the characters of a line inside `[x, y)` are among the characters of `[x, y)` -/
theorem filter_line (xs : List Seg) (x y a b : Nat) (hx : x ≤ a) (hy : b ≤ y) :
    (xs.filter (fun s => x ≤ s.start && s.start < y)).filter (fun s => a ≤ s.start && s.start < b)
      = xs.filter (fun s => a ≤ s.start && s.start < b) := by
  rw [List.filter_filter]
  apply List.filter_congr
  intro s _
  by_cases h1 : a ≤ s.start <;> by_cases h2 : s.start < b <;> simp [h1, h2] <;> omega

/-! ### the stored triples are those of UAX #9 -/

/-- `BidiInfo::new`, one paragraph: the level of the paragraph is P2/P3's, and the characters of the
    paragraph zipped with X5c of their classes and the levels of UAX #9 are the characters with the
    stored class and level at their first code unit -/
theorem para_uax9 (ds : DataSource) (t : Text) (hwf : t.WF) (d : Option Nat)
    (hd : d = none ∨ d = some 0 ∨ d = some 1) (p : ParaInfo) (hp : p ∈ (bidiInfo ds t d).paras) :
    let rcls := (segsIn t p).map (fun s => ds.cls s.cp)
    let cls := Spec.resolveFSI rcls
    let chars := List.zipWith (fun c s => ({ cls := c, brk := ds.brk s.cp } : Spec.Ch)) cls (segsIn t p)
    p.level = Spec.paraLevel d rcls ∧
    (segsIn t p).zip (cls.zip (Spec.paragraphLevels (Spec.paraLevel d rcls) chars))
      = (segsIn t p).map (fun s =>
          (s, (bidiInfo ds t d).classes.getD s.start ON, (bidiInfo ds t d).levels.getD s.start 0)) := by
  intro rcls cls chars
  obtain ⟨e1, _, e3, e4⟩ := (Props.C01Levels.C01_bidiInfo ds t hwf d (hd_le_one hd)).2 p hp
  have hcls : cls = (segsIn t p).map (fun s => (bidiInfo ds t d).classes.getD s.start ON) := by
    show Spec.resolveFSI _ = _
    rw [← e3]
    simp [Props.C01Levels.paraChars]
  have hchars : chars = Props.C01Levels.paraChars ds t (bidiInfo ds t d).classes p := by
    show List.zipWith _ cls _ = _
    rw [hcls, zipWith_map_self]
    rfl
  refine ⟨e4, ?_⟩
  rw [hchars, ← e4, ← e1, hcls]
  exact zip_map_map _ _ _

/-- the same restricted to a line `[a, b)` inside the paragraph: keeping the triples whose character
    starts in the line gives the characters of the line with their stored class and level -/
theorem line_uax9 (ds : DataSource) (t : Text) (hwf : t.WF) (d : Option Nat)
    (hd : d = none ∨ d = some 0 ∨ d = some 1) (p : ParaInfo) (hp : p ∈ (bidiInfo ds t d).paras)
    (a b : Nat) (hpa : p.start ≤ a) (hpb : b ≤ p.stop) :
    let rcls := (segsIn t p).map (fun s => ds.cls s.cp)
    let cls := Spec.resolveFSI rcls
    let chars := List.zipWith (fun c s => ({ cls := c, brk := ds.brk s.cp } : Spec.Ch)) cls (segsIn t p)
    ((segsIn t p).zip (cls.zip (Spec.paragraphLevels (Spec.paraLevel d rcls) chars))).filter
        (fun x => a ≤ x.1.start && x.1.start < b)
      = (Lemmas.C06.lineSegs t a b).map (fun s =>
          (s, (bidiInfo ds t d).classes.getD s.start ON, (bidiInfo ds t d).levels.getD s.start 0)) := by
  intro rcls cls chars
  rw [(para_uax9 ds t hwf d hd p hp).2, List.filter_map]
  congr 1
  exact filter_line t.segs p.start p.stop a b hpa hpb

/-- `ParagraphBidiInfo::new` on a one-paragraph text (no class-B character except possibly the last) -/
theorem single_uax9 (ds : DataSource) (t : Text) (hwf : t.WF) (d : Option Nat)
    (hd : d = none ∨ d = some 0 ∨ d = some 1) (hB : ∀ c ∈ (raw ds t).dropLast, c ≠ B) :
    let cls := Spec.resolveFSI (raw ds t)
    let chars := List.zipWith (fun c s => ({ cls := c, brk := ds.brk s.cp } : Spec.Ch)) cls t.segs
    (paragraphBidiInfo ds t d).paraLevel = Spec.paraLevel d (raw ds t) ∧
    t.segs.zip (cls.zip (Spec.paragraphLevels (Spec.paraLevel d (raw ds t)) chars))
      = t.segs.map (fun s => (s, (paragraphBidiInfo ds t d).classes.getD s.start ON,
          (paragraphBidiInfo ds t d).levels.getD s.start 0)) := by
  intro cls chars
  obtain ⟨_, _, e3, e4, e5⟩ := Props.C01Levels.C01_paragraphBidiInfo ds t hwf d (hd_le_one hd) hB
  have hcls : cls = t.segs.map (fun s => (paragraphBidiInfo ds t d).classes.getD s.start ON) := by
    show Spec.resolveFSI _ = _
    rw [← e4]
    simp [Lemmas.C01Compose.charsOf]
  have hchars : chars = Lemmas.C01Compose.charsOf ds t (paragraphBidiInfo ds t d).classes := by
    show List.zipWith _ cls _ = _
    rw [hcls, zipWith_map_self]
    rfl
  refine ⟨e5, ?_⟩
  rw [hchars, ← e5, ← e3, hcls]
  exact zip_map_map _ _ _

/-- the characters of the paragraph `[0, t.len)` are all the characters of the text -/
theorem whole_segsIn (t : Text) (hwf : t.WF) :
    segsIn t { start := 0, stop := t.len, level := 0 } = t.segs := by
  unfold segsIn
  rw [List.filter_eq_self]
  intro s hs
  have h1 := (Lemmas.C03.SegsFrom_bounds hwf.tiles).2 s hs
  have h2 := Lemmas.C06.segsFrom_pos hwf.tiles s hs
  simp only [Nat.zero_le, decide_true, Bool.true_and, decide_eq_true_eq]
  omega

/-- `single_uax9` written with `segsIn` of the whole text, and restricted to a line -/
theorem single_line_uax9 (ds : DataSource) (t : Text) (hwf : t.WF) (d : Option Nat)
    (hd : d = none ∨ d = some 0 ∨ d = some 1) (hB : ∀ c ∈ (raw ds t).dropLast, c ≠ B) (a b : Nat) :
    let p : ParaInfo := { start := 0, stop := t.len, level := 0 }
    let rcls := (segsIn t p).map (fun s => ds.cls s.cp)
    let cls := Spec.resolveFSI rcls
    let chars := List.zipWith (fun c s => ({ cls := c, brk := ds.brk s.cp } : Spec.Ch)) cls (segsIn t p)
    ((segsIn t p).zip (cls.zip (Spec.paragraphLevels (Spec.paraLevel d rcls) chars))).filter
        (fun x => a ≤ x.1.start && x.1.start < b)
      = (Lemmas.C06.lineSegs t a b).map (fun s => (s, (paragraphBidiInfo ds t d).classes.getD s.start ON,
          (paragraphBidiInfo ds t d).levels.getD s.start 0)) := by
  intro p rcls cls chars
  have hw : segsIn t p = t.segs := whole_segsIn t hwf
  have := (single_uax9 ds t hwf d hd hB).2
  simp only [raw] at this
  simp only [rcls, cls, chars, hw]
  rw [this, List.filter_map]
  rfl

end UBidi.Lemmas.LinePipeline
