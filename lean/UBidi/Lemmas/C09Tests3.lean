/-
  C09 tests, part 3 (evaluation on a literal): the `Expand` hypotheses of `C09_levels_of_expand`
  (Props/C09.lean) hold for the sample text.
-/
import UBidi.Lemmas.C09Tests1
namespace UBidi.Props.C09
open UBidi UBidi.BidiClass

/-- `PbiExpand` for the sub-text of every paragraph of either text (hypotheses of `C09_levels_of_expand`) -/
theorem sample_PbiExpand_paras :
    (∀ p ∈ ([⟨0, 9, 0⟩, ⟨9, 10, 0⟩] : List ParaInfo), PbiExpand hardcoded (sample16.subrange p.start p.stop) none) ∧
    (∀ p ∈ ([⟨0, 17, 0⟩, ⟨17, 18, 0⟩] : List ParaInfo), PbiExpand hardcoded (sample8.subrange p.start p.stop) none) := by
  decide +kernel

end UBidi.Props.C09
