/-
  UBidi.Lemmas.C12UnitsMulti — for C12 ("irrespective of how many code units each character occupies"):
  two well-formed texts whose characters have, position by position, the same class and bracket values under
  their respective data sources get the same per-character levels from `ParagraphBidiInfo` (`single_levels_congr`,
  with the panic field: `single_err_congr`) and from `BidiInfo` (`multi_levels_congr`).
-/
import UBidi.Lemmas.ExpandPipelineC09
import UBidi.Lemmas.C12UnitsCanon
namespace UBidi.Lemmas.C12Units
open UBidi BidiClass UBidi.Props UBidi.Props.C09 UBidi.Lemmas.C02

/-- the hypothesis of the theorems: same class values and same bracket values, character for character -/
structure SameValues (ds ds' : DataSource) (t t' : Text) : Prop where
  cls : t.segs.map (fun s => ds.cls s.cp) = t'.segs.map (fun s => ds'.cls s.cp)
  brk : t.segs.map (fun s => ds.brk s.cp) = t'.segs.map (fun s => ds'.brk s.cp)

section
variable {ds ds' : DataSource} {t t' : Text}

theorem SameValues.raw (h : SameValues ds ds' t t') : C02.raw ds t = C02.raw ds' t' := h.cls

theorem SameValues.cps_cls (h : SameValues ds ds' t t') :
    (t.segs.map (·.cp)).map ds.cls = (t'.segs.map (·.cp)).map ds'.cls := by
  simpa [List.map_map, Function.comp_def] using h.cls

theorem SameValues.cps_brk (h : SameValues ds ds' t t') :
    (t.segs.map (·.cp)).map ds.brk = (t'.segs.map (·.cp)).map ds'.brk := by
  simpa [List.map_map, Function.comp_def] using h.brk

/-- `ParagraphBidiInfo` of the one-unit-per-character forms of the two texts: identical -/
theorem SameValues.pbi_unitize (h : SameValues ds ds' t t') (d : Option Nat) :
    paragraphBidiInfo ds (Expand.unitize t) d = paragraphBidiInfo ds' (Expand.unitize t') d := by
  rw [unitize_eq_charText, unitize_eq_charText]
  exact pbi_charText_congr ds ds' _ _ d h.cps_cls h.cps_brk

end

/-- `ParagraphBidiInfo`: the per-character levels -/
theorem single_levels_congr (ds ds' : DataSource) (t t' : Text) (hwf : t.WF) (hwf' : t'.WF)
    (d : Option Nat) (h : SameValues ds ds' t t') (x : Nat) :
    Expand.contract t (paragraphBidiInfo ds t d).levels x = Expand.contract t' (paragraphBidiInfo ds' t' d).levels x := by
  rw [pbi_contract ds t d hwf (Expand.PipelineC09.pbiExpand ds t hwf d) x,
    pbi_contract ds' t' d hwf' (Expand.PipelineC09.pbiExpand ds' t' hwf' d) x, h.pbi_unitize d]

/-- the panic field of `ParagraphBidiInfo` is that of the one-unit-per-character form -/
theorem pbi_err_unitize (ds : DataSource) (t : Text) (hwf : t.WF) (d : Option Nat) :
    (paragraphBidiInfo ds t d).err = (paragraphBidiInfo ds (Expand.unitize t) d).err := by
  have e1 : (computeInitialInfo ds t d false).err = none := C02.C02_no_panic ds t d hwf false
  have e2 : (computeInitialInfo ds (Expand.unitize t) d false).err = none :=
    C02.C02_no_panic ds _ d (unitize_WF t) false
  have hl := C02.C02_classes_length ds t d hwf false
  have hu := classes_uniformOn ds t d hwf false
  have hx := Expand.paraLevels_expand ds (computeInitialInfo ds t d false).lastLevel
    (computeInitialInfo ds t d false).lastPureLtr (computeInitialInfo ds t d false).lastHasIso t hwf _ hl hu
  show orErr (computeInitialInfo ds t d false).err (paraLevels ds _ _ _ t _).2
     = orErr (computeInitialInfo ds (Expand.unitize t) d false).err (paraLevels ds _ _ _ (Expand.unitize t) _).2
  rw [e1, e2, hx, unitize_classes ds t d hwf, unitize_level ds t d hwf, (unitize_flags ds t d).1,
    (unitize_flags ds t d).2]

theorem single_err_congr (ds ds' : DataSource) (t t' : Text) (hwf : t.WF) (hwf' : t'.WF)
    (d : Option Nat) (h : SameValues ds ds' t t') :
    (paragraphBidiInfo ds t d).err = (paragraphBidiInfo ds' t' d).err := by
  rw [pbi_err_unitize ds t hwf d, pbi_err_unitize ds' t' hwf' d, h.pbi_unitize d]

/-- every paragraph's sub-text satisfies the `Expand` instance the chunk lemma asks for -/
theorem pbiExpand_paras (ds : DataSource) (t : Text) (hwf : t.WF) (d : Option Nat) :
    ∀ p ∈ (bidiInfo ds t d).paras, PbiExpand ds (t.subrange p.start p.stop) d := by
  intro p hp
  obtain ⟨f, _, hg, _⟩ := Lemmas.C10.parasFrom_mem (Lemmas.C10.paras_good ds t hwf d).1 p hp
  exact Expand.PipelineC09.pbiExpand ds _ hg.1 d

/-- the per-character class and bracket values of the chunks (paragraphs) of the two texts coincide -/
theorem chunks_values {ds ds' : DataSource} {t t' : Text} {d d' : Option Nat} {chunks chunks' : List (List Seg)}
    (hc : Chunks ds t d chunks) (hc' : Chunks ds' t' d' chunks') (h : SameValues ds ds' t t') :
    chunks.map (fun ch => (ch.map (fun s => ds.cls s.cp), ch.map (fun s => ds.brk s.cp)))
      = chunks'.map (fun ch => (ch.map (fun s => ds'.cls s.cp), ch.map (fun s => ds'.brk s.cp))) := by
  have hA : chunks.map (fun ch => ch.map (fun s => ds.cls s.cp)) = chunks'.map (fun ch => ch.map (fun s => ds'.cls s.cp)) := by
    have := hc.classes
    rw [h.raw, ← hc'.classes] at this
    exact this
  have hB : chunks.map (fun ch => ch.map (fun s => ds.brk s.cp)) = chunks'.map (fun ch => ch.map (fun s => ds'.brk s.cp)) := by
    apply eq_of_flatten_eq
    · have := congrArg (List.map List.length) hA
      simpa [List.map_map, Function.comp_def] using this
    · rw [← List.map_flatten, ← List.map_flatten, hc.flatten, hc'.flatten]
      exact h.brk
  rw [← List.zip_map', ← List.zip_map', hA, hB]

/-- `BidiInfo`: the per-character levels -/
theorem multi_levels_congr (ds ds' : DataSource) (t t' : Text) (hwf : t.WF) (hwf' : t'.WF)
    (d : Option Nat) (h : SameValues ds ds' t t') (x : Nat) :
    Expand.contract t (bidiInfo ds t d).levels x = Expand.contract t' (bidiInfo ds' t' d).levels x := by
  obtain ⟨chunks, hc⟩ := paras_structure ds t d hwf
  obtain ⟨chunks', hc'⟩ := paras_structure ds' t' d hwf'
  rw [multi_levels_chunks hwf hc (pbiExpand_paras ds t hwf d) x,
    multi_levels_chunks hwf' hc' (pbiExpand_paras ds' t' hwf' d) x]
  have key : ∀ (dd : DataSource) (cks : List (List Seg)),
      (cks.map (·.map (·.cp))).map (fun cps => (paragraphBidiInfo dd (charText cps) d).levels)
        = (cks.map (fun ch => (ch.map (fun s => dd.cls s.cp), ch.map (fun s => dd.brk s.cp)))).map
            (fun v => (paragraphBidiInfo (dsOf v.1 v.2) (charText (List.range v.1.length)) d).levels) := by
    intro dd cks
    rw [List.map_map, List.map_map]
    apply List.map_congr_left
    intro ch _
    simp only [Function.comp]
    rw [pbi_charText_canon dd (ch.map (·.cp)) d]
    simp only [List.map_map, Function.comp_def, List.length_map]
  rw [key ds chunks, key ds' chunks', chunks_values hc hc' h]

/-- `BidiInfo` is panic-free exactly when `ParagraphBidiInfo` of the one-unit-per-character form of every
    paragraph is -/
theorem multi_err_chunks {ds : DataSource} {t : Text} {d : Option Nat} {chunks : List (List Seg)}
    (hwf : t.WF) (hc : Chunks ds t d chunks) :
    (bidiInfo ds t d).err = none ↔
      ∀ ch ∈ chunks, (paragraphBidiInfo ds (charText (ch.map (·.cp))) d).err = none := by
  have hpar : (bidiInfo ds t d).paras = chunks.map (mkPara ds d) := hc.paras
  have hone : ∀ ch ∈ chunks, (paragraphBidiInfo ds (t.subrange (mkPara ds d ch).start (mkPara ds d ch).stop) d).err
      = (paragraphBidiInfo ds (charText (ch.map (·.cp))) d).err := by
    intro ch hch
    obtain ⟨f, hw, _⟩ := chunk_good hwf hc ch hch
    have hw' : (t.subrange (chunkStart ch) (chunkStop ch)).WF := hw
    show (paragraphBidiInfo ds (t.subrange (chunkStart ch) (chunkStop ch)) d).err = _
    rw [pbi_err_unitize ds _ hw' d, unitize_eq_charText,
      chunk_subrange_cps hwf hc ch hch]
  rw [C10.C10_slice_err ds t hwf d, hpar]
  constructor
  · intro H ch hch
    rw [← hone ch hch]
    exact H _ (List.mem_map_of_mem hch)
  · intro H p hp
    obtain ⟨ch, hch, rfl⟩ := List.mem_map.1 hp
    rw [hone ch hch]
    exact H ch hch

/-- `BidiInfo`: panic-free on the one text iff panic-free on the other -/
theorem multi_err_congr (ds ds' : DataSource) (t t' : Text) (hwf : t.WF) (hwf' : t'.WF)
    (d : Option Nat) (h : SameValues ds ds' t t') :
    (bidiInfo ds t d).err = none ↔ (bidiInfo ds' t' d).err = none := by
  obtain ⟨chunks, hc⟩ := paras_structure ds t d hwf
  obtain ⟨chunks', hc'⟩ := paras_structure ds' t' d hwf'
  have key : ∀ (dd : DataSource) (cks : List (List Seg)),
      (∀ ch ∈ cks, (paragraphBidiInfo dd (charText (ch.map (·.cp))) d).err = none) ↔
      ∀ v ∈ cks.map (fun ch => (ch.map (fun s => dd.cls s.cp), ch.map (fun s => dd.brk s.cp))),
        (paragraphBidiInfo (dsOf v.1 v.2) (charText (List.range v.1.length)) d).err = none := by
    intro dd cks
    have e : ∀ ch : List Seg, (paragraphBidiInfo dd (charText (ch.map (·.cp))) d).err
        = (paragraphBidiInfo (dsOf (ch.map (fun s => dd.cls s.cp)) (ch.map (fun s => dd.brk s.cp)))
            (charText (List.range (ch.map (fun s => dd.cls s.cp)).length)) d).err := by
      intro ch
      rw [pbi_charText_canon dd (ch.map (·.cp)) d]
      simp only [List.map_map, Function.comp_def, List.length_map]
    constructor
    · intro H v hv
      obtain ⟨ch, hch, rfl⟩ := List.mem_map.1 hv
      rw [← e ch]; exact H ch hch
    · intro H ch hch
      rw [e ch]; exact H _ (List.mem_map_of_mem hch)
  rw [multi_err_chunks hwf hc, multi_err_chunks hwf' hc', key ds chunks, key ds' chunks',
    chunks_values hc hc' h]

end UBidi.Lemmas.C12Units
