/-
  UBidi.Lemmas.C03Scan — the invariant of the `reorder_levels` scan: what the rest of
  the scan does to a state, in terms of the Spec's `l1` on the remaining characters.
-/
import UBidi.Lemmas.C03Core
namespace UBidi.Lemmas.C03
open UBidi BidiClass

/-- the part of `reorder_levels` after the loop -/
def finish (pl : Nat) (st : L1State) : List Nat × Option Panic :=
  match st.resetFrom with
  | some a => (setRange st.levels a (st.levels.length - a) pl, st.err)
  | none => (st.levels, st.err)

theorem reorderLevels_eq_finish (cls : Classes) (lv : List Nat) (t : Text) (pl : Nat) :
    reorderLevels cls lv t pl
      = finish pl (t.segs.foldl (l1Step t.enc cls pl) ⟨lv, some 0, none, pl, none⟩) := rfl

/-- The final levels when the scan is resumed at unit `k` with levels `L`, pending
    reset start `rf` and previous level `prev`: the pending range `[rf, k)` is reset iff
    the rest of the line is resettable up to the next separator or the end. -/
def target (cls : Classes) (pl : Nat) (L : List Nat) (rf : Option Nat) (prev k : Nat) (rest : List Seg) :
    List Nat :=
  if Spec.trailingOk (rest.map (fun s => cls.getD s.start ON)) then
    L.take (rf.getD k) ++ (List.replicate (k - rf.getD k) pl
      ++ expandS rest (Spec.l1 pl prev (perCharS rest cls L)))
  else L.take k ++ expandS rest (Spec.l1 pl prev (perCharS rest cls L))

theorem isResettable_eq (c : BidiClass) : Spec.isResettable c = (isWsLike c || Spec.isRemovedCls c) := rfl

theorem isRemoved_of_wsLike (c : BidiClass) (h : isWsLike c = true) : Spec.isRemovedCls c = false := by
  cases c <;> first | rfl | exact absurd h (by decide)

theorem scan_eq (enc : Enc) (cls : Classes) (pl : Nat) (rest : List Seg) :
    ∀ (L : List Nat) (rf : Option Nat) (prev : Nat) (e : Option Panic) (k n : Nat),
      SegsFrom k rest n → (∀ s ∈ rest, s.len = enc.charLen s.cp) → L.length = n →
      rf.getD k ≤ k → UniformS rest L →
      finish pl (rest.foldl (l1Step enc cls pl) ⟨L, rf, none, prev, e⟩)
        = (target cls pl L rf prev k rest, e) := by
  induction rest with
  | nil =>
    intro L rf prev e k n hseg _ hlen hrf _
    have hk : k = n := hseg
    subst hk
    cases rf with
    | none =>
      simp [finish, target, Spec.trailingOk, expandS_nil, ← hlen]
    | some j =>
      simp only [Option.getD_some] at hrf
      simp only [finish, target, List.foldl_nil, List.map_nil, Spec.trailingOk, if_true, expandS_nil,
        Option.getD_some, List.append_nil]
      rw [setRange_eq_append _ _ _ _ (by omega), show j + (L.length - j) = L.length by omega]
      simp [hlen]
  | cons s rest ih =>
    intro L rf prev e k n hseg hlens hlen hrf hu
    obtain ⟨hs, hpos, hseg'⟩ := hseg
    subst hs
    have hcl : s.len = enc.charLen s.cp := hlens s (List.mem_cons_self ..)
    have hlens' : ∀ s ∈ rest, s.len = enc.charLen s.cp := fun x hx => hlens x (List.mem_cons_of_mem _ hx)
    have hb := SegsFrom_bounds hseg'
    have hkn : s.start + s.len ≤ n := hb.1
    have hstart : ∀ x ∈ rest, s.start + s.len ≤ x.start := fun x hx => (hb.2 x hx).1
    have hus : ∀ j, j < s.len → L[s.start + j]? = L[s.start]? := by
      intro j hj; exact hu s (List.mem_cons_self ..) j hj
    have hu' : UniformS rest L := fun x hx => hu x (List.mem_cons_of_mem _ hx)
    have htake := take_add_uniform L s.start s.len (by omega) hpos hus
    rw [List.foldl_cons]
    by_cases hsep : Spec.isSep (cls.getD s.start ON) = true
    · -- B / S: the pending range and the separator are reset
      rw [l1Step_sep enc cls pl L rf prev e s hsep, ← hcl]
      have hj : rf.getD s.start + (s.start + s.len - rf.getD s.start) = s.start + s.len := by omega
      have hL' := take_setRange_add L (rf.getD s.start) (s.start + s.len - rf.getD s.start) pl (by omega)
      rw [hj] at hL'
      have hagree : ∀ i, s.start + s.len ≤ i →
          (setRange L (rf.getD s.start) (s.start + s.len - rf.getD s.start) pl)[i]? = L[i]? :=
        fun i hi => getElem?_setRange_ge _ _ _ _ _ (by omega)
      rw [ih _ none _ e (s.start + s.len) n hseg' hlens' (by rw [length_setRange]; exact hlen) (by simp)
        (UniformS_congr rest L _ hstart hagree hu')]
      rw [getD_setRange_in L _ _ s.start pl 0 hrf (by omega) (by omega)]
      have htl : Spec.trailingOk ((s :: rest).map (fun s => cls.getD s.start ON)) = true := by
        simp only [List.map_cons, Spec.trailingOk, hsep, Bool.true_or]
      have hl1 : Spec.l1 pl prev (perCharS (s :: rest) cls L)
          = pl :: Spec.l1 pl pl (perCharS rest cls L) := by
        simp only [perCharS_cons, Spec.l1, hsep, Bool.true_or, if_true]
      simp only [target, htl, if_true, hl1, expandS_cons, Option.getD_none, Nat.sub_self,
        List.replicate_zero, List.nil_append, ite_self, hL',
        perCharS_congr rest cls L _ hstart hagree]
      rw [show s.start + s.len - rf.getD s.start = (s.start - rf.getD s.start) + s.len by omega, ← List.replicate_append_replicate]
      simp only [List.append_assoc]
    · have hsep' : Spec.isSep (cls.getD s.start ON) = false := by simpa using hsep
      by_cases hws : isWsLike (cls.getD s.start ON) = true
      · -- WS / isolate controls: join the pending range
        have hres : Spec.isResettable (cls.getD s.start ON) = true := by
          rw [isResettable_eq, hws]; rfl
        have hrem : Spec.isRemovedCls (cls.getD s.start ON) = false := isRemoved_of_wsLike _ hws
        rw [l1Step_ws enc cls pl L rf prev e s hws]
        rw [ih _ (some (rf.getD s.start)) _ e (s.start + s.len) n hseg' hlens' hlen (by simp; omega) hu']
        have htl : Spec.trailingOk ((s :: rest).map (fun s => cls.getD s.start ON))
            = Spec.trailingOk (rest.map (fun s => cls.getD s.start ON)) := by
          simp only [List.map_cons, Spec.trailingOk, hsep', hres, Bool.false_or, Bool.true_and]
        have hl1 : Spec.l1 pl prev (perCharS (s :: rest) cls L)
            = (if Spec.trailingOk (rest.map (fun s => cls.getD s.start ON)) then pl else L.getD s.start 0) ::
              Spec.l1 pl (if Spec.trailingOk (rest.map (fun s => cls.getD s.start ON)) then pl else L.getD s.start 0)
                (perCharS rest cls L) := by
          simp only [perCharS_cons, Spec.l1, hsep', hres, hrem, Bool.false_or, Bool.true_and,
            perCharS_fst, Bool.false_eq_true, if_false]
        simp only [target, htl, hl1, expandS_cons, Option.getD_some]
        by_cases ht : Spec.trailingOk (rest.map (fun s => cls.getD s.start ON)) = true
        · simp only [ht, if_true]
          rw [show s.start + s.len - rf.getD s.start = (s.start - rf.getD s.start) + s.len by omega, ← List.replicate_append_replicate,
            l1_indep pl (L.getD s.start 0) pl _ (by rw [perCharS_fst]; exact ht)]
          simp only [List.append_assoc]
        · simp only [ht, if_false, htake, List.append_assoc, Bool.false_eq_true]
      · have hws' : isWsLike (cls.getD s.start ON) = false := by simpa using hws
        by_cases hrem : Spec.isRemovedCls (cls.getD s.start ON) = true
        · -- X9-removed: takes `prev` on all its units and joins the pending range
          have hres : Spec.isResettable (cls.getD s.start ON) = true := by
            rw [isResettable_eq, hrem]; simp
          rw [l1Step_removed enc cls pl L rf prev e s hrem, ← hcl]
          have hagree : ∀ i, s.start + s.len ≤ i → (setRange L s.start s.len prev)[i]? = L[i]? :=
            fun i hi => getElem?_setRange_ge _ _ _ _ _ hi
          rw [ih _ (some (rf.getD s.start)) _ e (s.start + s.len) n hseg' hlens'
            (by rw [length_setRange]; exact hlen) (by simp; omega)
            (UniformS_congr rest L _ hstart hagree hu')]
          rw [getD_setRange_in L _ _ s.start prev 0 (Nat.le_refl _) (by omega) (by omega)]
          have htl : Spec.trailingOk ((s :: rest).map (fun s => cls.getD s.start ON))
              = Spec.trailingOk (rest.map (fun s => cls.getD s.start ON)) := by
            simp only [List.map_cons, Spec.trailingOk, hsep', hres, Bool.false_or, Bool.true_and]
          have hl1 : Spec.l1 pl prev (perCharS (s :: rest) cls L)
              = (if Spec.trailingOk (rest.map (fun s => cls.getD s.start ON)) then pl else prev) ::
                Spec.l1 pl (if Spec.trailingOk (rest.map (fun s => cls.getD s.start ON)) then pl else prev)
                  (perCharS rest cls L) := by
            simp only [perCharS_cons, Spec.l1, hsep', hres, hrem, Bool.false_or, Bool.true_and,
              perCharS_fst, if_true]
          simp only [target, htl, hl1, expandS_cons, Option.getD_some,
            perCharS_congr rest cls L _ hstart hagree, take_setRange_le L _ _ _ prev hrf,
            take_setRange_add L s.start s.len prev (by omega)]
          by_cases ht : Spec.trailingOk (rest.map (fun s => cls.getD s.start ON)) = true
          · simp only [ht, if_true]
            rw [show s.start + s.len - rf.getD s.start = (s.start - rf.getD s.start) + s.len by omega,
              ← List.replicate_append_replicate,
              l1_indep pl prev pl _ (by rw [perCharS_fst]; exact ht)]
            simp only [List.append_assoc]
          · simp only [ht, if_false, List.append_assoc, Bool.false_eq_true]
        · -- any other class: the pending range is dropped
          have hrem' : Spec.isRemovedCls (cls.getD s.start ON) = false := by simpa using hrem
          have hres : Spec.isResettable (cls.getD s.start ON) = false := by
            rw [isResettable_eq, hrem', hws']; rfl
          rw [l1Step_other enc cls pl L rf prev e s hsep' hres]
          rw [ih _ none _ e (s.start + s.len) n hseg' hlens' hlen (by simp) hu']
          have htl : Spec.trailingOk ((s :: rest).map (fun s => cls.getD s.start ON)) = false := by
            simp only [List.map_cons, Spec.trailingOk, hsep', hres, Bool.false_or, Bool.false_and]
          have hl1 : Spec.l1 pl prev (perCharS (s :: rest) cls L)
              = L.getD s.start 0 :: Spec.l1 pl (L.getD s.start 0) (perCharS rest cls L) := by
            simp only [perCharS_cons, Spec.l1, hsep', hres, hrem', Bool.false_or, Bool.false_and,
              Bool.false_eq_true, if_false]
          simp only [target, htl, hl1, expandS_cons, Option.getD_none, Nat.sub_self,
            List.replicate_zero, List.nil_append, ite_self, htake, List.append_assoc,
            Bool.false_eq_true, if_false]
end UBidi.Lemmas.C03
