/-
  UBidi.Lemmas.C01WeakAll — umbrella for stage lemma StageW of C01
  (`resolve_weak` = W1 … W7 of UAX #9), namespace `UBidi.Lemmas.C01Weak`.

  * `C01WeakSpec`    — W1…W6 as one head-recursive function `W` with the pass's state (`W_cons`, `LA_cons`, `w16_eq_W`), W7 (`w7_eq`)
  * `C01WeakArr`     — list forms of the array updates; the cases of one loop iteration (`weakStep_eq`, `stepW456_*`)
  * `C01Weak`        — layer 1 `stageW_simple` (single run, single-unit characters, nothing removed by X9)
  * `C01WeakMatch`   — `W_sep_ON`, the predicate `Match`
  * `C01WeakBN`, `C01WeakBN2` — layer 2 `stageW_bn` (single run with BN)
  * `C01WeakScatter`, `C01WeakRuns`, `C01WeakSeq` — layer 3 `resolveWeak_scatter`, `runsOK`, `stageW_runs` (several runs)
-/
import UBidi.Lemmas.C01WeakSeq
