/-
  C01 / StageSeq — the key fact from X1–X8 in the form the stack proof uses it: an isolate
  initiator is the last character of its level run iff its matching PDI is the first
  character of its level run (`f3_of_pairOK`).
-/
import UBidi.Lemmas.C01SeqLevels
import UBidi.Lemmas.C01SeqMatch
import UBidi.Lemmas.C13Runs
namespace UBidi.Lemmas.C01Seq
open UBidi UBidi.BidiClass UBidi.Spec
open UBidi.Props.C13

/-- an interior position is a run boundary iff the levels on its two sides differ -/
theorem boundary_iff (l1 : List Nat) (c1 c2 : Nat) (l2 : List Nat) :
    ((∃ r ∈ levelRuns (l1 ++ c1 :: c2 :: l2) 0, r.2 = l1.length + 1) ↔ c1 ≠ c2) ∧
    ((∃ r ∈ levelRuns (l1 ++ c1 :: c2 :: l2) 0, r.1 = l1.length + 1) ↔ c1 ≠ c2) := by
  obtain ⟨R0, x, b, RT, h1, h2, h3⟩ := levelRuns_join l1 c1 c2 l2 0
  simp only [Nat.zero_add] at h1 h2 h3
  have c1' := levelRuns_contig (l1 ++ [c1]) 0
  rw [h1, contig_append] at c1'
  obtain ⟨mid, ca, cb⟩ := c1'
  simp only [Contig] at cb
  obtain ⟨rfl, hx, _⟩ := cb
  have hR0 := (contig_bounds ca).2
  have c2' := levelRuns_contig (c2 :: l2) (l1.length + 1)
  rw [h2] at c2'
  simp only [Contig] at c2'
  obtain ⟨_, hb, cc⟩ := c2'
  have hRT := (contig_bounds cc).2
  rw [h3]
  by_cases hc : c1 = c2
  · subst hc
    simp only [beq_self_eq_true, if_true, ne_eq, not_true_eq_false, iff_false]
    constructor
    · rintro ⟨r, hr, hre⟩
      simp only [List.mem_append, List.mem_cons] at hr
      rcases hr with hr | rfl | hr
      · have := hR0 r hr; omega
      · simp at hre; omega
      · have := hRT r hr; omega
    · rintro ⟨r, hr, hre⟩
      simp only [List.mem_append, List.mem_cons] at hr
      rcases hr with hr | rfl | hr
      · have := hR0 r hr; omega
      · simp at hre; omega
      · have := hRT r hr; omega
  · have hc' : (c1 == c2) = false := by simpa using hc
    simp only [hc', Bool.false_eq_true, if_false, ne_eq, hc, not_false_eq_true, iff_true]
    exact ⟨⟨(x, l1.length + 1), by simp, rfl⟩, ⟨(l1.length + 1, b), by simp, rfl⟩⟩

/-- an initiator is the last character of its level run iff its matching PDI is the first
    character of its level run -/
theorem f3_of_pairOK (Z : List (BidiClass × Nat)) (hZ : PairOK Z) (q p : Nat)
    (h : (matchTable (Z.map (·.1))).getD q none = some p) :
    (∃ r ∈ levelRuns (Z.map (·.2)) 0, r.2 = q + 1) ↔ (∃ r ∈ levelRuns (Z.map (·.2)) 0, r.1 = p) := by
  obtain ⟨A, i, W, C, hdec, hA, hp, hi, hW⟩ := match_balanced _ q p h
  -- lift the decomposition to `Z`
  rw [List.append_assoc] at hdec
  obtain ⟨ZA, Z1, rfl, hZA, hZ1⟩ := List.map_eq_append_iff.1 hdec
  rw [List.cons_append] at hZ1
  obtain ⟨zi, Z2, rfl, hzi, hZ2⟩ := List.map_eq_cons_iff.1 hZ1
  obtain ⟨ZW, Z3, rfl, hZW, hZ3⟩ := List.map_eq_append_iff.1 hZ2
  obtain ⟨zp, ZC, rfl, hzp, hZC⟩ := List.map_eq_cons_iff.1 hZ3
  have hlenA : ZA.length = q := by rw [← hA, ← hZA]; simp
  have hlenW : ZW.length = W.length := by rw [← hZW]; simp
  obtain ⟨g1, g2⟩ := hZ ZA zi ZW zp ZC (by simp) (by rw [hzi]; exact hi) hzp (by rw [hZW]; exact hW)
  rcases List.eq_nil_or_concat ZW with rfl | ⟨ZW', wl, rfl⟩
  · -- empty content: the same boundary
    have hpq : p = q + 1 := by simp at hlenW; omega
    subst hpq
    have e : (ZA ++ zi :: ([] ++ zp :: ZC)).map (·.2) = ZA.map (·.2) ++ zi.2 :: zp.2 :: ZC.map (·.2) := by simp
    rw [e]
    have := boundary_iff (ZA.map (·.2)) zi.2 zp.2 (ZC.map (·.2))
    simp only [List.length_map, hlenA] at this
    rw [this.1, this.2]
  · -- non-empty content
    obtain ⟨w1, ZW'', hW1⟩ : ∃ w1 ZW'', ZW' ++ [wl] = w1 :: ZW'' := by
      cases ZW' with
      | nil => exact ⟨wl, [], rfl⟩
      | cons a t => exact ⟨a, t ++ [wl], rfl⟩
    have hw1 : w1 ∈ ZW' ++ [wl] := by rw [hW1]; simp
    have hwl : wl ∈ ZW' ++ [wl] := by simp
    have e1 : (ZA ++ zi :: (ZW'.concat wl ++ zp :: ZC)).map (·.2) =
        ZA.map (·.2) ++ zi.2 :: w1.2 :: (ZW''.map (·.2) ++ zp.2 :: ZC.map (·.2)) := by
      rw [List.concat_eq_append, hW1]; simp
    have e2 : (ZA ++ zi :: (ZW'.concat wl ++ zp :: ZC)).map (·.2) =
        (ZA.map (·.2) ++ zi.2 :: ZW'.map (·.2)) ++ wl.2 :: zp.2 :: ZC.map (·.2) := by
      rw [List.concat_eq_append]; simp
    have b1 := (boundary_iff (ZA.map (·.2)) zi.2 w1.2 (ZW''.map (·.2) ++ zp.2 :: ZC.map (·.2))).1
    have b2 := (boundary_iff (ZA.map (·.2) ++ zi.2 :: ZW'.map (·.2)) wl.2 zp.2 (ZC.map (·.2))).2
    rw [← e1] at b1
    rw [← e2] at b2
    have hl2 : (ZA.map (·.2) ++ zi.2 :: ZW'.map (·.2)).length + 1 = p := by
      simp only [List.concat_eq_append, List.length_append, List.length_singleton] at hlenW
      simp; omega
    simp only [List.length_map, hlenA] at b1
    rw [hl2] at b2
    rw [b1, b2]
    simp only [List.concat_eq_append] at g2
    rcases g2 with g | g
    · have := g w1 hw1; have := g wl hwl
      constructor <;> intro _ <;> omega
    · have := g w1 hw1; have := g wl hwl
      constructor <;> intro hh <;> exfalso <;> apply hh <;> omega

end UBidi.Lemmas.C01Seq
