/-
  UBidi.Lemmas.ExpandPipeline — the per-stage Expand lemmas composed: on a well-formed text `t`,
  `compute_bidi_info_for_para` (`paraLevels`) gives the expansion (`Expand.expand`) of what it gives on
  `unitize t` (the same characters, one code unit each): **results do not depend on how many code units
  a character occupies**.

  * `sequences_ok`            (ExpandPipelineSeqs) — the sequences meet the side conditions of the stage lemmas
  * `resolveSequences_expand` — the loop over the sequences (W1–W7, N0–N2)
  * `paraLevels_expand`       — the pipeline theorem
  * `paraLevels_uniform`      — the levels are the same at all units of a character
  * `unitize_congr`, `paraLevels_per_char` — two well-formed texts with the same scalar values get the
    same levels, character for character
-/
import UBidi.Lemmas.ExpandPipelineSeqs
import UBidi.Lemmas.C01Base
namespace UBidi.Expand
open UBidi UBidi.BidiClass UBidi.Expand.Pipeline

namespace Pipeline

/-- one iteration of the `for sequence in &sequences` loop -/
def seqStep (ds : DataSource) (t : Text) (levels : List Nat) (ocs : Classes)
    (st : Classes × Option Panic) (seq : IRSeq) : Classes × Option Panic :=
  ((resolveNeutral ds t seq levels ocs (resolveWeak (fun i => (t.charAt i).map (·.len)) seq st.1)).1,
   orErr st.2 (resolveNeutral ds t seq levels ocs (resolveWeak (fun i => (t.charAt i).map (·.len)) seq st.1)).2)

theorem resolveSequences_eq (ds : DataSource) (t : Text) (levels : List Nat) (ocs : Classes)
    (seqs : List IRSeq) (pcs : Classes) :
    resolveSequences ds t levels ocs seqs pcs = seqs.foldl (seqStep ds t levels ocs) (pcs, none) := rfl

theorem seqStep_length (ds : DataSource) (t : Text) (levels : List Nat) (ocs : Classes)
    (st : Classes × Option Panic) (seq : IRSeq) : (seqStep ds t levels ocs st seq).1.length = st.1.length := by
  simp only [seqStep, Props.C01.Base.resolveNeutral_length, Props.C01.Base.resolveWeak_length]

theorem seqStep_expand (ds : DataSource) (t : Text) (hwf : t.WF) (lv1 : List Nat) (ocs1 : List BidiClass)
    (hlv : lv1.length = t.segs.length) (hocs : ocs1.length = t.segs.length)
    (seq : IRSeq) (hok : SeqOK t.segs.length seq) (p1 : List BidiClass) (hp : p1.length = t.segs.length)
    (e : Option Panic) :
    seqStep ds t (expand t lv1) (expand t ocs1) (expand t p1, e) (mapSeq t seq)
      = (expand t (seqStep ds (unitize t) lv1 ocs1 (p1, e) seq).1,
         (seqStep ds (unitize t) lv1 ocs1 (p1, e) seq).2) := by
  unfold seqStep
  simp only []
  rw [weak_expand_unitize t hwf seq hok p1 hp,
    neutral_expand ds t hwf seq (SeqOK.toN hok) ocs1 _ lv1
      ⟨hocs, by rw [Props.C01.Base.resolveWeak_length]; exact hp, hlv⟩]

theorem fold_seqStep_expand (ds : DataSource) (t : Text) (hwf : t.WF) (lv1 : List Nat) (ocs1 : List BidiClass)
    (hlv : lv1.length = t.segs.length) (hocs : ocs1.length = t.segs.length) :
    ∀ (seqs1 : List IRSeq), (∀ s ∈ seqs1, SeqOK t.segs.length s) →
    ∀ (p1 : List BidiClass) (e : Option Panic), p1.length = t.segs.length →
      (seqs1.map (mapSeq t)).foldl (seqStep ds t (expand t lv1) (expand t ocs1)) (expand t p1, e)
        = (expand t (seqs1.foldl (seqStep ds (unitize t) lv1 ocs1) (p1, e)).1,
           (seqs1.foldl (seqStep ds (unitize t) lv1 ocs1) (p1, e)).2)
  | [], _, _, _, _ => rfl
  | seq :: seqs1, hok, p1, e, hp => by
    rw [List.map_cons, List.foldl_cons, List.foldl_cons,
      seqStep_expand ds t hwf lv1 ocs1 hlv hocs seq (hok seq List.mem_cons_self) p1 hp e]
    exact fold_seqStep_expand ds t hwf lv1 ocs1 hlv hocs seqs1
      (fun s hs => hok s (List.mem_cons_of_mem _ hs)) _ _
      (by rw [seqStep_length]; exact hp)

end Pipeline

/-- the loop over the sequences: W1–W7 and N0–N2 on the unit runs of sequences of character runs give
    the expansion of what they give per character -/
theorem resolveSequences_expand (ds : DataSource) (t : Text) (hwf : t.WF) (lv1 : List Nat)
    (ocs1 pcs1 : List BidiClass) (seqs1 : List IRSeq) (hok : ∀ s ∈ seqs1, SeqOK t.segs.length s)
    (hlv : lv1.length = t.segs.length) (hocs : ocs1.length = t.segs.length)
    (hpcs : pcs1.length = t.segs.length) :
    resolveSequences ds t (expand t lv1) (expand t ocs1) (seqs1.map (mapSeq t)) (expand t pcs1)
      = (expand t (resolveSequences ds (unitize t) lv1 ocs1 seqs1 pcs1).1,
         (resolveSequences ds (unitize t) lv1 ocs1 seqs1 pcs1).2) := by
  rw [resolveSequences_eq, resolveSequences_eq]
  exact fold_seqStep_expand ds t hwf lv1 ocs1 hlv hocs seqs1 hok pcs1 none hpcs

theorem expand_replicate {α : Type} (t : Text) (hwf : t.WF) (x : α) :
    expand t (List.replicate t.segs.length x) = List.replicate t.len x := by
  rw [List.eq_replicate_iff]
  refine ⟨(expand_uniform t hwf _ (by simp)).2, ?_⟩
  intro b hb
  unfold expand at hb
  rw [List.mem_flatMap] at hb
  obtain ⟨⟨s, y⟩, hsy, hb⟩ := hb
  have hy : y = x := List.eq_of_mem_replicate (List.of_mem_zip hsy).2
  rw [List.eq_of_mem_replicate hb, hy]

/-- **the pipeline theorem**: `compute_bidi_info_for_para` on a well-formed text, with original classes
    that are uniform within characters, gives at every code unit of every character the level (and
    overall the panic status) it gives for that character when every character occupies one code unit -/
theorem paraLevels_expand (ds : DataSource) (pl : Nat) (pure hasIso : Bool) (t : Text) (hwf : t.WF)
    (ocs : List BidiClass) (hlen : ocs.length = t.len) (hu : UniformOn t ocs) :
    paraLevels ds pl pure hasIso t ocs
      = (expand t (paraLevels ds pl pure hasIso (unitize t) (contract t ocs .ON)).1,
         (paraLevels ds pl pure hasIso (unitize t) (contract t ocs .ON)).2) := by
  unfold paraLevels
  by_cases hpure : (pl == 0 && pure) = true
  · simp only [hpure, if_true]
    rw [show (unitize t).len = t.segs.length from rfl, expand_replicate t hwf]
  · have hpure' : (pl == 0 && pure) = false := by simpa using hpure
    simp only [hpure', Bool.false_eq_true, if_false]
    have hc : (contract t ocs ON).length = t.segs.length := contract_length t ocs ON
    obtain ⟨h1, h2, _, h4⟩ := explicit_expand t hwf pl ocs hlen
    have hp := explicit_prepare_expand t hwf pl ocs hlen hu hasIso
    obtain ⟨hlv, hpc⟩ := explicit_unit_lengths t hwf pl (contract t ocs ON) hc
    have hok := sequences_ok t hwf pl (contract t ocs ON) hc hasIso
    simp only [] at h1 h2 h4 hp hok
    have hoc : ocs = expand t (contract t ocs ON) := (expand_contract t hwf ocs ON hlen hu).symm
    generalize explicitCompute (unitize t) pl (contract t ocs ON) = e1 at *
    rw [hp]
    simp only []
    rw [h1, h2, h4]
    generalize (isolatingRunSequences pl (contract t ocs ON) e1.levels e1.runs hasIso) = sq at *
    have hrs := resolveSequences_expand ds t hwf e1.levels (contract t ocs ON) e1.pcs sq.1 hok hlv hc hpc
    rw [← hoc] at hrs
    rw [hrs]
    simp only []
    have hrl : (resolveSequences ds (unitize t) e1.levels (contract t ocs ON) sq.1 e1.pcs).1.length
        = t.segs.length := by rw [Props.C01.Base.resolveSequences_length]; exact hpc
    rw [resolveLevels_expand t hwf _ e1.levels ⟨hrl, hlv⟩]
    simp only []
    have hfl := fill_expand t hwf pl (contract t ocs ON)
      (resolveLevels (resolveSequences ds (unitize t) e1.levels (contract t ocs ON) sq.1 e1.pcs).1 e1.levels).1
      ⟨hc, by rw [Props.C01.Base.resolveLevels_length, hrl, hlv, Nat.min_self]⟩
    rw [← hoc] at hfl
    rw [hfl]

/-- the per-character run has one level per character -/
theorem paraLevels_unit_length (ds : DataSource) (pl : Nat) (pure hasIso : Bool) (t : Text) (ocs1 : List BidiClass) :
    (paraLevels ds pl pure hasIso (unitize t) ocs1).1.length = t.segs.length :=
  Props.C01.Base.paraLevels_length ds pl pure hasIso (unitize t) (unitize_wf t) ocs1

/-- corollary: the stored levels of a paragraph are the same at all code units of a character -/
theorem paraLevels_uniform (ds : DataSource) (pl : Nat) (pure hasIso : Bool) (t : Text) (hwf : t.WF)
    (ocs : List BidiClass) (hlen : ocs.length = t.len) (hu : UniformOn t ocs) :
    UniformOn t (paraLevels ds pl pure hasIso t ocs).1 := by
  rw [paraLevels_expand ds pl pure hasIso t hwf ocs hlen hu]
  exact (expand_uniform t hwf _ (paraLevels_unit_length ds pl pure hasIso t _)).1

/-- `unitize` depends on the scalar values only -/
theorem unitize_congr (t t' : Text) (h : t.segs.map (·.cp) = t'.segs.map (·.cp)) : unitize t = unitize t' := by
  have hl : t.segs.length = t'.segs.length := by
    have := congrArg List.length h
    simpa using this
  have key : ∀ (l : List Seg),
      (l.zipIdx).map (fun (s, k) => ({ start := k, cp := s.cp, len := 1 } : Seg))
        = ((l.map (·.cp)).zipIdx).map (fun (c, k) => ({ start := k, cp := c, len := 1 } : Seg)) := by
    intro l
    rw [List.zipIdx_map, List.map_map]
    rfl
  unfold unitize
  rw [key t.segs, key t'.segs, h, hl]

/-- corollary, unit-length independence: two well-formed texts with the same scalar values (for
    instance the UTF-8 and the UTF-16 form of one string), given the same original class for each
    character, get the same level for each character (read at the character's first unit; by
    `paraLevels_uniform` every unit of the character carries it) and the same panic status -/
theorem paraLevels_per_char (ds : DataSource) (pl : Nat) (pure hasIso : Bool) (t t' : Text)
    (hwf : t.WF) (hwf' : t'.WF) (h : t.segs.map (·.cp) = t'.segs.map (·.cp))
    (ocs ocs' : List BidiClass) (hlen : ocs.length = t.len) (hlen' : ocs'.length = t'.len)
    (hu : UniformOn t ocs) (hu' : UniformOn t' ocs')
    (hc : contract t ocs .ON = contract t' ocs' .ON) :
    contract t (paraLevels ds pl pure hasIso t ocs).1 0 = contract t' (paraLevels ds pl pure hasIso t' ocs').1 0 ∧
    (paraLevels ds pl pure hasIso t ocs).2 = (paraLevels ds pl pure hasIso t' ocs').2 := by
  rw [paraLevels_expand ds pl pure hasIso t hwf ocs hlen hu,
    paraLevels_expand ds pl pure hasIso t' hwf' ocs' hlen' hu']
  simp only []
  rw [contract_expand t hwf _ 0 (paraLevels_unit_length ds pl pure hasIso t _),
    contract_expand t' hwf' _ 0 (paraLevels_unit_length ds pl pure hasIso t' _),
    unitize_congr t t' h, hc]
  exact ⟨rfl, rfl⟩

/-- the common per-character level vector of `paraLevels_per_char`, explicitly: both level vectors are
    expansions of it -/
theorem paraLevels_common (ds : DataSource) (pl : Nat) (pure hasIso : Bool) (t t' : Text)
    (hwf : t.WF) (hwf' : t'.WF) (h : t.segs.map (·.cp) = t'.segs.map (·.cp))
    (ocs ocs' : List BidiClass) (hlen : ocs.length = t.len) (hlen' : ocs'.length = t'.len)
    (hu : UniformOn t ocs) (hu' : UniformOn t' ocs')
    (hc : contract t ocs .ON = contract t' ocs' .ON) :
    ∃ X : List Nat, X.length = t.segs.length ∧ X.length = t'.segs.length ∧
      (paraLevels ds pl pure hasIso t ocs).1 = expand t X ∧
      (paraLevels ds pl pure hasIso t' ocs').1 = expand t' X := by
  refine ⟨(paraLevels ds pl pure hasIso (unitize t) (contract t ocs .ON)).1,
    paraLevels_unit_length ds pl pure hasIso t _, ?_, ?_, ?_⟩
  · rw [unitize_congr t t' h]; exact paraLevels_unit_length ds pl pure hasIso t' _
  · rw [paraLevels_expand ds pl pure hasIso t hwf ocs hlen hu]
  · rw [paraLevels_expand ds pl pure hasIso t' hwf' ocs' hlen' hu', unitize_congr t t' h, hc]

/-! ### non-vacuity and tests -/

namespace Pipeline

/-- `א 〈 a ◌̀ 〉 RLE 😀 1 , 2 PDF RLI é PDI` as a `&str`: 14 characters of 1, 2, 3 and 4 code units, 32 code
    units; multi-unit brackets, an embedding, an isolate -/
def exText : Text :=
  Text.ofScalars [0x5D0, 0x3008, 0x61, 0x300, 0x3009, 0x202B, 0x1F600, 0x31, 0x2C, 0x32, 0x202C, 0x2067, 0xE9, 0x2069]

/-- its classes, one per character (as the built-in tables give them) -/
def exCls : List BidiClass := [R, ON, L, NSM, ON, RLE, ON, EN, CS, EN, PDF, RLI, L, PDI]

theorem exText_wf : exText.WF := Props.C01.Base.ofScalars_WF _

/-- the hypotheses of `paraLevels_expand` / `paraLevels_uniform` hold for this text with the per-unit
    classes `expand exText exCls` -/
example : exText.WF ∧ (expand exText exCls).length = exText.len ∧ UniformOn exText (expand exText exCls) ∧
    exText.len = 32 ∧ exText.segs.length = 14 :=
  have h := expand_uniform exText exText_wf exCls (by decide)
  ⟨exText_wf, h.2, h.1, by decide, by decide⟩

/-- test (evaluation on the literal): the two sides of `paraLevels_expand` there — 32 levels per code unit,
    14 levels per character, not constant -/
example :
    paraLevels hardcoded 1 false true exText (expand exText exCls) =
      ([1, 1, 1, 1, 1, 2, 2, 2, 1, 1, 1, 1, 1, 1, 3, 3, 3, 3, 4, 4, 4, 4, 4, 4, 1, 1, 1, 4, 4, 1, 1, 1], none) ∧
    paraLevels hardcoded 1 false true (unitize exText) exCls =
      ([1, 1, 2, 2, 1, 1, 3, 4, 4, 4, 4, 1, 4, 1], none) := by decide +kernel

/-- test: the sequences `sequences_ok` speaks about, on this text (general path; one sequence of two runs) -/
example :
    (isolatingRunSequences 1 exCls (explicitCompute (unitize exText) 1 exCls).levels
      (explicitCompute (unitize exText) 1 exCls).runs true).1.map (·.runs)
      = [[(0, 6)], [(6, 11)], [(12, 13)], [(11, 12), (13, 14)]] := by decide +kernel

/-- the hypotheses of `paraLevels_per_char` hold for `exText` (32 code units) against `unitize exText`
    (14 code units): same scalar values, uniform classes, the same class for each character -/
example : exText.WF ∧ (unitize exText).WF ∧
    exText.segs.map (·.cp) = (unitize exText).segs.map (·.cp) ∧
    (expand exText exCls).length = exText.len ∧ exCls.length = (unitize exText).len ∧
    UniformOn exText (expand exText exCls) ∧ UniformOn (unitize exText) exCls ∧
    contract exText (expand exText exCls) .ON = contract (unitize exText) exCls .ON := by
  have h := expand_uniform exText exText_wf exCls (by decide)
  refine ⟨exText_wf, unitize_wf _, by decide, h.2, by decide, h.1, ?_, ?_⟩
  · unfold UniformOn; decide
  · rw [contract_expand exText exText_wf exCls .ON (by decide)]; decide

end Pipeline

end UBidi.Expand
