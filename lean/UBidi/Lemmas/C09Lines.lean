/-
  C09 helper lemmas, part 5: the line queries (`reordered_levels`, `visual_runs`, `reorder_line`).

  * `filter_range_eq_slice`, `lineSegs_slice`, `charIndexOf_line` — in a well-formed text the characters that
    start in a unit range `[a, b)` are the characters number `charIndexOf t a … charIndexOf t b - 1`;
  * `line_map_congr`, `line_data_congr` — so two texts that agree, character for character, on some
    per-character datum agree on it over lines that cover the same range of character indices;
    `reorder_congr`: hence `reorder_line` / `reordered_levels` agree (through `Lemmas.C06.Hyp`);
  * `para_level_congr` — same paragraph (as a range of characters) ⇒ same level;
  * `charAt_units`, `seg_units16`, `slice_tiles`, `result_units16` — a line of a `&[u16]` is the concatenation of
    its characters' units, the units of a character that is not an unpaired surrogate are the UTF-16 encoding
    of its scalar value, so the units of the reordered line are the encoding of its characters;
  * `findRuns_expand`, `l2RunsLoop_map`, `visualRuns_expand`, `runs_char`, `runs_congr` — `visual_runs_for_line`
    on the expansion of a per-character level vector returns the runs of that vector, character indices
    replaced by the characters' offsets; so the runs of two such lines are the same ranges of characters.
-/
import UBidi.Props.C09Levels
import UBidi.Props.C06Pipeline
import UBidi.Props.C05Pipeline
import UBidi.Props.C10Lines
namespace UBidi.Props.C09
open UBidi UBidi.BidiClass
open UBidi.Props.C02 (segsIn)

/-! ### ranges of units and ranges of character indices -/

/-- in a list sorted by a key, the entries with key in `[a, b)` are a slice: drop those with key `< a`,
    keep as many as there are further entries with key `< b` -/
theorem filter_range_eq_slice {α} (key : α → Nat) : ∀ (l : List α), l.Pairwise (fun x y => key x < key y) →
    ∀ a b, a ≤ b →
    l.filter (fun x => a ≤ key x && key x < b) =
      (l.drop (l.filter (fun x => key x < a)).length).take
        ((l.filter (fun x => key x < b)).length - (l.filter (fun x => key x < a)).length) := by
  intro l
  induction l with
  | nil => intro _ a b _; rfl
  | cons x xs ih =>
    intro hp a b hab
    obtain ⟨hx, hxs⟩ := List.pairwise_cons.1 hp
    have ih' := ih hxs a b hab
    by_cases h1 : key x < a
    · have h2 : key x < b := by omega
      have h3 : ¬ a ≤ key x := by omega
      simp only [List.filter_cons, h1, h2, h3, decide_true, decide_false, Bool.false_and, if_true,
        List.length_cons, List.drop_succ_cons, Nat.add_sub_add_right]
      simpa using ih'
    · have h3 : a ≤ key x := by omega
      have hnil : xs.filter (fun y => decide (key y < a)) = [] := by
        rw [List.filter_eq_nil_iff]
        intro y hy
        have := hx y hy
        simp only [decide_eq_true_eq]; omega
      rw [hnil] at ih'
      by_cases h2 : key x < b
      · simp only [List.filter_cons, h1, h2, h3, decide_true, decide_false, Bool.and_self, if_true,
          hnil, List.length_cons]
        simpa using ih'
      · have hnil2 : xs.filter (fun y => decide (key y < b)) = [] := by
          rw [List.filter_eq_nil_iff]
          intro y hy
          have := hx y hy
          simp only [decide_eq_true_eq]; omega
        have hnil3 : xs.filter (fun y => decide (a ≤ key y) && decide (key y < b)) = [] := by
          rw [List.filter_eq_nil_iff]
          intro y hy
          have := hx y hy
          simp only [Bool.and_eq_true, decide_eq_true_eq]; omega
        simp [h1, h2, hnil, hnil2, hnil3]

/-- the starts of the characters of a well-formed text increase -/
theorem segs_sorted (t : Text) (hwf : t.WF) : t.segs.Pairwise (fun x y => x.start < y.start) := by
  have h : ∀ (S : List Seg) (k e : Nat), SegsFrom k S e →
      (∀ s ∈ S, k ≤ s.start) ∧ S.Pairwise (fun x y => x.start < y.start) := by
    intro S
    induction S with
    | nil => intro _ _ _; simp
    | cons s ss ih =>
      intro k e h
      obtain ⟨h1, h2, h3⟩ := h
      obtain ⟨i1, i2⟩ := ih _ _ h3
      refine ⟨?_, List.pairwise_cons.2 ⟨fun y hy => by have := i1 y hy; omega, i2⟩⟩
      intro y hy
      rcases List.mem_cons.1 hy with rfl | hy
      · omega
      · have := i1 y hy; omega
  exact (h _ _ _ hwf.tiles).2

/-- the characters of the unit range `[a, b)` are the characters number `charIndexOf t a`, …,
    `charIndexOf t b - 1` of the text -/
theorem lineSegs_slice (t : Text) (hwf : t.WF) (a b : Nat) (hab : a ≤ b) :
    C06.lineSegs t a b = (t.segs.drop (charIndexOf t a)).take (charIndexOf t b - charIndexOf t a) :=
  filter_range_eq_slice (fun s : Seg => s.start) t.segs (segs_sorted t hwf) a b hab

theorem segsIn_eq_lineSegs (t : Text) (p : ParaInfo) : segsIn t p = C06.lineSegs t p.start p.stop := rfl

/-- two well-formed texts that agree on a per-character datum agree on it over lines that consist of the
    same characters -/
theorem line_map_congr {β} {t t' : Text} (hwf : t.WF) (hwf' : t'.WF) (f f' : Seg → β)
    (h : t.segs.map f = t'.segs.map f') (a b a' b' : Nat) (hab : a ≤ b) (hab' : a' ≤ b')
    (ha : charIndexOf t a = charIndexOf t' a') (hb : charIndexOf t b = charIndexOf t' b') :
    (C06.lineSegs t a b).map f = (C06.lineSegs t' a' b').map f' := by
  rw [lineSegs_slice t hwf a b hab, lineSegs_slice t' hwf' a' b' hab', List.map_take, List.map_drop,
    List.map_take, List.map_drop, h, ha, hb]

theorem charIndexOf_mono (t : Text) {a b : Nat} (h : a ≤ b) : charIndexOf t a ≤ charIndexOf t b := by
  unfold charIndexOf
  rw [← List.countP_eq_length_filter, ← List.countP_eq_length_filter]
  apply List.countP_mono_left
  intro s _ hs
  simp only [decide_eq_true_eq] at hs ⊢
  omega

/-- a boundary before another one has a smaller character index -/
theorem charIndexOf_lt (t : Text) (hwf : t.WF) {a b : Nat} (ha : t.isBoundary a = true)
    (hbb : t.isBoundary b = true) (h : a < b) : charIndexOf t a < charIndexOf t b := by
  have hb := Lemmas.LinePipeline.boundary_le t hwf b hbb
  rcases (Lemmas.C03.isBoundary_iff t a).1 ha with h0 | ⟨s, hs, h0⟩
  · omega
  · have hne : C06.lineSegs t a b ≠ [] := by
      intro he
      have : s ∈ C06.lineSegs t a b := by
        simp only [C06.lineSegs, List.mem_filter, Bool.and_eq_true, decide_eq_true_eq]
        exact ⟨hs, by omega, by omega⟩
      rw [he] at this; cases this
    rw [lineSegs_slice t hwf a b (Nat.le_of_lt h)] at hne
    by_cases hc : charIndexOf t a < charIndexOf t b
    · exact hc
    · exfalso; apply hne
      rw [show charIndexOf t b - charIndexOf t a = 0 by omega]; rfl

/-- lines that consist of the same characters are both empty or both not -/
theorem line_lt_of_charIndex {t t' : Text} (hwf : t.WF) {a b a' b' : Nat} (ha : t.isBoundary a = true)
    (hbb : t.isBoundary b = true) (hab : a < b)
    (hia : charIndexOf t a = charIndexOf t' a') (hib : charIndexOf t b = charIndexOf t' b') : a' < b' := by
  have := charIndexOf_lt t hwf ha hbb hab
  by_cases h : a' < b'
  · exact h
  · have := charIndexOf_mono t' (show b' ≤ a' by omega)
    omega

/-! ### list bookkeeping -/

theorem map_triple_congr {α α' β γ δ} (f : α → β) (g : α → γ) (h : α → δ) (f' : α' → β) (g' : α' → γ)
    (h' : α' → δ) : ∀ (l : List α) (l' : List α'), l.map f = l'.map f' → l.map g = l'.map g' →
    l.map h = l'.map h' → l.map (fun s => (f s, g s, h s)) = l'.map (fun s => (f' s, g' s, h' s))
  | [], [], _, _, _ => rfl
  | [], _ :: _, e, _, _ => by simp at e
  | _ :: _, [], e, _, _ => by simp at e
  | x :: xs, y :: ys, e1, e2, e3 => by
    simp only [List.map_cons, List.cons.injEq] at e1 e2 e3 ⊢
    exact ⟨by rw [e1.1, e2.1, e3.1], map_triple_congr f g h f' g' h' xs ys e1.2 e2.2 e3.2⟩

theorem getD_cp (l : List Seg) (k : Nat) : (l.getD k default).cp = (l.map (·.cp)).getD k 0 := by
  simp only [List.getD_eq_getElem?_getD, List.getElem?_map]
  cases l[k]? <;> rfl

/-! ### the line queries on two texts whose vectors agree character for character -/

section core
variable {t t' : Text} {classes classes' : List BidiClass} {levels levels' : List Nat} {pl a b a' b' : Nat}

/-- the scalar values and the `(class, level)` pairs of the characters of two lines that consist of the same
    characters, hence the levels of rule L1 -/
theorem line_data_congr (hwf : t.WF) (hwf' : t'.WF) (hab : a ≤ b) (hab' : a' ≤ b')
    (hcp : t.segs.map (·.cp) = t'.segs.map (·.cp))
    (hcl : t.segs.map (fun s => classes.getD s.start ON) = t'.segs.map (fun s => classes'.getD s.start ON))
    (hlv : t.segs.map (fun s => levels.getD s.start 0) = t'.segs.map (fun s => levels'.getD s.start 0))
    (hia : charIndexOf t a = charIndexOf t' a') (hib : charIndexOf t b = charIndexOf t' b') :
    (C06.lineSegs t a b).map (·.cp) = (C06.lineSegs t' a' b').map (·.cp) ∧
    C06.lineL1 t classes levels pl a b = C06.lineL1 t' classes' levels' pl a' b' := by
  refine ⟨line_map_congr hwf hwf' _ _ hcp a b a' b' hab hab' hia hib, ?_⟩
  unfold C06.lineL1
  rw [line_map_congr hwf hwf' (fun s => (classes.getD s.start ON, levels.getD s.start 0))
    (fun s => (classes'.getD s.start ON, levels'.getD s.start 0))
    (by rw [← List.zip_map', ← List.zip_map', hcl, hlv]) a b a' b' hab hab' hia hib]

/-- `reorder_line`, `reordered_levels` and the characters in the order of `visual_runs` on two such lines -/
theorem reorder_congr (h : Lemmas.C06.Hyp t classes levels pl a b) (h' : Lemmas.C06.Hyp t' classes' levels' pl a' b')
    (hcp : t.segs.map (·.cp) = t'.segs.map (·.cp))
    (hcl : t.segs.map (fun s => classes.getD s.start ON) = t'.segs.map (fun s => classes'.getD s.start ON))
    (hlv : t.segs.map (fun s => levels.getD s.start 0) = t'.segs.map (fun s => levels'.getD s.start 0))
    (hia : charIndexOf t a = charIndexOf t' a') (hib : charIndexOf t b = charIndexOf t' b') :
    C06.resultChars t a b (reorderLine t classes levels pl a b).1
      = C06.resultChars t' a' b' (reorderLine t' classes' levels' pl a' b').1 ∧
    (C06.lineSegs t a b).map (fun s => (reorderedLevels t classes levels pl a b).1.getD s.start 0)
      = (C06.lineSegs t' a' b').map (fun s => (reorderedLevels t' classes' levels' pl a' b').1.getD s.start 0) ∧
    (((visualRunsForLine (reorderedLevels t classes levels pl a b).1 a b).1).flatMap
        (Lemmas.C06.runSegs t (reorderedLevels t classes levels pl a b).1)).map (·.cp)
      = (((visualRunsForLine (reorderedLevels t' classes' levels' pl a' b').1 a' b').1).flatMap
        (Lemmas.C06.runSegs t' (reorderedLevels t' classes' levels' pl a' b').1)).map (·.cp) := by
  obtain ⟨e1, e2⟩ := line_data_congr (pl := pl) h.wf h'.wf (Nat.le_of_lt h.hab) (Nat.le_of_lt h'.hab) hcp hcl hlv hia hib
  have hfun : ∀ (T : Text) (x y : Nat), (fun k => ((C06.lineSegs T x y).getD k default).cp)
      = (fun k => ((C06.lineSegs T x y).map (·.cp)).getD k 0) := by
    intro T x y; funext k; exact getD_cp _ k
  refine ⟨?_, ?_, ?_⟩
  · rw [C06.C06_chars t h.wf classes levels pl a b h.hab h.hb h.ha h.hbb h.hc h.hl h.hul h.h126 h.hpl,
      C06.C06_chars t' h'.wf classes' levels' pl a' b' h'.hab h'.hb h'.ha h'.hbb h'.hc h'.hl h'.hul h'.h126 h'.hpl,
      hfun, hfun, e1, e2]
  · exact (Lemmas.LinePipeline.Hyp.sampled h).trans (e2.trans (Lemmas.LinePipeline.Hyp.sampled h').symm)
  · rw [h.runs_segs, h'.runs_segs, List.map_map, List.map_map]
    show (Spec.l2 (C06.lineL1 t classes levels pl a b)).map (fun k => ((C06.lineSegs t a b).getD k default).cp)
      = (Spec.l2 (C06.lineL1 t' classes' levels' pl a' b')).map (fun k => ((C06.lineSegs t' a' b').getD k default).cp)
    rw [hfun, hfun, e1, e2]

end core

/-! ### the same paragraph has the same level -/

/-- a paragraph of `BidiInfo::new` has the level P2/P3 give to its characters; so paragraphs of two texts with
    the same characters that cover the same range of characters have the same level -/
theorem para_level_congr (ds : DataSource) {t t' : Text} (hwf : t.WF) (hwf' : t'.WF) (d : Option Nat)
    (hd : d = none ∨ d = some 0 ∨ d = some 1) (hcp : t.segs.map (·.cp) = t'.segs.map (·.cp))
    (p p' : ParaInfo) (hp : p ∈ (bidiInfo ds t d).paras) (hp' : p' ∈ (bidiInfo ds t' d).paras)
    (hs : charIndexOf t p.start = charIndexOf t' p'.start) (he : charIndexOf t p.stop = charIndexOf t' p'.stop) :
    p.level = p'.level := by
  have f := (C10Lines.C10_para_facts ds t hwf d p hp).1
  have f' := (C10Lines.C10_para_facts ds t' hwf' d p' hp').1
  rw [(Lemmas.LinePipeline.para_uax9 ds t hwf d hd p hp).1, (Lemmas.LinePipeline.para_uax9 ds t' hwf' d hd p' hp').1,
    segsIn_eq_lineSegs, segsIn_eq_lineSegs]
  have hcls : t.segs.map (fun s => ds.cls s.cp) = t'.segs.map (fun s => ds.cls s.cp) := by
    have := congrArg (List.map ds.cls) hcp
    simpa [List.map_map, Function.comp_def] using this
  rw [line_map_congr hwf hwf' _ _ hcls p.start p.stop p'.start p'.stop (Nat.le_of_lt f) (Nat.le_of_lt f') hs he]

/-! ### the code units of a reordered `&[u16]` line -/

theorem encode16_combine (x y : Nat) (hx : Utf16.isHigh x = true) (hy : Utf16.isLow y = true) :
    encode16 (Utf16.combine x y) = [x, y] := by
  simp only [Utf16.isHigh, Utf16.isLow, beq_iff_eq] at hx hy
  have h1 : 55296 ≤ x ∧ x < 56320 := by omega
  have h2 : 56320 ≤ y ∧ y < 57344 := by omega
  clear hx hy
  unfold encode16 Utf16.combine
  rw [if_neg (by omega)]
  have e1 : 55296 + (65536 + (x - 55296) * 1024 + (y - 56320) - 65536) / 1024 = x := by omega
  have e2 : 56320 + (65536 + (x - 55296) * 1024 + (y - 56320) - 65536) % 1024 = y := by omega
  rw [e1, e2]

/-- the units of a character of a `&[u16]` that is not an unpaired surrogate are the UTF-16 encoding of its
    scalar value -/
theorem charAt_units (u : List Nat) (h16 : ∀ x ∈ u, x < 65536) (i c l : Nat)
    (h : Utf16.charAt u i = some (c, l)) (hns : l = 1 → Utf16.isSurrogate (u.getD i 0) = false) :
    slice u i (i + l) = encode16 c := by
  unfold Utf16.charAt at h
  cases hu : u[i]? with
  | none => simp [hu] at h
  | some x =>
    obtain ⟨hi, hxi⟩ := List.getElem?_eq_some_iff.1 hu
    have hx : u.getD i 0 = x := by simp [List.getD_eq_getElem?_getD, hu]
    have hx16 : x < 65536 := h16 x (List.mem_of_getElem? hu)
    rw [hu] at h
    simp only at h
    by_cases hs : Utf16.isSurrogate x = true
    · have lone : ∀ c' : Nat, some (c', 1) = some (c, l) → False := by
        intro c' he
        simp only [Option.some.injEq, Prod.mk.injEq] at he
        have := hns he.2.symm
        rw [hx, hs] at this
        cases this
      rw [hs] at h
      simp only [Bool.not_true, Bool.false_eq_true, if_false] at h
      by_cases h1 : (Utf16.isLow x && decide (i > 0) && Utf16.isHigh (u.getD (i - 1) 0)) = true
      · rw [if_pos h1] at h; cases h
      · rw [if_neg h1] at h
        by_cases hhi : Utf16.isHigh x = true
        · rw [if_pos hhi] at h
          cases hv : u[i + 1]? with
          | none => rw [hv] at h; exact (lone _ h).elim
          | some y =>
            rw [hv] at h
            simp only at h
            by_cases hlo : Utf16.isLow y = true
            · rw [if_pos hlo] at h
              simp only [Option.some.injEq, Prod.mk.injEq] at h
              obtain ⟨hc, hl⟩ := h
              obtain ⟨hi1, hyi⟩ := List.getElem?_eq_some_iff.1 hv
              have hy : u.getD (i + 1) 0 = y := by simp [List.getD_eq_getElem?_getD, hv]
              subst hl
              have := Lemmas.C18.slice_two u hi1
              rw [hx, hy] at this
              show Lemmas.C18.slice u i (i + 2) = _
              rw [this, ← hc, encode16_combine x y hhi hlo]
            · rw [if_neg hlo] at h; exact (lone _ h).elim
        · rw [if_neg hhi] at h; exact (lone _ h).elim
    · have hs' : Utf16.isSurrogate x = false := by simpa using hs
      rw [hs'] at h
      simp only [Bool.not_false, if_true, Option.some.injEq, Prod.mk.injEq] at h
      obtain ⟨hc, hl⟩ := h
      subst hl; subst hc
      have := Lemmas.C18.slice_one u hi
      rw [hx] at this
      show Lemmas.C18.slice u i (i + 1) = _
      rw [this, encode16, if_pos hx16]

theorem seg_units16 (u : List Nat) (h16 : ∀ x ∈ u, x < 65536) (s : Seg) (hs : s ∈ (t16 u).segs)
    (hns : s.len = 1 → Utf16.isSurrogate (u.getD s.start 0) = false) :
    slice u s.start (s.start + s.len) = encode16 s.cp :=
  charAt_units u h16 _ _ _ (Lemmas.C18.mem_iterFrom u _ _ s hs) hns

/-- a range of units tiled by characters is the concatenation of the characters' units -/
theorem slice_tiles {α} (xs : List α) : ∀ (S : List Seg) (a b : Nat), SegsFrom a S b →
    slice xs a b = S.flatMap (fun s => slice xs s.start (s.start + s.len)) := by
  intro S
  induction S with
  | nil => intro a b h; simp only [SegsFrom] at h; subst h; simp [slice]
  | cons s ss ih =>
    intro a b h
    obtain ⟨h1, h2, h3⟩ := h
    have hb := (Lemmas.C03.SegsFrom_bounds h3).1
    rw [List.flatMap_cons, ← ih _ _ h3, h1]
    unfold slice
    have e : b - a = (s.len) + (b - (a + s.len)) := by omega
    rw [e, List.take_add, List.drop_drop, Nat.add_sub_cancel_left]


/-- the code units `reorder_line` returns for a `&[u16]`: the line itself when it is returned unchanged,
    otherwise the pieces — left-to-right pieces copied, right-to-left pieces re-encoded -/
def resultUnits16 (u : List Nat) (a b : Nat) (r : Option (List Piece)) : List Nat :=
  match r with
  | none => slice u a b
  | some ps => piecesUnits16 u ps

theorem result_units16 (u : List Nat) (h16 : ∀ x ∈ u, x < 65536) {classes : List BidiClass} {levels : List Nat}
    {pl a b : Nat} (h : Lemmas.C06.Hyp (t16 u) classes levels pl a b)
    (hns : ∀ s ∈ C06.lineSegs (t16 u) a b, s.len = 1 → Utf16.isSurrogate (u.getD s.start 0) = false) :
    resultUnits16 u a b (reorderLine (t16 u) classes levels pl a b).1
      = (C06.resultChars (t16 u) a b (reorderLine (t16 u) classes levels pl a b).1).flatMap encode16 := by
  have hseg : ∀ s ∈ C06.lineSegs (t16 u) a b, slice u s.start (s.start + s.len) = encode16 s.cp := by
    intro s hs
    exact seg_units16 u h16 s (Lemmas.C06.mem_lineSegs hs).1 (hns s hs)
  have hperm := h.result_perm
  cases hr : (reorderLine (t16 u) classes levels pl a b).1 with
  | none =>
    simp only [resultUnits16, C06.resultChars]
    rw [slice_tiles u _ a b h.tiles, List.flatMap_map]
    exact Lemmas.C05.flatMap_congr' _ _ _ hseg
  | some ps =>
    rw [hr] at hperm
    simp only [resultUnits16, C06.resultChars, piecesUnits16, piecesChars, Lemmas.C06.resultSegs] at hperm ⊢
    rw [List.flatMap_assoc]
    apply Lemmas.C05.flatMap_congr'
    intro p hp
    rw [List.flatMap_map]
    apply Lemmas.C05.flatMap_congr'
    intro s hs
    have hm : s ∈ C06.lineSegs (t16 u) a b :=
      hperm.mem_iff.1 (List.mem_flatMap.2 ⟨p, hp, hs⟩)
    rw [hseg s hm]
    split <;> rfl
/-! ### the runs of `visual_runs` as ranges of character indices -/

open UBidi.Lemmas.C03 (expandS expandS_cons expandS_nil)

/-- a run with both ends relabelled -/
def mapRun (g : Nat → Nat) (r : Nat × Nat) : Nat × Nat := (g r.1, g r.2)

theorem findRuns_replicate (st rl stop : Nat) (rest : List Nat) : ∀ (n i : Nat),
    findRuns st rl i stop (List.replicate n rl ++ rest) = findRuns st rl (i + n) stop rest := by
  intro n
  induction n with
  | zero => intro i; rfl
  | succ n ih =>
    intro i
    rw [List.replicate_succ, List.cons_append, findRuns]
    simp only [bne_self_eq_false, Bool.false_eq_true, if_false]
    rw [ih (i + 1)]
    congr 1; omega

/-- the level runs of an expanded level vector are the level runs of the per-character vector, with the
    character indices replaced by the characters' offsets -/
theorem findRuns_expand (g : Nat → Nat) (stop cstop : Nat) (hstop : g cstop = stop) :
    ∀ (S : List Seg) (xs : List Nat) (k e j st cst rl : Nat),
    SegsFrom k S e → xs.length = S.length → (∀ m (hm : m < S.length), g (j + m) = S[m].start) →
    g (j + S.length) = e → g cst = st →
    findRuns st rl k stop (expandS S xs) = (findRuns cst rl j cstop xs).map (mapRun g) := by
  intro S
  induction S with
  | nil =>
    intro xs k e j st cst rl _ hx _ _ hst
    have : xs = [] := List.eq_nil_of_length_eq_zero hx
    subst this
    simp [expandS_nil, findRuns, mapRun, hst, hstop]
  | cons s S ih =>
    intro xs k e j st cst rl h hx hg hge hst
    obtain ⟨h1, h2, h3⟩ := h
    cases xs with
    | nil => simp at hx
    | cons x xs =>
      have hx' : xs.length = S.length := by simpa using hx
      have hgj : g j = k := by
        have := hg 0 (by simp)
        simpa [h1] using this
      have hg' : ∀ m (hm : m < S.length), g (j + 1 + m) = S[m].start := by
        intro m hm
        have := hg (m + 1) (by simp; omega)
        rw [show j + (m + 1) = j + 1 + m by omega] at this
        simpa using this
      have hge' : g (j + 1 + S.length) = e := by
        rw [← hge]; congr 1; simp; omega
      obtain ⟨n, hn⟩ : ∃ n, s.len = n + 1 := ⟨s.len - 1, by omega⟩
      rw [expandS_cons, hn, List.replicate_succ, List.cons_append, findRuns, findRuns]
      by_cases hne : (x != rl) = true
      · rw [if_pos hne, if_pos hne, findRuns_replicate, List.map_cons, show k + 1 + n = k + s.len by omega,
          ih xs (k + s.len) e (j + 1) k j x h3 hx' hg' hge' hgj]
        simp only [mapRun, hst, hgj]
      · rw [if_neg hne, if_neg hne]
        have hxr : x = rl := by simpa using hne
        subst hxr
        rw [findRuns_replicate, show k + 1 + n = k + s.len by omega,
          ih xs (k + s.len) e (j + 1) st cst x h3 hx' hg' hge' hst]

theorem foldl_min_replicate (y : Nat) : ∀ (n x : Nat), (List.replicate (n + 1) y).foldl min x = min x y := by
  intro n
  induction n with
  | zero => intro x; rfl
  | succ n ih =>
    intro x
    rw [List.replicate_succ, List.foldl_cons, ih]
    omega

theorem foldl_max_replicate (y : Nat) : ∀ (n x : Nat), (List.replicate (n + 1) y).foldl max x = max x y := by
  intro n
  induction n with
  | zero => intro x; rfl
  | succ n ih =>
    intro x
    rw [List.replicate_succ, List.foldl_cons, ih]
    omega

theorem foldl_expand (S : List Seg) : ∀ (xs : List Nat) (x : Nat), (∀ s ∈ S, 0 < s.len) → xs.length = S.length →
    (expandS S xs).foldl min x = xs.foldl min x ∧ (expandS S xs).foldl max x = xs.foldl max x := by
  induction S with
  | nil =>
    intro xs x _ hx
    have : xs = [] := List.eq_nil_of_length_eq_zero hx
    subst this
    simp [expandS_nil]
  | cons s S ih =>
    intro xs x hpos hx
    cases xs with
    | nil => simp at hx
    | cons y ys =>
      obtain ⟨n, hn⟩ : ∃ n, s.len = n + 1 := ⟨s.len - 1, by have := hpos s (by simp); omega⟩
      rw [expandS_cons, hn, List.foldl_append, List.foldl_append, foldl_min_replicate, foldl_max_replicate,
        List.foldl_cons, List.foldl_cons]
      exact
        ⟨(ih ys (min x y) (fun t ht => hpos t (by simp [ht])) (by simpa using hx)).1,
         (ih ys (max x y) (fun t ht => hpos t (by simp [ht])) (by simpa using hx)).2⟩


theorem revGroups_map (lv lv' : List Nat) (g : Nat → Nat) (maxL : Nat) (runs : List (Nat × Nat))
    (hr : ∀ r ∈ runs, lv.getD (g r.1) 0 = lv'.getD r.1 0) :
    revGroups (fun r => decide (lv.getD r.1 0 ≥ maxL)) [] (runs.map (mapRun g))
      = (revGroups (fun r => decide (lv'.getD r.1 0 ≥ maxL)) [] runs).map (mapRun g) := by
  rw [Lemmas.C05.revGroups_eq, Lemmas.C05.revGroups_eq,
    Lemmas.C10Lines.revG_congr' (fun r => decide (lv'.getD r.1 0 ≥ maxL))
      (fun r => decide (lv.getD (mapRun g r).1 0 ≥ maxL)) [] runs
      (fun r hx => by
        have := hr r hx
        show decide (lv'.getD r.1 0 ≥ maxL) = decide (lv.getD (g r.1) 0 ≥ maxL)
        simp only [this])]
  exact (Lemmas.C05.revG_map _ _ (mapRun g) (fun _ => rfl) [] runs).symm

theorem l2RunsLoop_map (lv lv' : List Nat) (g : Nat → Nat) (minL : Nat) : ∀ (fuel maxL : Nat) (runs : List (Nat × Nat)),
    (∀ r ∈ runs, lv.getD (g r.1) 0 = lv'.getD r.1 0) →
    l2RunsLoop lv minL fuel maxL (runs.map (mapRun g))
      = ((l2RunsLoop lv' minL fuel maxL runs).1.map (mapRun g), (l2RunsLoop lv' minL fuel maxL runs).2) := by
  intro fuel
  induction fuel with
  | zero => intro maxL runs _; rfl
  | succ fuel ih =>
    intro maxL runs hr
    unfold l2RunsLoop
    by_cases hm : maxL ≥ minL
    · simp only [hm, if_true]
      rw [revGroups_map lv lv' g maxL runs hr]
      cases hl : Level.lower maxL 1 with
      | none => rfl
      | some m =>
        simp only []
        exact ih m _ (fun r h => hr r (Lemmas.C10Lines.revGroups_mem _ _ _ h))
    · simp only [hm, if_false]

theorem slice_succ {α} (xs : List α) (a b : Nat) : slice xs (a + 1) b = (slice xs a b).drop 1 := by
  unfold slice
  rw [List.drop_take, List.drop_drop]
  congr 1 <;> omega

/-- `visual_runs_for_line` on a level vector that, on the line, is the expansion of a per-character vector:
    the runs of the per-character vector, the character indices replaced by the characters' offsets -/
theorem visualRuns_expand (lv X : List Nat) (g : Nat → Nat) (S : List Seg) (xs : List Nat) (a b j : Nat)
    (hab : a < b) (hS : SegsFrom a S b) (hxs : xs.length = S.length)
    (hlv : slice lv a b = expandS S xs) (hX : slice X j (j + S.length) = xs)
    (hg : ∀ m (hm : m < S.length), g (j + m) = S[m].start) (hge : g (j + S.length) = b) :
    visualRunsForLine lv a b
      = ((visualRunsForLine X j (j + S.length)).1.map (mapRun g), (visualRunsForLine X j (j + S.length)).2) := by
  cases S with
  | nil => simp only [SegsFrom] at hS; omega
  | cons s S' =>
    cases xs with
    | nil => simp at hxs
    | cons x xs' =>
      obtain ⟨h1, h2, h3⟩ := hS
      have hxs' : xs'.length = S'.length := by simpa using hxs
      obtain ⟨n, hn⟩ : ∃ n, s.len = n + 1 := ⟨s.len - 1, by omega⟩
      have hE : expandS (s :: S') (x :: xs') = x :: (List.replicate n x ++ expandS S' xs') := by
        rw [expandS_cons, hn, List.replicate_succ, List.cons_append]
      have h0 : lv[a]? = some x := by
        have := congrArg (fun l => l[0]?) hlv
        simp only [Lemmas.C03.getElem?_slice, hE, List.getElem?_cons_zero] at this
        rw [if_pos (by omega)] at this
        simpa using this
      have h0' : X[j]? = some x := by
        have := congrArg (fun l => l[0]?) hX
        simp only [Lemmas.C03.getElem?_slice, List.getElem?_cons_zero, List.length_cons] at this
        rw [if_pos (by omega)] at this
        simpa using this
      have hsl : slice lv (a + 1) b = List.replicate n x ++ expandS S' xs' := by
        rw [slice_succ, hlv, hE]; rfl
      have hsl' : slice X (j + 1) (j + (s :: S').length) = xs' := by
        rw [slice_succ, hX]; rfl
      have hgj : g j = a := by
        have := hg 0 (by simp)
        simpa [h1] using this
      have hg' : ∀ m (hm : m < S'.length), g (j + 1 + m) = S'[m].start := by
        intro m hm
        have := hg (m + 1) (by simp; omega)
        rw [show j + (m + 1) = j + 1 + m by omega] at this
        simpa using this
      have hge' : g (j + 1 + S'.length) = b := by
        rw [← hge]; congr 1; simp; omega
      have hruns : findRuns a x (a + 1) b (List.replicate n x ++ expandS S' xs')
          = (findRuns j x (j + 1) (j + (s :: S').length) xs').map (mapRun g) := by
        rw [findRuns_replicate, show a + 1 + n = a + s.len by omega]
        exact findRuns_expand g b _ hge S' xs' (a + s.len) b (j + 1) a j x h3 hxs' hg' hge' hgj
      have hpos : ∀ t ∈ s :: S', 0 < t.len := Lemmas.C06.segsFrom_pos (k := a) (e := b) ⟨h1, h2, h3⟩
      obtain ⟨hmin, hmax⟩ := foldl_expand (s :: S') (x :: xs') x hpos hxs
      have hb : ∀ r ∈ findRuns j x (j + 1) (j + (s :: S').length) xs', lv.getD (g r.1) 0 = X.getD r.1 0 := by
        intro r hr
        have hbd := (Lemmas.C10Lines.findRuns_bounds _ _ _ _ _ r hr).1
        obtain ⟨m, hm, hrm⟩ : ∃ m, m < (s :: S').length ∧ r.1 = j + m := by
          have hl : (s :: S').length = xs'.length + 1 := by simp [hxs']
          exact ⟨r.1 - j, by omega, by omega⟩
        rw [hrm, hg m hm]
        have e1 := Lemmas.C06.expandS_get (s :: S') (x :: xs') a b ⟨h1, h2, h3⟩ hxs m hm 0
          (hpos _ (List.getElem_mem hm))
        have hbd2 := (Lemmas.C03.SegsFrom_bounds (k := a) (n := b) (segs := s :: S') ⟨h1, h2, h3⟩).2 _ (List.getElem_mem hm)
        have hpm := hpos _ (List.getElem_mem hm)
        rw [← hlv, Lemmas.C03.getElem?_slice, if_pos (by omega), Nat.add_zero,
          show a + ((s :: S')[m].start - a) = (s :: S')[m].start by omega] at e1
        have e2 : X[j + m]? = (x :: xs')[m]? := by
          rw [← hX, Lemmas.C03.getElem?_slice, if_pos (by omega)]
        rw [List.getD_eq_getElem?_getD, List.getD_eq_getElem?_getD, e1, e2]
      unfold visualRunsForLine
      rw [h0, h0']
      simp only [hsl, hsl', hlv, hX, hmin, hmax]
      cases hm : Level.newLowestGeRtl ((x :: xs').foldl min x) with
      | none => simp only [hruns]
      | some m =>
        simp only [hruns]
        exact l2RunsLoop_map lv X g m _ _ _ hb


/-- offset of the `m`-th character of a tiling of `[a, b)`; `b` past the last one -/
def offOf (S : List Seg) (b : Nat) (m : Nat) : Nat := if h : m < S.length then S[m].start else b

theorem expandS_shift (a : Nat) : ∀ (S : List Seg) (xs : List Nat),
    expandS (Lemmas.C06.shiftSegs a S) xs = expandS S xs
  | [], xs => by simp [Lemmas.C06.shiftSegs, expandS_nil]
  | s :: ss, [] => by simp [Lemmas.C06.shiftSegs, expandS]
  | s :: ss, x :: xs => by
    have := expandS_shift a ss xs
    simp only [Lemmas.C06.shiftSegs, List.map_cons, expandS_cons] at this ⊢
    rw [this]

/-- the character with index `charIndexOf t a + m` is the `m`-th character of a line that starts at `a` -/
theorem charIndexOf_line (t : Text) (hwf : t.WF) (a b : Nat) (hab : a ≤ b) :
    (C06.lineSegs t a b).length = charIndexOf t b - charIndexOf t a ∧
    ∀ m (hm : m < (C06.lineSegs t a b).length),
      charIndexOf t ((C06.lineSegs t a b)[m]).start = charIndexOf t a + m := by
  have hle : charIndexOf t b ≤ t.segs.length := List.length_filter_le _ _
  have hmono := charIndexOf_mono t hab
  have hlen : (C06.lineSegs t a b).length = charIndexOf t b - charIndexOf t a := by
    rw [lineSegs_slice t hwf a b hab, List.length_take, List.length_drop]; omega
  refine ⟨hlen, ?_⟩
  intro m hm
  have hk : charIndexOf t a + m < t.segs.length := by omega
  have : (C06.lineSegs t a b)[m] = t.segs[charIndexOf t a + m] := by
    have e := lineSegs_slice t hwf a b hab
    rw [List.getElem_of_eq e hm, List.getElem_take, List.getElem_drop]
  rw [this, charIndexOf_start t hwf _ hk]

/-- the runs of `visual_runs` as ranges of character indices: the runs of the per-character line levels -/
theorem runs_char {t : Text} {classes : List BidiClass} {levels : List Nat} {pl a b : Nat}
    (h : Lemmas.C06.Hyp t classes levels pl a b) :
    (visualRunsForLine (reorderedLevels t classes levels pl a b).1 a b).1.map (mapRun (charIndexOf t))
      = (visualRunsForLine (C06.lineL1 t classes levels pl a b) 0
          (C06.lineL1 t classes levels pl a b).length).1.map (mapRun (· + charIndexOf t a)) := by
  have hn : (C06.lineL1 t classes levels pl a b).length = (C06.lineSegs t a b).length :=
    Lemmas.C06.lineL1_length t classes levels pl a b
  have hlv : slice (reorderedLevels t classes levels pl a b).1 a b
      = expandS (C06.lineSegs t a b) (C06.lineL1 t classes levels pl a b) := by
    rw [Lemmas.LinePipeline.Hyp.slice_line h, ← expandS_shift a]
    rfl
  have hX : slice (C06.lineL1 t classes levels pl a b) 0 (0 + (C06.lineSegs t a b).length)
      = C06.lineL1 t classes levels pl a b := by
    simp [slice, ← hn]
  have key := visualRuns_expand (reorderedLevels t classes levels pl a b).1 (C06.lineL1 t classes levels pl a b)
    (offOf (C06.lineSegs t a b) b) (C06.lineSegs t a b) (C06.lineL1 t classes levels pl a b) a b 0
    h.hab h.tiles hn hlv hX
    (by intro m hm; simp [offOf, hm]) (by simp [offOf])
  rw [key, Nat.zero_add, ← hn]
  simp only [List.map_map]
  apply List.map_congr_left
  intro r hr
  obtain ⟨hlen, hci⟩ := charIndexOf_line t h.wf a b (Nat.le_of_lt h.hab)
  have hpos : 0 < (C06.lineL1 t classes levels pl a b).length := by
    rw [hn, hlen]
    have := charIndexOf_lt t h.wf h.ha h.hbb h.hab
    omega
  have hbd := Lemmas.C10Lines.visualRuns_bounds _ 0 _ hpos (Nat.le_refl _) r hr
  have hoff : ∀ m, m ≤ (C06.lineSegs t a b).length →
      charIndexOf t (offOf (C06.lineSegs t a b) b m) = m + charIndexOf t a := by
    intro m hm
    unfold offOf
    by_cases hlt : m < (C06.lineSegs t a b).length
    · rw [dif_pos hlt, hci m hlt]; omega
    · rw [dif_neg hlt]
      have := charIndexOf_mono t (Nat.le_of_lt h.hab)
      omega
  simp only [Function.comp, mapRun]
  rw [hoff r.1 (by omega), hoff r.2 (by omega)]


/-- the runs of `visual_runs` on two lines that consist of the same characters, with the same per-character
    classes and levels, are the same ranges of character indices, in the same order -/
theorem runs_congr {t t' : Text} {classes classes' : List BidiClass} {levels levels' : List Nat} {pl a b a' b' : Nat}
    (h : Lemmas.C06.Hyp t classes levels pl a b) (h' : Lemmas.C06.Hyp t' classes' levels' pl a' b')
    (hcp : t.segs.map (·.cp) = t'.segs.map (·.cp))
    (hcl : t.segs.map (fun s => classes.getD s.start ON) = t'.segs.map (fun s => classes'.getD s.start ON))
    (hlv : t.segs.map (fun s => levels.getD s.start 0) = t'.segs.map (fun s => levels'.getD s.start 0))
    (hia : charIndexOf t a = charIndexOf t' a') (hib : charIndexOf t b = charIndexOf t' b') :
    (visualRunsForLine (reorderedLevels t classes levels pl a b).1 a b).1.map (mapRun (charIndexOf t))
      = (visualRunsForLine (reorderedLevels t' classes' levels' pl a' b').1 a' b').1.map (mapRun (charIndexOf t')) := by
  rw [runs_char h, runs_char h',
    (line_data_congr (pl := pl) h.wf h'.wf (Nat.le_of_lt h.hab) (Nat.le_of_lt h'.hab) hcp hcl hlv hia hib).2, hia]

end UBidi.Props.C09
