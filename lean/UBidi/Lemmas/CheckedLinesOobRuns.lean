/-
  UBidi.Lemmas.CheckedLinesOobRuns — no out-of-bounds flag, part 2: `visual_runs_for_line` /
  `deprecated::visual_runs`, `reorder_visual`, `reorder_line`, `Paragraph::direction`, `Paragraph::level_at`.
  Lemmas only.
-/
import UBidi.Lemmas.CheckedLinesOob
import UBidi.Lemmas.C04Pass
import UBidi.Props.C05
namespace UBidi.Checked
open UBidi UBidi.BidiClass

/-! ### `runs[seq_start..seq_end].reverse()` -/

theorem revRangeC_oob {α : Type} (xs : List α) (x y : Nat) (h1 : x ≤ y) (h2 : y ≤ xs.length) :
    (revRangeC xs x y).oob = false := by
  simp only [revRangeC, oob_bind, oob_pure, Bool.or_false]
  rw [takeC_oob (by omega), sliceC_oob h1 h2, dropC_oob h2]
  rfl

theorem getD_mem {α : Type} (xs : List α) (i : Nat) (d : α) (h : i < xs.length) : xs.getD i d ∈ xs := by
  rw [List.getD_eq_getElem?_getD, List.getElem?_eq_getElem h]
  exact List.getElem_mem h

/-! ### `visual_runs_for_line` -/

/-- every run starts inside the level vector -/
def RunsOK (levels : List Nat) (runs : List (Nat × Nat)) : Prop := ∀ r ∈ runs, r.1 < levels.length

theorem RunsOK.perm {levels : List Nat} {runs runs' : List (Nat × Nat)} (h : RunsOK levels runs)
    (hp : runs'.Perm runs) : RunsOK levels runs' := fun r hr => h r (hp.subset hr)

theorem seqEndC_oob (levels : List Nat) (runs : List (Nat × Nat)) (maxL : Nat) (h : RunsOK levels runs) :
    ∀ (fuel e : Nat), (seqEndC levels runs maxL fuel e).oob = false
  | 0, _ => rfl
  | fuel + 1, e => by
    simp only [seqEndC]
    split
    · rename_i he
      simp only [oob_bind, rd_val, rd_oob (0, 0) he, rd_oob 0 (h _ (getD_mem runs e (0, 0) he)), Bool.false_or]
      split
      · rfl
      · exact seqEndC_oob levels runs maxL h fuel (e + 1)
    · rfl

theorem seqEndC_bounds (levels : List Nat) (runs : List (Nat × Nat)) (maxL : Nat) :
    ∀ (fuel e : Nat), e ≤ runs.length →
      e ≤ (seqEndC levels runs maxL fuel e).val ∧ (seqEndC levels runs maxL fuel e).val ≤ runs.length
  | 0, e, h => ⟨Nat.le_refl _, h⟩
  | fuel + 1, e, h => by
    simp only [seqEndC]
    split
    · simp only [val_bind]
      split
      · exact ⟨Nat.le_refl _, h⟩
      · have := seqEndC_bounds levels runs maxL fuel (e + 1) (by omega)
        exact ⟨by omega, this.2⟩
    · exact ⟨Nat.le_refl _, h⟩

theorem l2PassC_oob (levels : List Nat) (maxL : Nat) : ∀ (fuel s : Nat) (runs : List (Nat × Nat)),
    RunsOK levels runs → (l2PassC levels maxL fuel s runs).oob = false
  | 0, _, _, _ => rfl
  | fuel + 1, s, runs, h => by
    simp only [l2PassC]
    split
    · rename_i hs
      simp only [oob_bind, rd_val, rd_oob (0, 0) hs, rd_oob 0 (h _ (getD_mem runs s (0, 0) hs)), Bool.false_or]
      split
      · exact l2PassC_oob levels maxL fuel (s + 1) runs h
      · obtain ⟨b1, b2⟩ := seqEndC_bounds levels runs maxL runs.length (s + 1) (by omega)
        simp only [oob_bind, seqEndC_oob levels runs maxL h, Bool.false_or, revRangeC_val,
          revRangeC_oob runs s _ (by omega) b2]
        exact l2PassC_oob levels maxL fuel _ _ (h.perm (Lemmas.C04.reverseRange_perm runs s _ (by omega)))
    · rfl

theorem revGroups_perm (p : Nat × Nat → Bool) (runs : List (Nat × Nat)) : (revGroups p [] runs).Perm runs := by
  rw [Lemmas.C05.revGroups_eq]
  simpa using Lemmas.C05.revG_perm p [] runs

theorem l2RunsLoopC_oob (levels : List Nat) (minL : Nat) : ∀ (fuel maxL : Nat) (runs : List (Nat × Nat)),
    RunsOK levels runs → (l2RunsLoopC levels minL fuel maxL runs).oob = false
  | 0, _, _, _ => rfl
  | fuel + 1, maxL, runs, h => by
    simp only [l2RunsLoopC]
    split
    · simp only [oob_bind, l2PassC_oob levels maxL _ _ runs h, Bool.false_or, l2PassC_val_all]
      cases Level.lower maxL 1 with
      | none => rfl
      | some m => exact l2RunsLoopC_oob levels minL fuel m _ (h.perm (revGroups_perm _ runs))
    · rfl

theorem l2RunsLoop_perm (levels : List Nat) (minL : Nat) : ∀ (fuel maxL : Nat) (runs : List (Nat × Nat)),
    (l2RunsLoop levels minL fuel maxL runs).1.Perm runs
  | 0, _, _ => List.Perm.refl _
  | fuel + 1, maxL, runs => by
    simp only [l2RunsLoop]
    split
    · cases Level.lower maxL 1 with
      | none => exact revGroups_perm _ runs
      | some m => exact (l2RunsLoop_perm levels minL fuel m _).trans (revGroups_perm _ runs)
    · exact List.Perm.refl _

/-- the runs of a non-empty line inside the level vector lie inside the line (in whatever order) -/
theorem visualRuns_bounds (levels : List Nat) (a b : Nat) (hab : a < b) (hb : b ≤ levels.length) :
    ∀ r ∈ (visualRunsForLine levels a b).1, a ≤ r.1 ∧ r.1 < r.2 ∧ r.2 ≤ b := by
  have ha : a < levels.length := by omega
  have hl : levels[a]? = some (levels.getD a 0) := by
    simp [List.getD_eq_getElem?_getD, List.getElem?_eq_getElem ha]
  have ht := (Props.C05.logicalRuns_spec levels a b hab hb).1
  have hbd := (Props.C05.tiles_bounds _ _ _ ht).2
  have hperm : (visualRunsForLine levels a b).1.Perm (Props.C05.logicalRuns levels a b) := by
    unfold visualRunsForLine
    rw [hl]
    simp only
    split
    · exact List.Perm.refl _
    · exact l2RunsLoop_perm _ _ _ _ _
  intro r hr
  exact hbd r (hperm.subset hr)

/-- `visual_runs_for_line` / `deprecated::visual_runs` on a non-empty line inside the level vector -/
theorem visualRunsForLineC_oob (levels : List Nat) (a b : Nat) (hab : a < b) (hb : b ≤ levels.length) :
    (visualRunsForLineC levels a b).oob = false := by
  have ha : a < levels.length := by omega
  have ht := (Props.C05.logicalRuns_spec levels a b hab hb).1
  have hbd := (Props.C05.tiles_bounds _ _ _ ht).2
  have hok : RunsOK levels (Props.C05.logicalRuns levels a b) := fun r hr => by
    have := hbd r hr; omega
  simp only [visualRunsForLineC, oob_bind, rdOpt_oob ha, Bool.false_or, rdOpt_val, iterRange_eq]
  rw [List.getElem?_eq_getElem ha]
  simp only
  have hg : levels[a] = levels.getD a 0 := by
    simp [List.getD_eq_getElem?_getD, List.getElem?_eq_getElem ha]
  rw [hg]
  split
  · rfl
  · exact l2RunsLoopC_oob levels _ _ _ _ hok

/-! ### `reorder_visual` -/

theorem skipBelow_le (levels : List Nat) (k : Nat) : ∀ (fuel i : Nat), i ≤ levels.length →
    skipBelow levels k fuel i ≤ levels.length
  | 0, _, h => h
  | fuel + 1, i, h => by
    unfold skipBelow
    split
    · rename_i l hl
      split
      · exact h
      · exact skipBelow_le levels k fuel (i + 1) (by
          have := (List.getElem?_eq_some_iff.1 hl).1; omega)
    · exact h

theorem skipAtLeast_le (levels : List Nat) (k : Nat) : ∀ (fuel i : Nat), i ≤ levels.length →
    skipAtLeast levels k fuel i ≤ levels.length
  | 0, _, h => h
  | fuel + 1, i, h => by
    unfold skipAtLeast
    split
    · rename_i l hl
      split
      · exact h
      · exact skipAtLeast_le levels k fuel (i + 1) (by
          have := (List.getElem?_eq_some_iff.1 hl).1; omega)
    · exact h

theorem nextRange_snd_le (levels : List Nat) (pos k : Nat) (h : pos ≤ levels.length) :
    (nextRange levels pos k).2 ≤ levels.length := by
  unfold nextRange
  split
  · exact h
  · have hs := skipBelow_le levels k levels.length pos h
    simp only
    split
    · exact hs
    · rename_i hn
      apply skipAtLeast_le
      cases hg : levels[skipBelow levels k levels.length pos]? with
      | none => simp [hg] at hn
      | some l => have := (List.getElem?_eq_some_iff.1 hg).1; omega

theorem rvPassC_oob (levels : List Nat) (k : Nat) : ∀ (fuel pos : Nat) (result : List Nat),
    pos ≤ levels.length → result.length = levels.length → (rvPassC levels k fuel pos result).oob = false
  | 0, _, _, _, _ => rfl
  | fuel + 1, pos, result, hp, hr => by
    have h1 := Lemmas.C04.nextRange_le levels pos k
    have h2 := nextRange_snd_le levels pos k hp
    simp only [rvPassC, nextRangeC_eq, oob_bind, revRangeC_val,
      revRangeC_oob result _ _ h1 (by rw [hr]; exact h2), Bool.false_or]
    split
    · rfl
    · exact rvPassC_oob levels k fuel _ _ h2
        (by rw [Lemmas.C04.length_reverseRange result _ _ h1 (by rw [hr]; exact h2)]; exact hr)

theorem rvLoopC_oob (levels : List Nat) (minL : Nat) : ∀ (fuel maxL : Nat) (result : List Nat),
    result.length = levels.length → (rvLoopC levels minL fuel maxL result).oob = false
  | 0, _, _, _ => rfl
  | fuel + 1, maxL, result, hr => by
    simp only [rvLoopC]
    split
    · simp only [oob_bind, rvPassC_oob levels maxL _ 0 result (Nat.zero_le _) hr, Bool.false_or, rvPassC_val]
      cases Level.lower maxL 1 with
      | none => rfl
      | some m =>
        exact rvLoopC_oob levels minL fuel m _
          (by rw [(Lemmas.C04.rvPass_perm levels maxL _ 0 result).length_eq]; exact hr)
    · rfl

/-- `reorder_visual` on ANY level list: no out-of-bounds flag (no hypothesis at all) -/
theorem reorderVisualC_oob (levels : List Nat) : (reorderVisualC levels).oob = false := by
  cases levels with
  | nil => rfl
  | cons l0 ls =>
    simp only [reorderVisualC, List.isEmpty_cons, Bool.false_eq_true, if_false, oob_bind, rd_val,
      rd_oob 0 (show 0 < (l0 :: ls).length by simp), Bool.false_or]
    split
    · rfl
    · split
      · rfl
      · exact rvLoopC_oob _ _ _ _ _ (by simp)

/-! ### `reorder_line` -/

theorem allLtrC_oob (levels : List Nat) : ∀ (runs : List (Nat × Nat)), RunsOK levels runs →
    (allLtrC levels runs).oob = false
  | [], _ => rfl
  | r :: rs, h => by
    simp only [allLtrC, oob_bind, rd_val, rd_oob 0 (h r (by simp)), Bool.false_or]
    split
    · exact allLtrC_oob levels rs (fun x hx => h x (by simp [hx]))
    · rfl

theorem pieceC_oob (t : Text) (levels : List Nat) (r : Nat × Nat) (h1 : r.1 < levels.length)
    (h2 : r.1 ≤ r.2) (h3 : r.2 ≤ t.len) : (pieceC t levels r).oob = false := by
  simp only [pieceC, oob_bind, oob_pure, rd_oob 0 h1, slc_oob h2 h3, Bool.or_self]

/-- the free function `reorder_line`: every run starts inside the level vector and is a range of the text -/
theorem reorderLinePiecesC_oob (t : Text) (a b : Nat) (levels : List Nat) (runs : List (Nat × Nat))
    (hab : a ≤ b) (hb : b ≤ t.len)
    (hr : ∀ r ∈ runs, r.1 < levels.length ∧ r.1 ≤ r.2 ∧ r.2 ≤ t.len) :
    (reorderLinePiecesC t a b levels runs).oob = false := by
  simp only [reorderLinePiecesC, oob_bind, allLtrC_oob levels runs (fun r h => (hr r h).1), Bool.false_or]
  split
  · simp only [oob_bind, oob_pure, slc_oob hab hb, Bool.or_self]
  · simp only [oob_bind, oob_pure, Bool.or_false]
    exact mapC_oob _ _ (fun r h => pieceC_oob t levels r (hr r h).1 (hr r h).2.1 (hr r h).2.2)

/-- `reorder_line(line)`: a non-empty line inside a well-formed text, on character boundaries, one class
    and one level per code unit (nothing is needed about the VALUES of the levels) -/
theorem reorderLineC_oob (t : Text) (hwf : t.WF) (classes : Classes) (levels : List Nat) (pl a b : Nat)
    (hab : a < b) (hb : b ≤ t.len) (ha : t.isBoundary a = true) (hbb : t.isBoundary b = true)
    (hc : classes.length = t.len) (hl : levels.length = t.len) :
    (reorderLineC t classes levels pl a b).oob = false := by
  have hlen : (reorderedLevels t classes levels pl a b).1.length = levels.length :=
    (Props.C03.C03_outside t classes levels pl a b).1
  unfold reorderLineC
  split
  · rfl
  · simp only [oob_bind, sliceC_val, sliceC_oob (Nat.le_of_lt hab) (show b ≤ levels.length by omega), Bool.false_or]
    split
    · simp only [oob_bind, oob_pure, slc_oob (Nat.le_of_lt hab) hb, Bool.or_self]
    · simp only [oob_bind, reorderedLevelsC_val,
        reorderedLevelsC_oob t hwf classes levels pl a b (Nat.le_of_lt hab) hb ha hbb hc hl, Bool.false_or]
      split
      · rfl
      · simp only [oob_bind, visualRunsForLineC_val,
          visualRunsForLineC_oob _ a b hab (by rw [hlen, hl]; exact hb), Bool.false_or]
        split
        · rfl
        · apply reorderLinePiecesC_oob t a b _ _ (Nat.le_of_lt hab) hb
          intro r hr
          have := visualRuns_bounds _ a b hab (by rw [hlen, hl]; exact hb) r hr
          rw [hlen, hl]
          omega

/-! ### the summary queries -/

theorem paraDirectionC_oob (levels : List Nat) : (paraDirectionC levels).oob = false := rfl

theorem paragraphDirectionC_oob (levels : List Nat) (p : ParaInfo) (h1 : p.start ≤ p.stop)
    (h2 : p.stop ≤ levels.length) : (paragraphDirectionC levels p).oob = false := by
  simp only [paragraphDirectionC, oob_bind, sliceC_oob h1 h2, paraDirectionC_oob, Bool.or_self]

theorem levelAtC_oob (levels : List Nat) (p : ParaInfo) (pos : Nat) (h : p.start + pos < levels.length) :
    (levelAtC levels p pos).oob = false := rdOpt_oob h

end UBidi.Checked
