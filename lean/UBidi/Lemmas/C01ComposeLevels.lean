/-
  C01 / composition, part 7 (layers 1 and 2 for single-unit paragraphs): the final type at every kept
  position (`tyAt_eq`), the levels of the general branch (`paraLevels_unit_true`,
  `paraLevels_unit`), and all branches with the flags the crate passes (`paraLevels_unit_flags`).
-/
import UBidi.Lemmas.C01ComposeUnit
import UBidi.Lemmas.C01Pure
namespace UBidi.Lemmas.C01Compose
open UBidi UBidi.BidiClass UBidi.Lemmas.C01Seq UBidi.Lemmas.C01Neutral
open UBidi.Props.C13 (Contig contig_bounds)

section
variable {ds : DataSource} {t : Text} {n pl : Nat} {chars : List Spec.Ch}

/-- the final type UAX #9 gives the kept position `j` is what the Model's loop leaves at unit `j` -/
theorem tyAt_eq (c : Ctx ds t n pl chars) (F : Classes)
    (hF : ∀ s ∈ (isolatingRunSequences pl (chars.map (·.cls))
        (explicitCompute t pl (chars.map (·.cls))).levels (explicitCompute t pl (chars.map (·.cls))).runs true).1,
      (keptOf (chars.map (·.cls)) s).map (cget F) =
        modelCore ds t (explicitCompute t pl (chars.map (·.cls))).levels (chars.map (·.cls))
          (explicitCompute t pl (chars.map (·.cls))).pcs s)
    (j : Nat) (hj : j < n) (hk : keptAt (chars.map (·.cls)) j = true) :
    ((((Spec.isolatingRunSequences (ksOf pl chars)).flatMap (Spec.resolveSequence pl (ksOf pl chars))).find?
      (fun x => x.1 == toKs (chars.map (·.cls)) j)).map (·.2)).getD ON = cget F j := by
  have hcl := c.clen
  have hmem := fun it => stageSeq_mem t n c.hu pl c.hpl chars c.hlen c.hB it
  have hgen := stageSeq_general t n c.hu pl c.hpl chars c.hlen c.hB
  simp only [] at hgen
  have hiff := fun it => hgen.2.mem_iff (a := it)
  obtain ⟨_, _, _, hcontig, hstart, _⟩ := explicit_unit t n c.hu pl c.hpl _ hcl
  rw [← hcl] at hcontig
  obtain ⟨hseq, hperm⟩ := model_seqs pl _ _ _ hcontig hstart
  generalize hresolved : (Spec.isolatingRunSequences (ksOf pl chars)).flatMap
    (Spec.resolveSequence pl (ksOf pl chars)) = resolved
  -- every entry for this position carries the Model's type
  have huniq : ∀ x ∈ resolved, x.1 = toKs (chars.map (·.cls)) j → x.2 = cget F j := by
    intro x hx hx1
    rw [← hresolved, List.mem_flatMap] at hx
    obtain ⟨q, hq, hxq⟩ := hx
    have hit : specItem pl (ksOf pl chars) q ∈
        (Spec.isolatingRunSequences (ksOf pl chars)).map (specItem pl (ksOf pl chars)) :=
      List.mem_map_of_mem hq
    rw [← hiff, List.mem_filterMap] at hit
    obtain ⟨s, hs, hsq⟩ := hit
    rw [link c F s hs (hF s hs) q hsq, List.mem_map] at hxq
    obtain ⟨i, hi, rfl⟩ := hxq
    simp only at hx1 ⊢
    obtain ⟨hok, _⟩ := hseq s hs
    obtain ⟨h1, h2⟩ := List.mem_filter.1 hi
    have hin : i < n := by
      have := Expand.Weak.mem_indices_lt hok h1
      rw [hcl] at this; exact this
    have : i = j := toKs_inj _ i j (by rw [hcl]; exact hin) (by rw [hcl]; exact hj) h2 hk hx1
    rw [this]
  -- and there is one
  have hex : ∃ x ∈ resolved, x.1 = toKs (chars.map (·.cls)) j := by
    have hjm : j ∈ List.range' 0 (chars.map (·.cls)).length := by
      rw [List.mem_range'_1, hcl]; omega
    rw [← hperm.mem_iff, List.mem_flatMap] at hjm
    obtain ⟨s, hs, hjs⟩ := hjm
    have hjK : j ∈ keptOf (chars.map (·.cls)) s := List.mem_filter.2 ⟨hjs, hk⟩
    have hne : keptOf (chars.map (·.cls)) s ≠ [] := List.ne_nil_of_mem hjK
    have hmi : modelItem (chars.map (·.cls)) s =
        some ((keptOf (chars.map (·.cls)) s).map (toKs (chars.map (·.cls))), s.sos, s.eos) := by
      unfold modelItem
      have hK : s.indices.filter (fun i => notRemoved ((chars.map (·.cls)).getD i ON)) =
          keptOf (chars.map (·.cls)) s := rfl
      simp only [hK, if_neg hne]
    have hit : ((keptOf (chars.map (·.cls)) s).map (toKs (chars.map (·.cls))), s.sos, s.eos) ∈
        (isolatingRunSequences pl (chars.map (·.cls)) (explicitCompute t pl (chars.map (·.cls))).levels
          (explicitCompute t pl (chars.map (·.cls))).runs true).1.filterMap (modelItem (chars.map (·.cls))) :=
      List.mem_filterMap.2 ⟨s, hs, hmi⟩
    rw [hiff, List.mem_map] at hit
    obtain ⟨q, hq, hqe⟩ := hit
    rw [← hqe] at hmi
    have hl := link c F s hs (hF s hs) q hmi
    refine ⟨(toKs (chars.map (·.cls)) j, cget F j), ?_, rfl⟩
    rw [← hresolved, List.mem_flatMap]
    exact ⟨q, hq, by rw [hl]; exact List.mem_map.2 ⟨j, hjK, rfl⟩⟩
  obtain ⟨x0, hx0, hx01⟩ := hex
  cases hf : resolved.find? (fun x => x.1 == toKs (chars.map (·.cls)) j) with
  | none =>
    rw [List.find?_eq_none] at hf
    have := hf x0 hx0
    simp [hx01] at this
  | some x =>
    have h1 := List.mem_of_find?_eq_some hf
    have h2 := List.find?_some hf
    simp only [beq_iff_eq] at h2
    simp only [Option.map_some, Option.getD_some]
    exact huniq x h1 h2

/-- `paraLevels` on the general branch, with projections instead of pattern matching -/
theorem paraLevels_general (ds : DataSource) (pl : Nat) (pure hasIso : Bool) (t : Text) (ocs : Classes)
    (hp : (pl == 0 && pure) = false) :
    paraLevels ds pl pure hasIso t ocs =
      (assignLevelsToRemovedChars pl ocs
        (resolveLevels (resolveSequences ds t (explicitCompute t pl ocs).levels ocs
          (isolatingRunSequences pl ocs (explicitCompute t pl ocs).levels (explicitCompute t pl ocs).runs hasIso).1
          (explicitCompute t pl ocs).pcs).1 (explicitCompute t pl ocs).levels).1,
       orErr (explicitCompute t pl ocs).err
        (orErr (isolatingRunSequences pl ocs (explicitCompute t pl ocs).levels (explicitCompute t pl ocs).runs hasIso).2
          (orErr (resolveSequences ds t (explicitCompute t pl ocs).levels ocs
            (isolatingRunSequences pl ocs (explicitCompute t pl ocs).levels (explicitCompute t pl ocs).runs hasIso).1
            (explicitCompute t pl ocs).pcs).2
            (resolveLevels (resolveSequences ds t (explicitCompute t pl ocs).levels ocs
              (isolatingRunSequences pl ocs (explicitCompute t pl ocs).levels (explicitCompute t pl ocs).runs hasIso).1
              (explicitCompute t pl ocs).pcs).1 (explicitCompute t pl ocs).levels).2))) := by
  simp only [paraLevels, hp]
  rfl

/-- **Layer 1**, `has_isolate_controls = true`: a paragraph of single-unit characters on the general
    branch — the Model's levels are UAX #9's, and nothing panics -/
theorem paraLevels_unit_true (hweak : WeakInv ds) (c : Ctx ds t n pl chars) (pure : Bool)
    (hp : (pl == 0 && pure) = false) :
    paraLevels ds pl pure true t (chars.map (·.cls)) = (Spec.paragraphLevels pl chars, none) := by
  have hcl := c.clen
  obtain ⟨F, f1, f2, f3⟩ := model_fold hweak c
  obtain ⟨hlv, herr, hagree, _, _, _⟩ := explicit_unit t n c.hu pl c.hpl _ hcl
  have hgen := stageSeq_general t n c.hu pl c.hpl chars c.hlen c.hB
  simp only [] at hgen
  have hI := Props.C01.C01_stageI F (explicitCompute t pl (chars.map (·.cls))).levels (by rw [f2, hlv])
    (fun l hl => (Props.C11.C11_explicit_le_125 t pl c.hpl _ l hl).2)
  rw [paraLevels_general ds pl pure true t _ hp, f1, herr, hgen.1, hI.1, hI.2]
  simp only [orErr]
  congr 1
  -- the levels
  generalize hlvM : ((explicitCompute t pl (chars.map (·.cls))).levels.zip F).map
    (fun x => match x with | (l, c) => Spec.implicitLevel l c) = lvM
  have hlvMlen : lvM.length = n := by rw [← hlvM]; simp [hlv, f2]
  have hlvMat : ∀ j, j < n → lvM[j]? =
      some (Spec.implicitLevel ((explicitCompute t pl (chars.map (·.cls))).levels.getD j 0) (cget F j)) := by
    intro j hj
    have h1 : j < (explicitCompute t pl (chars.map (·.cls))).levels.length := by rw [hlv]; exact hj
    have h2 : j < F.length := by rw [f2]; exact hj
    rw [← hlvM]
    simp only [List.getElem?_map, cget, List.getD_eq_getElem?_getD, List.getElem?_eq_getElem h1,
      List.getElem?_eq_getElem h2, Option.getD_some]
    rw [List.getElem?_eq_getElem (by rw [List.length_zip]; omega), List.getElem_zip]
    rfl
  rw [paragraphLevels_uses_ksOf]
  simp only []
  have hkslen : (ksOf pl chars).length = (keptIdx (chars.map (·.cls))).length := by
    rw [ksOf_eq, List.length_map]
  have hkl : ∀ (g : Nat → Nat),
      (List.range (ksOf pl chars).length).map (fun p => (((ksOf pl chars).getD p default).orig, g p)) =
      (List.range (keptIdx (chars.map (·.cls))).length).map
        (fun p => ((keptIdx (chars.map (·.cls))).getD p 0, g p)) := by
    intro g
    rw [hkslen]
    apply List.map_congr_left
    intro p hp
    rw [List.mem_range] at hp
    congr 1
    rw [ksOf_eq, List.getD_eq_getElem?_getD, List.getElem?_map, List.getElem?_eq_getElem hp,
      List.getD_eq_getElem?_getD, List.getElem?_eq_getElem hp]
    rfl
  have hchlen : chars.length = lvM.length := by rw [hlvMlen, c.hlen]
  rw [hchlen]
  refine (spec_fill_model _ pl (chars.map (·.cls)) lvM (by rw [hcl, hlvMlen]) ?_).symm
  intro j hj
  rw [hlvMlen] at hj
  have := hkl (fun p => Spec.implicitLevel ((ksOf pl chars).getD p default).level
    (Option.getD (Option.map (·.2) (((Spec.isolatingRunSequences (ksOf pl chars)).flatMap
      (Spec.resolveSequence pl (ksOf pl chars))).find? (fun x => x.1 == p))) ON))
  rw [this, find_assoc (chars.map (·.cls)) _ j (by rw [hcl]; exact hj)]
  by_cases hk : keptAt (chars.map (·.cls)) j = true
  · have hnr : ((chars.map (·.cls)).getD j ON).removedByX9 = false := by
      simpa [keptAt, notRemoved] using hk
    rw [if_pos hk, hnr, hlvMat j hj, tyAt_eq c F f3 j hj hk, ks_at_model c j hj hk]
    simp
  · have hr : ((chars.map (·.cls)).getD j ON).removedByX9 = true := by
      simpa [keptAt, notRemoved] using hk
    rw [if_neg hk, hr]
    simp

end

/-- without isolate initiators the fast path of `isolating_run_sequences` changes nothing -/
theorem paraLevels_fast_eq (ds : DataSource) (pl : Nat) (pure : Bool) (t : Text) (cls : List BidiClass) (n : Nat)
    (hu : UnitText t n) (hpl : pl ≤ 1) (hcl : cls.length = n) (hp : (pl == 0 && pure) = false)
    (hno : ∀ x ∈ cls, x.isIsolateInitiator = false) :
    paraLevels ds pl pure false t cls = paraLevels ds pl pure true t cls := by
  obtain ⟨hlv, _, _, hcontig, _, _⟩ := explicit_unit t n hu pl hpl cls hcl
  have hr : ∀ r ∈ (explicitCompute t pl cls).runs, r.1 < r.2 ∧ r.2 ≤ cls.length := by
    intro r h
    have := (contig_bounds hcontig).2 r h
    rw [hcl]; exact ⟨this.2.1, this.2.2⟩
  have hfe := fast_eq_general pl cls (explicitCompute t pl cls).levels (explicitCompute t pl cls).runs hno hr
    (by rw [hcl]; exact hlv)
  have h1 := paraLevels_general ds pl pure false t cls hp
  have h2 := paraLevels_general ds pl pure true t cls hp
  rw [hfe] at h1
  exact h1.trans h2.symm

section
variable {ds : DataSource} {t : Text} {n pl : Nat} {chars : List Spec.Ch}

/-- **Layer 1**, with the flag the crate passes (`has_isolate_controls` = "there is an isolate
    initiator among the classes") -/
theorem paraLevels_unit (hweak : WeakInv ds) (c : Ctx ds t n pl chars) (pure : Bool)
    (hp : (pl == 0 && pure) = false) :
    paraLevels ds pl pure ((chars.map (·.cls)).any isIsolateInitiator) t (chars.map (·.cls)) =
      (Spec.paragraphLevels pl chars, none) := by
  cases h : (chars.map (·.cls)).any isIsolateInitiator with
  | true => exact paraLevels_unit_true hweak c pure hp
  | false =>
    have hno : ∀ x ∈ chars.map (·.cls), x.isIsolateInitiator = false := by
      intro x hx
      have := List.any_eq_false.1 h x hx
      simpa using this
    rw [paraLevels_fast_eq ds pl pure t _ n c.hu c.hpl c.clen hp hno]
    exact paraLevels_unit_true hweak c pure hp

end

end UBidi.Lemmas.C01Compose
