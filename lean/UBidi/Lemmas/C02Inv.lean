/-
  C02 helper lemmas: the invariant of the scan of `compute_initial_info`.

  Ghost state: the characters read so far, cut into the finished paragraphs
  (`chunks`) and the current, unfinished one (`cur`).  `Rel1` ties the Model
  state to the per-character machine `cRun` run on the current paragraph
  (stack, level) and to the Spec on the finished ones (paragraph list);
  `Rel2` does the same for the classes and the error flag; the X5c write covers
  exactly the units of the character at the top of the stack, for every data
  source (since the repair of finding D10 no assumption about the width of
  FSI-class characters is needed).
-/
import UBidi.Lemmas.C02Sim
namespace UBidi.Lemmas.C02
open UBidi BidiClass Spec

structure Ghost where
  chunks : List (List Seg) := []
  cur : List Seg := []
  pos : Nat := 0

def gStep (ds : DataSource) (split : Bool) (g : Ghost) (s : Seg) : Ghost :=
  if ds.cls s.cp == B && split then
    { chunks := g.chunks ++ [g.cur ++ [s]], cur := [], pos := g.pos + s.len }
  else { g with cur := g.cur ++ [s], pos := g.pos + s.len }

/-- the classes of a list of characters -/
def clsOf (ds : DataSource) (ss : List Seg) : List BidiClass := ss.map (fun s => ds.cls s.cp)

@[simp] theorem clsOf_length (ds : DataSource) (ss : List Seg) : (clsOf ds ss).length = ss.length := by
  simp [clsOf]
theorem clsOf_snoc (ds : DataSource) (ss : List Seg) (s : Seg) :
    clsOf ds (ss ++ [s]) = clsOf ds ss ++ [ds.cls s.cp] := by simp [clsOf]
theorem clsOf_getD (ds : DataSource) (ss : List Seg) (i : Nat) (h : i < ss.length) :
    (clsOf ds ss).getD i ON = ds.cls (ss.getD i default).cp := by
  simp [clsOf, List.getD_eq_getElem?_getD, List.getElem?_eq_getElem h]

/-- the paragraph record of a finished paragraph, as the Spec wants it -/
def mkPara (ds : DataSource) (dflt : Option Nat) (ch : List Seg) : ParaInfo :=
  { start := chunkStart ch, stop := chunkStop ch, level := Spec.paraLevel dflt (clsOf ds ch) }

/-- the resolved per-unit classes of a finished paragraph -/
def chunkClasses (ds : DataSource) (ch : List Seg) : List BidiClass :=
  expand ch (Spec.resolveFSI (clsOf ds ch))

/-- a paragraph that ends with its separator -/
def IsChunk (ds : DataSource) (ch : List Seg) : Prop :=
  ∃ xs b, ch = xs ++ [b] ∧ (∀ s ∈ xs, ds.cls s.cp ≠ B) ∧ ds.cls b.cp = B

structure Rel1 (ds : DataSource) (split : Bool) (dflt : Option Nat) (g : Ghost) (st : IIState) : Prop where
  tilesDone : SegsFrom 0 g.chunks.flatten st.paraStart
  tilesCur : SegsFrom st.paraStart g.cur g.pos
  len : st.classes.length = g.pos
  stack : st.stack = (cRun dflt (clsOf ds g.cur)).stack.map (fun i => (g.cur.getD i default).start)
  lvl : st.paraLevel = (cRun dflt (clsOf ds g.cur)).lvl
  paras : st.paras = g.chunks.map (mkPara ds dflt)
  flags : st.flags.length = st.paras.length
  chunksOK : ∀ ch ∈ g.chunks, IsChunk ds ch
  curOK : split = true → ∀ s ∈ g.cur, ds.cls s.cp ≠ B
  nosplit : split = false → g.chunks = []

theorem cRun_cls_length (l0 : Option Nat) (xs : List BidiClass) : (cRun l0 xs).cls.length = xs.length := by
  rw [cRun, cRunFrom_cls_length]; simp

theorem cRun_stackOK (l0 : Option Nat) (xs : List BidiClass) : StackOK (cRun l0 xs) :=
  stackOK_run xs _ (stackOK_init l0)

theorem rel1_init (ds : DataSource) (split : Bool) (dflt : Option Nat) :
    Rel1 ds split dflt {} { paraLevel := dflt } := by
  constructor <;> simp [SegsFrom, clsOf, cRun]

theorem iiStep_classes_length (ds : DataSource) (t : Text) (split : Bool) (dflt : Option Nat)
    (st : IIState) (s : Seg) :
    (iiStep ds t split dflt st s).classes.length = st.classes.length + t.enc.charLen s.cp := by
  rw [iiStep_classes]
  simp only []
  split
  · split
    · split
      · simp [setRange_length]
      · simp
    · simp
  · simp

section step
variable {ds : DataSource} {t : Text} {split : Bool} {dflt : Option Nat} {g : Ghost} {st : IIState} {s : Seg}

/-- the stack of unit offsets follows the stack of character indices -/
theorem stack_map_snoc (cur : List Seg) (s : Seg) (stk : List Nat) (h : ∀ i ∈ stk, i < cur.length) :
    stk.map (fun i => ((cur ++ [s]).getD i default).start) = stk.map (fun i => (cur.getD i default).start) := by
  apply List.map_congr_left
  intro i hi
  have := h i hi
  simp [List.getD_eq_getElem?_getD, List.getElem?_append_left this]

theorem rel1_step (h : Rel1 ds split dflt g st) (hs : s.start = g.pos) (hl : 0 < s.len)
    (hlen : s.len = t.enc.charLen s.cp) :
    Rel1 ds split dflt (gStep ds split g s) (iiStep ds t split dflt st s) := by
  have hcl : (cRun dflt (clsOf ds g.cur)).cls.length = g.cur.length := by rw [cRun_cls_length]; simp
  have hok := cRun_stackOK dflt (clsOf ds g.cur)
  by_cases hB : (ds.cls s.cp == B && split) = true
  · -- a paragraph separator in split mode: the paragraph is finished
    have hc : ds.cls s.cp = B := by simp at hB; exact hB.1
    have hsp : split = true := by simp at hB; exact hB.2
    have hcb : (ds.cls s.cp == B) = true := by simp [hc]
    have htile : SegsFrom st.paraStart (g.cur ++ [s]) (g.pos + s.len) :=
      segsFrom_snoc _ _ _ _ h.tilesCur hs hl
    have hpS : (iiStep ds t split dflt st s).paraStart = g.pos + s.len := by
      rw [iiStep_paraStart, hB, if_pos rfl, hs, hlen]
    simp only [gStep, hB, if_true]
    constructor
    · simp only [List.flatten_append, List.flatten_singleton]
      rw [hpS, segsFrom_append]
      exact ⟨_, h.tilesDone, htile⟩
    · rw [hpS]; rfl
    · rw [iiStep_classes_length, h.len, hlen]
    · rw [iiStep_stack, hcb, if_pos rfl, hsp]; rfl
    · rw [iiStep_paraLevel, hcb, if_pos rfl, hsp]; rfl
    · rw [iiStep_paras, hB, if_pos rfl, h.paras, List.map_append]
      congr 1
      simp only [List.map_cons, List.map_nil, mkPara, List.cons.injEq, and_true]
      rw [chunkStart_eq _ _ _ htile (by simp), chunkStop_snoc, clsOf_snoc, hc, h.lvl, ← hlen]
      rw [cRun_level_spec dflt _ (fun c hc' => by
        simp only [clsOf, List.mem_map] at hc'
        obtain ⟨x, hx, rfl⟩ := hc'
        exact h.curOK hsp x hx) [B] (Or.inr rfl)]
    · rw [iiStep_flags_length, iiStep_paras, hB, if_pos rfl, if_pos rfl, h.flags]; simp
    · intro ch hch
      rcases List.mem_append.1 hch with hch | hch
      · exact h.chunksOK ch hch
      · simp only [List.mem_singleton] at hch
        subst hch
        exact ⟨g.cur, s, rfl, h.curOK hsp, hc⟩
    · intro _ x hx; simp at hx
    · intro hns; rw [hsp] at hns; cases hns
  · -- any other character: the current paragraph grows
    have hB' : (ds.cls s.cp == B && split) = false := by simpa using hB
    have hpS : (iiStep ds t split dflt st s).paraStart = st.paraStart := by
      rw [iiStep_paraStart, hB']; rfl
    have hpar : (iiStep ds t split dflt st s).paras = st.paras := by
      rw [iiStep_paras, hB']; rfl
    have hmapE : st.stack.isEmpty = (cRun dflt (clsOf ds g.cur)).stack.isEmpty := by
      rw [h.stack]; simp
    simp only [gStep, hB', Bool.false_eq_true, if_false]
    constructor
    · rw [hpS]; exact h.tilesDone
    · rw [hpS]; exact segsFrom_snoc _ _ _ _ h.tilesCur hs hl
    · rw [iiStep_classes_length, h.len, hlen]
    · -- stack
      rw [iiStep_stack, clsOf_snoc, cRun_snoc, cStep_stack, hcl]
      by_cases hcb : (ds.cls s.cp == B) = true
      · have hsp : split = false := by
          cases split <;> simp_all
        have hc : ds.cls s.cp = B := by simpa using hcb
        simp only [hsp, Bool.false_eq_true, if_false, hc]
        rw [show isIsoInit B = false from rfl, show (B == PDI) = false from rfl]
        simp only [Bool.false_eq_true, if_false]
        rw [stack_map_snoc _ _ _ (fun i hi => by have := hok.2 i hi; omega)]
        exact h.stack
      · simp only [hcb, Bool.false_eq_true, if_false]
        have hlt : ∀ i ∈ (cRun dflt (clsOf ds g.cur)).stack, i < g.cur.length := fun i hi => by
          have := hok.2 i hi; omega
        by_cases h1 : isIsoInit (ds.cls s.cp) = true
        · simp only [h1, if_true, List.map_cons]
          rw [stack_map_snoc _ _ _ hlt, ← h.stack]
          simp [List.getD_eq_getElem?_getD]
        · simp only [h1, Bool.false_eq_true, if_false]
          by_cases h2 : (ds.cls s.cp == PDI) = true
          · simp only [h2, if_true]
            rw [stack_map_snoc _ _ _ (fun i hi => hlt i (List.mem_of_mem_tail hi)), h.stack, List.map_tail]
          · simp only [h2, Bool.false_eq_true, if_false]
            rw [stack_map_snoc _ _ _ hlt]
            exact h.stack
    · -- level
      rw [iiStep_paraLevel, clsOf_snoc, cRun_snoc, cStep_lvl, hmapE, h.lvl]
      by_cases hcb : (ds.cls s.cp == B) = true
      · have hsp : split = false := by
          cases split <;> simp_all
        have hc : ds.cls s.cp = B := by simpa using hcb
        simp only [hsp, Bool.false_eq_true, if_false, hc]
        rw [show isStrong B = false from rfl]
        simp
      · simp only [hcb, Bool.false_eq_true, if_false]
    · rw [hpar]; exact h.paras
    · rw [iiStep_flags_length, hB', hpar]; exact h.flags
    · exact h.chunksOK
    · intro hsp x hx
      rcases List.mem_append.1 hx with hx | hx
      · exact h.curOK hsp x hx
      · simp only [List.mem_singleton] at hx
        subst hx
        intro hc
        rw [hc, hsp] at hB'
        cases hB'
    · exact h.nosplit

end step

/-! ### classes and the error flag -/

/-- `char_at` at the start of a character that was read returns that character (true of every
    character of a well-formed text, `charAt_start`) -/
def AtStart (t : Text) (s : Seg) : Prop := t.charAt s.start = some s

structure Rel2 (ds : DataSource) (t : Text) (dflt : Option Nat) (g : Ghost) (st : IIState) : Prop where
  classes : st.classes = (g.chunks.map (chunkClasses ds)).flatten ++ expand g.cur (cRun dflt (clsOf ds g.cur)).cls
  err : st.err = none
  atCur : ∀ s ∈ g.cur, AtStart t s

theorem rel2_init (ds : DataSource) (t : Text) (dflt : Option Nat) :
    Rel2 ds t dflt {} { paraLevel := dflt } := by
  constructor <;> simp

section step2
variable {ds : DataSource} {t : Text} {split : Bool} {dflt : Option Nat} {g : Ghost} {st : IIState} {s : Seg}

theorem rel2_step (h : Rel1 ds split dflt g st) (h2 : Rel2 ds t dflt g st) (hs : s.start = g.pos)
    (hl : 0 < s.len) (hlen : s.len = t.enc.charLen s.cp) (hf : AtStart t s) :
    Rel2 ds t dflt (gStep ds split g s) (iiStep ds t split dflt st s) := by
  have hcl : (cRun dflt (clsOf ds g.cur)).cls.length = g.cur.length := by rw [cRun_cls_length]; simp
  have hok := cRun_stackOK dflt (clsOf ds g.cur)
  -- the finished part of `classes` is `paraStart` long
  have hD : ((g.chunks.map (chunkClasses ds)).flatten).length = st.paraStart := by
    have h1 := h.len
    rw [h2.classes, List.length_append] at h1
    have h3 := expand_length g.cur (cRun dflt (clsOf ds g.cur)).cls _ _ h.tilesCur hcl.symm
    omega
  -- the classes before the X5c write
  have hX : st.classes ++ List.replicate (t.enc.charLen s.cp) (ds.cls s.cp)
      = (g.chunks.map (chunkClasses ds)).flatten
          ++ expand (g.cur ++ [s]) ((cRun dflt (clsOf ds g.cur)).cls ++ [ds.cls s.cp]) ++ [] := by
    rw [h2.classes, expand_snoc _ _ _ _ hcl.symm, ← hlen]; simp
  have htile : SegsFrom ((g.chunks.map (chunkClasses ds)).flatten).length (g.cur ++ [s]) (g.pos + s.len) := by
    rw [hD]; exact segsFrom_snoc _ _ _ _ h.tilesCur hs hl
  have hlen' : (g.cur ++ [s]).length = ((cRun dflt (clsOf ds g.cur)).cls ++ [ds.cls s.cp]).length := by
    simp [hcl]
  by_cases hstr : isStrong (ds.cls s.cp) = true
  · -- a strong character
    have hnB : (ds.cls s.cp == B && split) = false := by
      have : ds.cls s.cp ≠ B := by intro hc; rw [hc] at hstr; cases hstr
      simp [this]
    have hat' : ∀ x ∈ g.cur ++ [s], AtStart t x := by
      intro x hx
      rcases List.mem_append.1 hx with hx | hx
      · exact h2.atCur x hx
      · simp only [List.mem_singleton] at hx; subst hx; exact hf
    simp only [gStep, hnB, Bool.false_eq_true, if_false]
    have hhead : st.stack.head? = (cRun dflt (clsOf ds g.cur)).stack.head?.map
        (fun i => ((g.cur ++ [s]).getD i default).start) := by
      rw [h.stack]
      cases hst : (cRun dflt (clsOf ds g.cur)).stack with
      | nil => rfl
      | cons i rest =>
        have : i < g.cur.length := by
          have := hok.2 i (by rw [hst]; simp); omega
        simp [List.getD_eq_getElem?_getD, List.getElem?_append_left this]
    cases hst : (cRun dflt (clsOf ds g.cur)).stack.head? with
    | none =>
      rw [hst] at hhead
      refine ⟨?_, ?_, hat'⟩
      · rw [iiStep_classes]; simp only [hstr, if_true, hhead, Option.map_none]
        rw [clsOf_snoc, cRun_snoc, cStep_cls]; simp only [hstr, if_true, hst]
        rw [hX]; simp
      · rw [iiStep_err]; simp only [hstr, if_true, hhead, Option.map_none]; exact h2.err
    | some i =>
      rw [hst] at hhead
      have hi : i < g.cur.length := by
        have := hok.2 i (List.mem_of_mem_head? hst); omega
      have hi' : i < (g.cur ++ [s]).length := by simp; omega
      -- the class seen at the initiator's first unit
      have hget : (st.classes ++ List.replicate (t.enc.charLen s.cp) (ds.cls s.cp)).getD
            ((g.cur ++ [s]).getD i default).start ON
          = ((cRun dflt (clsOf ds g.cur)).cls ++ [ds.cls s.cp]).getD i ON := by
        rw [hX]
        have hpos : 0 < ((g.cur ++ [s]).getD i default).len := by
          have hm : (g.cur ++ [s]).getD i default ∈ g.cur ++ [s] := by
            rw [List.getD_eq_getElem?_getD, List.getElem?_eq_getElem hi']; simp
          exact (segsFrom_mem _ _ _ htile _ hm).2.2
        have := expand_getD (g.cur ++ [s]) _ _ [] _ htile hlen' i hi' 0 hpos
        simpa using this
      -- if the initiator still reads FSI it is an FSI; it is a character already read, so `char_at` finds it
      have hFSI : (((cRun dflt (clsOf ds g.cur)).cls ++ [ds.cls s.cp]).getD i ON == FSI) = true →
          ds.cls (g.cur.getD i default).cp = FSI ∧
          (g.cur ++ [s]).getD i default = g.cur.getD i default ∧ g.cur.getD i default ∈ g.cur := by
        intro hF
        have hik : i < (cRun dflt (clsOf ds g.cur)).cls.length := by omega
        have hF1 : (cRun dflt (clsOf ds g.cur)).cls.getD i ON = FSI := by
          have : ((cRun dflt (clsOf ds g.cur)).cls ++ [ds.cls s.cp]).getD i ON
              = (cRun dflt (clsOf ds g.cur)).cls.getD i ON := by
            simp [List.getD_eq_getElem?_getD, List.getElem?_append_left hik]
          rw [← this]; simpa using hF
        refine ⟨?_, ?_, ?_⟩
        · rw [cRun_cls] at hF1
          have := resolveScan_FSI _ _ hF1
          rwa [clsOf_getD _ _ _ hi] at this
        · simp [List.getD_eq_getElem?_getD, List.getElem?_append_left hi]
        · rw [List.getD_eq_getElem?_getD, List.getElem?_eq_getElem hi]; simp
      refine ⟨?_, ?_, hat'⟩
      · rw [iiStep_classes]; simp only [hstr, if_true, hhead, Option.map_some]
        rw [clsOf_snoc, cRun_snoc, cStep_cls]; simp only [hstr, if_true, hst]
        rw [hget]
        split
        · rename_i hF
          obtain ⟨hF2, hsame, hm⟩ := hFSI hF
          have hn : widthAt t ((g.cur ++ [s]).getD i default).start = ((g.cur ++ [s]).getD i default).len := by
            rw [hsame, widthAt, h2.atCur _ hm]
          rw [hn, hX, expand_setRange _ _ _ _ [] _ htile hlen' i hi']
          simp
        · rw [hX]; simp
      · rw [iiStep_err]; simp only [hstr, if_true, hhead, Option.map_some]
        rw [hget]
        split
        · rename_i hF
          obtain ⟨hF2, hsame, hm⟩ := hFSI hF
          have hn : widthAt t (g.cur.getD i default).start = (g.cur.getD i default).len := by
            rw [widthAt, h2.atCur _ hm]
          have hb := (segsFrom_mem _ _ _ h.tilesCur _ hm).2.1
          have hle : (g.cur.getD i default).start + widthAt t (g.cur.getD i default).start
              ≤ (st.classes ++ List.replicate (t.enc.charLen s.cp) (ds.cls s.cp)).length := by
            rw [List.length_append, h.len]; omega
          rw [hsame, if_pos hle, h2.err]; rfl
        · exact h2.err
  · -- not strong: the classes are only extended
    have hstr' : isStrong (ds.cls s.cp) = false := by simpa using hstr
    have hcls : (iiStep ds t split dflt st s).classes
        = st.classes ++ List.replicate (t.enc.charLen s.cp) (ds.cls s.cp) := by
      rw [iiStep_classes]; simp [hstr']
    have herr : (iiStep ds t split dflt st s).err = none := by
      rw [iiStep_err]; simp [hstr', h2.err]
    by_cases hB : (ds.cls s.cp == B && split) = true
    · have hc : ds.cls s.cp = B := by simp at hB; exact hB.1
      have hsp : split = true := by simp at hB; exact hB.2
      simp only [gStep, hB, if_true]
      refine ⟨?_, herr, fun x hx => by simp at hx⟩
      rw [hcls, hX, List.map_append, List.flatten_append]
      simp only [List.map_cons, List.map_nil, List.flatten_singleton, List.append_nil,
        expand_nil_left, chunkClasses]
      congr 2
      rw [clsOf_snoc, hc]
      exact cRun_cls_spec dflt _ (fun c hc' => by
        simp only [clsOf, List.mem_map] at hc'
        obtain ⟨x, hx, rfl⟩ := hc'
        exact h.curOK hsp x hx) [B] (Or.inr rfl)
    · have hB' : (ds.cls s.cp == B && split) = false := by simpa using hB
      simp only [gStep, hB', Bool.false_eq_true, if_false]
      refine ⟨?_, herr, ?_⟩
      · rw [hcls, hX, clsOf_snoc, cRun_snoc, cStep_cls]; simp [hstr']
      · intro x hx
        rcases List.mem_append.1 hx with hx | hx
        · exact h2.atCur x hx
        · simp only [List.mem_singleton] at hx; subst hx; exact hf

end step2

/-! ### the whole fold -/

theorem gStep_pos (ds : DataSource) (split : Bool) (g : Ghost) (s : Seg) :
    (gStep ds split g s).pos = g.pos + s.len := by
  unfold gStep; split <;> rfl

theorem gStep_segs (ds : DataSource) (split : Bool) (g : Ghost) (s : Seg) :
    (gStep ds split g s).chunks.flatten ++ (gStep ds split g s).cur = g.chunks.flatten ++ g.cur ++ [s] := by
  unfold gStep; split <;> simp

theorem gFold_segs (ds : DataSource) (split : Bool) (l : List Seg) : ∀ g : Ghost,
    (l.foldl (gStep ds split) g).chunks.flatten ++ (l.foldl (gStep ds split) g).cur
      = g.chunks.flatten ++ g.cur ++ l := by
  induction l with
  | nil => intro g; simp
  | cons s l ih => intro g; rw [List.foldl_cons, ih, gStep_segs]; simp

theorem rel_fold (ds : DataSource) (t : Text) (split : Bool) (dflt : Option Nat) (e : Nat) (l : List Seg) :
    ∀ (g : Ghost) (st : IIState), Rel1 ds split dflt g st → SegsFrom g.pos l e →
      (∀ s ∈ l, s.len = t.enc.charLen s.cp) →
      Rel1 ds split dflt (l.foldl (gStep ds split) g) (l.foldl (iiStep ds t split dflt) st) ∧
      (l.foldl (gStep ds split) g).pos = e ∧
      (Rel2 ds t dflt g st → (∀ s ∈ l, AtStart t s) →
        Rel2 ds t dflt (l.foldl (gStep ds split) g) (l.foldl (iiStep ds t split dflt) st)) := by
  induction l with
  | nil => intro g st h ht _; exact ⟨h, ht, fun h2 _ => h2⟩
  | cons s l ih =>
    intro g st h ht hlens
    obtain ⟨h1, h2, h3⟩ := ht
    have hlen := hlens s (by simp)
    have hstep := rel1_step (t := t) h h1 h2 hlen
    have := ih (gStep ds split g s) (iiStep ds t split dflt st s) hstep
      (by rw [gStep_pos]; exact h3) (fun x hx => hlens x (by simp [hx]))
    refine ⟨this.1, this.2.1, fun r2 hf => ?_⟩
    exact this.2.2 (rel2_step h r2 h1 h2 hlen (hf s (by simp))) (fun x hx => hf x (by simp [hx]))

end UBidi.Lemmas.C02
