/-
  UBidi.Lemmas.ExpandNeutralSeq — a sequence of character runs and its image `mapSeq t seq` in
  code units: indices, forward/backward walks, the characters of the sequence, `unitize t`,
  and the Expand lemma for N1/N2.
-/
import UBidi.Lemmas.ExpandNeutralN12
namespace UBidi.Expand.Neutral
open UBidi UBidi.BidiClass

end UBidi.Expand.Neutral
namespace UBidi.Expand
open Neutral

/-- the runs of `seq` are runs of characters of a text with `n` characters.
    (Real sequences satisfy `a < b ≤ n`, increasing and disjoint; only the bounds are needed.) -/
def SeqOKN (n : Nat) (seq : IRSeq) : Prop := ∀ r ∈ seq.runs, r.1 ≤ n ∧ r.2 ≤ n

theorem SeqOKN.of_lt {n : Nat} {seq : IRSeq} (h : ∀ r ∈ seq.runs, r.1 < r.2 ∧ r.2 ≤ n) : SeqOKN n seq :=
  fun r hr => ⟨by have := h r hr; omega, (h r hr).2⟩

end UBidi.Expand
namespace UBidi.Expand.Neutral

/-! ### runs -/

theorem runIndices_mapRun (t : Text) (hwf : t.WF) (r : Nat × Nat) (h : r.1 ≤ t.segs.length ∧ r.2 ≤ t.segs.length) :
    runIndices (mapRun t r) = units t (runIndices r) :=
  range_units t hwf r.1 r.2 h.1 h.2

theorem units_append (t : Text) (a b : List Nat) : units t (a ++ b) = units t a ++ units t b := by
  simp [units, List.flatMap_append]

theorem unitsR_append (t : Text) (a b : List Nat) : unitsR t (a ++ b) = unitsR t a ++ unitsR t b := by
  simp [unitsR, List.flatMap_append]

theorem flatMap_mapRun (t : Text) (hwf : t.WF) : ∀ (rs : List (Nat × Nat)),
    (∀ r ∈ rs, r.1 ≤ t.segs.length ∧ r.2 ≤ t.segs.length) →
    (rs.map (mapRun t)).flatMap runIndices = units t (rs.flatMap runIndices)
  | [], _ => rfl
  | r :: rs, h => by
    rw [List.map_cons, List.flatMap_cons, List.flatMap_cons, units_append,
      runIndices_mapRun t hwf r (h r (by simp)), flatMap_mapRun t hwf rs (fun r' hr' => h r' (by simp [hr']))]

theorem flatMap_mapRun_rev (t : Text) (hwf : t.WF) : ∀ (rs : List (Nat × Nat)),
    (∀ r ∈ rs, r.1 ≤ t.segs.length ∧ r.2 ≤ t.segs.length) →
    (rs.map (mapRun t)).flatMap (fun r => (runIndices r).reverse) =
      unitsR t (rs.flatMap (fun r => (runIndices r).reverse))
  | [], _ => rfl
  | r :: rs, h => by
    rw [List.map_cons, List.flatMap_cons, List.flatMap_cons, unitsR_append,
      runIndices_mapRun t hwf r (h r (by simp)), units_reverse,
      flatMap_mapRun_rev t hwf rs (fun r' hr' => h r' (by simp [hr']))]

theorem mem_runIndices {r : Nat × Nat} {k : Nat} (h : k ∈ runIndices r) : k < r.2 := by
  simp only [runIndices, List.mem_range'_1] at h; omega

theorem mem_flatMap_runIndices {rs : List (Nat × Nat)} {n k : Nat} (h : ∀ r ∈ rs, r.1 ≤ n ∧ r.2 ≤ n)
    (hk : k ∈ rs.flatMap runIndices) : k < n := by
  obtain ⟨r, hr, hkr⟩ := List.mem_flatMap.1 hk
  have := mem_runIndices hkr
  have := (h r hr).2
  omega

theorem mem_flatMap_runIndices_rev {rs : List (Nat × Nat)} {n k : Nat} (h : ∀ r ∈ rs, r.1 ≤ n ∧ r.2 ≤ n)
    (hk : k ∈ rs.flatMap (fun r => (runIndices r).reverse)) : k < n := by
  obtain ⟨r, hr, hkr⟩ := List.mem_flatMap.1 hk
  have := mem_runIndices (List.mem_reverse.1 hkr)
  have := (h r hr).2
  omega

/-! ### indices and walks of the mapped sequence -/

theorem indices_mapSeq (t : Text) (hwf : t.WF) (seq : IRSeq) (hs : SeqOKN t.segs.length seq) :
    (mapSeq t seq).indices = units t seq.indices :=
  flatMap_mapRun t hwf seq.runs hs

theorem indices_lt {n : Nat} {seq : IRSeq} (hs : SeqOKN n seq) : ∀ k ∈ seq.indices, k < n :=
  fun _ hk => mem_flatMap_runIndices hs hk

theorem iterForwards_mapSeq (t : Text) (hwf : t.WF) (seq : IRSeq) (hs : SeqOKN t.segs.length seq)
    (c ri : Nat) (hc : c ≤ t.segs.length) :
    (mapSeq t seq).iterForwardsFrom (pos t c) ri = units t (seq.iterForwardsFrom c ri) := by
  unfold IRSeq.iterForwardsFrom
  simp only [mapSeq, ← List.map_drop]
  have hd : ∀ r ∈ seq.runs.drop ri, r.1 ≤ t.segs.length ∧ r.2 ≤ t.segs.length :=
    fun r hr => hs r (List.mem_of_mem_drop hr)
  cases h : seq.runs.drop ri with
  | nil => rfl
  | cons r rest =>
    rw [h] at hd
    simp only [List.map_cons]
    rw [units_append, flatMap_mapRun t hwf rest (fun r' hr' => hd r' (by simp [hr']))]
    congr 1
    exact range_units t hwf c r.2 hc (hd r (by simp)).2

theorem iterForwards_lt {n : Nat} {seq : IRSeq} (hs : SeqOKN n seq) (c ri : Nat) :
    ∀ k ∈ seq.iterForwardsFrom c ri, k < n := by
  intro k hk
  unfold IRSeq.iterForwardsFrom at hk
  have hd : ∀ r ∈ seq.runs.drop ri, r.1 ≤ n ∧ r.2 ≤ n := fun r hr => hs r (List.mem_of_mem_drop hr)
  cases h : seq.runs.drop ri with
  | nil => rw [h] at hk; simp at hk
  | cons r rest =>
    rw [h] at hk hd
    simp only [List.mem_append] at hk
    rcases hk with hk | hk
    · simp only [List.mem_range'_1] at hk
      have := (hd r (by simp)).2
      omega
    · exact mem_flatMap_runIndices (fun r' hr' => hd r' (by simp [hr'])) hk

theorem iterBackwards_mapSeq (t : Text) (hwf : t.WF) (seq : IRSeq) (hs : SeqOKN t.segs.length seq)
    (c ri : Nat) (hc : c ≤ t.segs.length) :
    (mapSeq t seq).iterBackwardsFrom (pos t c) ri = unitsR t (seq.iterBackwardsFrom c ri) := by
  unfold IRSeq.iterBackwardsFrom
  simp only [mapSeq, List.getElem?_map]
  cases h : seq.runs[ri]? with
  | none => rfl
  | some cur =>
    have hcur := hs cur (List.mem_of_getElem? h)
    simp only [Option.map_some]
    rw [unitsR_append, ← List.map_take, ← List.map_reverse,
      flatMap_mapRun_rev t hwf _ (fun r hr => hs r (List.mem_of_mem_take (List.mem_reverse.1 hr)))]
    congr 1
    exact range_unitsR t hwf cur.1 c hcur.1 hc

theorem iterBackwards_lt {n : Nat} {seq : IRSeq} (hs : SeqOKN n seq) (c ri : Nat) (hc : c ≤ n) :
    ∀ k ∈ seq.iterBackwardsFrom c ri, k < n := by
  intro k hk
  unfold IRSeq.iterBackwardsFrom at hk
  cases h : seq.runs[ri]? with
  | none => rw [h] at hk; simp at hk
  | some cur =>
    rw [h] at hk
    simp only [List.mem_append, List.mem_reverse] at hk
    rcases hk with hk | hk
    · simp only [List.mem_range'_1] at hk
      have := (hs cur (List.mem_of_getElem? h)).1
      omega
    · exact mem_flatMap_runIndices_rev (fun r hr => hs r (List.mem_of_mem_take (List.mem_reverse.1 hr))) hk

/-! ### N1/N2 -/

end UBidi.Expand.Neutral
namespace UBidi.Expand
open Neutral

/-- **N1/N2 do not depend on the number of units of a character.** -/
theorem n12_expand (t : Text) (hwf : t.WF) (seq : IRSeq) (hs : SeqOKN t.segs.length seq) (e : BidiClass)
    (pcs1 : Classes) (hl : pcs1.length = t.segs.length) :
    n12 (mapSeq t seq) e (expand t pcs1) = expand t (n12 seq e pcs1) := by
  rw [n12_finish, n12_finish, indices_mapSeq t hwf seq hs]
  have h0 : N12Inv t (fwd t) { pcs := pcs1, prev := seq.sos } :=
    ⟨hl, by intro k hk; simp at hk, by intro k hk; simp at hk⟩
  obtain ⟨h1, h2⟩ := n12_fold_walk t hwf (fwd t) e seq.indices { pcs := pcs1, prev := seq.sos }
    (walkOK_fwd t _ (indices_lt hs)) h0
  have : ({ pcs := expand t pcs1, prev := (mapSeq t seq).sos } : N12State) =
      liftN12 t (fwd t) { pcs := pcs1, prev := seq.sos } := rfl
  simp only [this]
  unfold units
  rw [h1]
  simp only [liftN12]
  rw [setAll_walk t hwf (fwd t) _ _ _ h2.len h2.pend]
  rfl

end UBidi.Expand
namespace UBidi.Expand.Neutral

/-! ### `unitize` -/

theorem length_unitize (t : Text) : (unitize t).segs.length = t.segs.length := by
  simp [unitize]

theorem getElem_unitize (t : Text) (k : Nat) (hk : k < (unitize t).segs.length) :
    (unitize t).segs[k] = { start := k, cp := (t.segs[k]'(by rw [length_unitize] at hk; exact hk)).cp, len := 1 } := by
  simp [unitize]

theorem segsFrom_zipIdx : ∀ (segs : List Seg) (p : Nat),
    SegsFrom p ((segs.zipIdx p).map (fun (x : Seg × Nat) => ({ start := x.2, cp := x.1.cp, len := 1 } : Seg)))
      (p + segs.length)
  | [], p => by simp [SegsFrom]
  | s :: segs, p => by
    simp only [List.zipIdx_cons, List.map_cons, SegsFrom, List.length_cons]
    refine ⟨trivial, by omega, ?_⟩
    have := segsFrom_zipIdx segs (p + 1)
    rw [show p + 1 + segs.length = p + (segs.length + 1) by omega] at this
    exact this

theorem unitize_wf (t : Text) : (unitize t).WF := by
  constructor
  · have := segsFrom_zipIdx t.segs 0
    simpa [unitize] using this
  · intro s hs
    simp only [unitize, List.mem_map] at hs
    obtain ⟨x, _, rfl⟩ := hs
    rfl

theorem pos_unitize (t : Text) {k : Nat} (hk : k ≤ t.segs.length) : pos (unitize t) k = k := by
  by_cases h : k < t.segs.length
  · rw [pos_of_lt _ (by rw [length_unitize]; exact h), getElem_unitize]
  · rw [pos_of_ge _ (by rw [length_unitize]; omega)]
    simp only [unitize]; omega

theorem clen_unitize (t : Text) {k : Nat} (hk : k < t.segs.length) : clen (unitize t) k = 1 := by
  rw [clen_of_lt _ (by rw [length_unitize]; exact hk), getElem_unitize]

/-! ### `charAt` -/

theorem charAt_pos (t : Text) (hwf : t.WF) {k : Nat} (hk : k < t.segs.length) :
    t.charAt (pos t k) = some t.segs[k] := by
  unfold Text.charAt
  rw [List.find?_eq_some_iff_getElem]
  refine ⟨by simp [pos_of_lt t hk], k, hk, rfl, ?_⟩
  intro j hj
  have := pos_lt t hwf hj (by omega)
  rw [pos_of_lt t (by omega)] at this
  simp only [Bool.not_eq_eq_eq_not, Bool.not_true, beq_eq_false_iff_ne, ne_eq]
  omega

theorem charAt_unitize (t : Text) {k : Nat} (hk : k < t.segs.length) :
    (unitize t).charAt k = some { start := k, cp := t.segs[k].cp, len := 1 } := by
  have := charAt_pos (unitize t) (unitize_wf t) (k := k) (by rw [length_unitize]; exact hk)
  rw [pos_unitize t (by omega), getElem_unitize] at this
  exact this

/-! ### the characters of a sequence -/

/-- the character of `t` that corresponds to a character of `unitize t` -/
def liftSeg (t : Text) (s : Seg) : Seg := { start := pos t s.start, cp := s.cp, len := clen t s.start }

theorem filter_segs (t : Text) (hwf : t.WF) (r : Nat × Nat) (h : r.1 ≤ t.segs.length ∧ r.2 ≤ t.segs.length) :
    t.segs.filter (fun s => (mapRun t r).1 ≤ s.start && s.start < (mapRun t r).2) =
      ((unitize t).segs.filter (fun s => r.1 ≤ s.start && s.start < r.2)).map (liftSeg t) := by
  conv => lhs; rw [← List.zipIdx_map_fst 0 t.segs]
  simp only [unitize, List.filter_map, List.map_map]
  have hmem : ∀ x ∈ t.segs.zipIdx, ∃ hk : x.2 < t.segs.length, x.1 = t.segs[x.2] := by
    intro x hx
    rw [List.mem_zipIdx_iff_getElem?] at hx
    obtain ⟨hk, he⟩ := List.getElem?_eq_some_iff.1 hx
    exact ⟨hk, he.symm⟩
  rw [List.filter_congr (q := ((fun s => decide (r.1 ≤ s.start) && decide (s.start < r.2)) ∘
      fun (x : Seg × Nat) => ({ start := x.2, cp := x.1.cp, len := 1 } : Seg)))]
  · apply List.map_congr_left
    intro x hx
    obtain ⟨hk, he⟩ := hmem x (List.mem_filter.1 hx).1
    simp only [Function.comp, liftSeg]
    rw [pos_of_lt t hk, clen_of_lt t hk, ← he]
  · intro x hx
    obtain ⟨hk, he⟩ := hmem x hx
    simp only [Function.comp, mapRun]
    have hst : x.1.start = pos t x.2 := by rw [pos_of_lt t hk, he]
    rw [hst]
    have h1 := pos_le_iff t hwf (a := r.1) (b := x.2) h.1 (by omega)
    have h2 := pos_lt_iff t hwf (a := x.2) (b := r.2) (by omega) h.2
    simp only [h1, h2]

theorem flatMap_congr' {α β} {l : List α} {f g : α → List β} (h : ∀ a ∈ l, f a = g a) :
    l.flatMap f = l.flatMap g := by
  induction l with
  | nil => rfl
  | cons a l ih =>
    simp only [List.flatMap_cons]
    rw [h a (by simp), ih (fun b hb => h b (by simp [hb]))]

theorem seqChars_mapSeq (t : Text) (hwf : t.WF) (seq : IRSeq) (hs : SeqOKN t.segs.length seq) :
    seqChars t (mapSeq t seq) = (seqChars (unitize t) seq).map (fun x => (x.1, liftSeg t x.2)) := by
  unfold seqChars
  simp only [mapSeq, List.zipIdx_map, List.flatMap_map, List.map_flatMap]
  apply flatMap_congr'
  intro x hx
  have hr : x.1 ∈ seq.runs := by
    have : x.1 ∈ (seq.runs.zipIdx).map Prod.fst := List.mem_map.2 ⟨x, hx, rfl⟩
    rwa [List.zipIdx_map_fst] at this
  simp only [Prod.map, id, List.map_map]
  rw [filter_segs t hwf x.1 (hs x.1 hr), List.map_map]
  rfl

/-- every character of `seqChars (unitize t) seq` is a character number `< n` -/
theorem seqChars_unitize_lt (t : Text) (seq : IRSeq) :
    ∀ x ∈ seqChars (unitize t) seq, x.2.start < t.segs.length := by
  intro x hx
  unfold seqChars at hx
  obtain ⟨rk, _, hx⟩ := List.mem_flatMap.1 hx
  obtain ⟨s, hs, rfl⟩ := List.mem_map.1 hx
  have hs := (List.mem_filter.1 hs).1
  obtain ⟨k, hk, rfl⟩ := List.getElem_of_mem hs
  rw [getElem_unitize]
  rw [length_unitize] at hk
  exact hk

end UBidi.Expand.Neutral
