/-
  UBidi.Lemmas.C01WeakInvStep — what the weak stage leaves on the units removed by X9, part 2:
  the induction of `C01WeakBN` / `C01WeakBN2` (`main_bn`) redone with the finer conclusion
  `ConclG` (predicate `MatchG okG` instead of `Match okBN`).  The invariant `Inv`, the loop
  `runFrom`, and all the lemmas about one iteration are the ones of those files.
-/
import UBidi.Lemmas.C01WeakInvMatch
namespace UBidi.Lemmas.C01Weak
open UBidi UBidi.Spec BidiClass

/-- what the loop (and the final flush) produces from a state satisfying `Inv` -/
def ConclG (fin : Classes) (st : WState) (out P : List BidiClass) (b : Nat) (cs : List BidiClass) : Prop :=
  ∃ bns' res,
    fin = out ++ List.replicate P.length (etVal (LA st.prevW1 st.lastStrongIsAL st.prevW4 (fl cs))) ++ bns' ++ res ∧
    bns'.length = b ∧
    (∀ x ∈ bns', okG st.prevW1 x (nxt1 st.prevW1 cs)
      (W st.prevW1 st.lastStrongIsAL st.prevW4 st.prevW5 (fl cs)).head?) ∧
    MatchG okG st.prevW1 cs res (W st.prevW1 st.lastStrongIsAL st.prevW4 st.prevW5 (fl cs))

/-- induction hypothesis: the claim for every rest of length `≤ m` -/
def IHG (n : Nat) (sos eos : BidiClass) (m : Nat) : Prop :=
  ∀ cs : List BidiClass, cs.length ≤ m → ∀ (st : WState) (out P : List BidiClass) (b : Nat), Inv n st out P b cs →
    ConclG (finalOf (runFrom n sos eos st (out.length + P.length + b) cs.length)) st out P b cs

theorem sC2_eq_ET {al : Bool} {c1 : BidiClass} (h : sC2 al c1 = ET) : c1 = ET := by
  cases c1 <;> cases al <;> simp_all [sC2]

/-- every case in which the unit is not left pending (cf. `finish`) -/
theorem finishG (n : Nat) (sos eos : BidiClass) (he : eos = L ∨ eos = R) (m : Nat) (ih : IHG n sos eos m)
    (st : WState) (out P : List BidiClass) (b : Nat) (c : BidiClass) (cs : List BidiClass)
    (hinv : Inv n st out P b (c :: cs)) (hm : cs.length ≤ m) (hc : c ≠ BN)
    (c1 c2 m5 : BidiClass) (al' : Bool)
    (hc1 : sC1 st.prevW1 c = c1) (hal : sAL st.lastStrongIsAL c1 = al') (hc2 : sC2 st.lastStrongIsAL c1 = c2)
    (hm5 : sM5 st.prevW4 st.prevW5 c2 (nextCls al' eos (fl cs)) = m5) (hmET : m5 ≠ ET)
    (j : Nat) (cs' : List BidiClass) (hcs : cs = List.replicate j BN ++ cs')
    (B1 : List BidiClass) (hB1 : B1.length = b) (hB1ok : ∀ x ∈ B1, okG st.prevW1 x (some c1) (some m5))
    (hst1 : weakStep (fun _ => some 1) (seq1 n sos eos) st (0, out.length + P.length + b) =
      { pcs := out ++ List.replicate P.length (etVal (m5 == EN)) ++ B1 ++ m5 :: (List.replicate j ON ++ cs'),
        prevW4 := c2, prevW5 := m5, prevW1 := c1, lastStrongIsAL := al', etRun := [], bnRun := [] })
    (hj : j = 0 ∨ (c1 = c2 ∧ (c2 = ES ∨ c2 = CS) ∧ m5 = ON)) :
    ConclG (finalOf (runFrom n sos eos st (out.length + P.length + b) ((c :: cs).length))) st out P b (c :: cs) := by
  have hc1ne : c1 ≠ BN := by rw [← hc1]; exact sC1_ne_BN hinv.hp1 hc
  have hm5ne : m5 ≠ BN := by rw [← hm5]; exact sM5_ne_BN (by rw [← hc2]; exact sC2_ne_BN hc1ne)
  -- the state after the step and the `j` ON units
  let A1 := out ++ List.replicate P.length (etVal (m5 == EN)) ++ B1 ++ [m5]
  have hA1 : A1.length = out.length + P.length + b + 1 := by simp [A1, hB1]; omega
  let st1 : WState :=
      { pcs := out ++ List.replicate P.length (etVal (m5 == EN)) ++ B1 ++ m5 :: (List.replicate j ON ++ cs'),
        prevW4 := c2, prevW5 := m5, prevW1 := c1, lastStrongIsAL := al', etRun := [], bnRun := [] }
  have hst1p : st1.pcs = A1 ++ List.replicate j ON ++ cs' := by simp [st1, A1]
  obtain ⟨q1, q2, q3, q4, q5⟩ := onSteps n sos eos j A1 cs' st1 hst1p rfl rfl
  rw [hA1] at q1 q2 q3 q4 q5
  have hlen : cs.length = j + cs'.length := by rw [hcs]; simp
  simp only [List.length_cons]
  rw [finalOf_runFrom_cons, hst1, hlen, runFrom_add]
  change ConclG (finalOf (runFrom n sos eos (runFrom n sos eos st1 (out.length + P.length + b + 1) j) _ _)) _ _ _ _ _
  generalize hst2 : runFrom n sos eos st1 (out.length + P.length + b + 1) j = st2 at q1 q2 q3 q4 q5
  -- the invariant holds there
  have hcs'ok : ∀ x ∈ cs', okCls x = true := by
    intro x hx; apply hinv.hcs; rw [hcs]; simp [hx]
  have hinv2 : Inv n st2 (A1 ++ List.replicate j ON) [] 0 cs' := by
    refine ⟨by rw [q1, hst1p]; simp, ?_, by simp [q2], by simp [q3], ?_, ?_, by simp, hcs'ok⟩
    · have := hinv.hn; simp only [List.length_cons] at this
      rw [this, hlen]; simp [hA1]; omega
    · rw [List.append_nil]
      cases j with
      | zero =>
        simp only [List.replicate_zero, List.append_nil]
        exact noTrailBN_concat _ m5 hm5ne
      | succ j =>
        rw [List.replicate_succ', ← List.append_assoc]
        exact noTrailBN_concat _ ON (by decide)
    · by_cases hj0 : 0 < j
      · rw [(q5 hj0).1]; decide
      · have : j = 0 := by omega
        subst this
        rw [← hst2, runFrom_zero]; exact hc1ne
  have hidx : out.length + P.length + b + 1 + j = (A1 ++ List.replicate j ON).length + ([] : List BidiClass).length + 0 := by
    simp [hA1]
  rw [hidx]
  obtain ⟨bns2, res2, hfin, hb2, _, hmatch⟩ := ih cs' (by omega) st2 _ [] 0 hinv2
  have hb2' : bns2 = [] := List.eq_nil_of_length_eq_zero hb2
  subst hb2'
  -- the spec state after the ON units
  have hW : W st2.prevW1 st2.lastStrongIsAL st2.prevW4 st2.prevW5 (fl cs') = W c1 al' c2 m5 (fl cs') := by
    by_cases hj0 : 0 < j
    · obtain ⟨e1, e4, e5⟩ := q5 hj0
      rcases hj with hj | ⟨h12, hsep, hmON⟩
      · omega
      · rw [e1, e4, e5, q4]
        show W ON al' ON ON _ = W c1 al' c2 m5 _
        rw [hmON, ← h12]
        exact (W_sep_ON c1 (h12 ▸ hsep) al' _).symm
    · have : j = 0 := by omega
      subst this
      rw [← hst2, runFrom_zero]
  rw [hW] at hmatch
  -- the tracked W1 state: `c1` itself, or ON after the rewritten BN units of a separator
  have hmatch' : MatchG okG c1 cs' res2 (W c1 al' c2 m5 (fl cs')) := by
    by_cases hj0 : 0 < j
    · obtain ⟨e1, _, _⟩ := q5 hj0
      rcases hj with hj | ⟨h12, hsep, _⟩
      · omega
      · rw [e1] at hmatch
        exact MatchG_sep c1 (h12 ▸ hsep) _ _ _ hmatch
    · have : j = 0 := by omega
      subst this
      rw [← hst2, runFrom_zero] at hmatch
      exact hmatch
  have hjsep : j = 0 ∨ isSepC c1 := by
    rcases hj with hj | ⟨h12, hsep, _⟩
    · exact Or.inl hj
    · exact Or.inr (h12 ▸ hsep)
  -- assemble
  have hfl : fl (c :: cs) = c :: fl cs' := by rw [fl_cons_ne c hc, hcs, fl_replicate_append]
  have hflcs : fl cs = fl cs' := by rw [hcs, fl_replicate_append]
  have hPv : List.replicate P.length (etVal (LA st.prevW1 st.lastStrongIsAL st.prevW4 (c :: fl cs')))
      = List.replicate P.length (etVal (m5 == EN)) := by
    by_cases hP : P = []
    · rw [hP]; rfl
    · have hp5 := (hinv.hk hP).2
      rw [LA_cons eos he _ _ _ st.prevW5, hc1, hal, hc2, ← hflcs, hm5]
      have : (c2 == ET) = false := by
        cases hce : (c2 == ET)
        · rfl
        · exfalso
          have hce' : c2 = ET := by simpa using hce
          subst hce'
          apply hmET
          rw [← hm5, hp5]; rfl
      rw [this]; rfl
  have hso : ∀ la, sOut m5 la = m5 := by intro la; simp [sOut, hmET]
  have hWc : W st.prevW1 st.lastStrongIsAL st.prevW4 st.prevW5 (fl (c :: cs)) = m5 :: W c1 al' c2 m5 (fl cs') := by
    rw [hfl, W_cons eos he, hc1, hal, hc2, ← hflcs, hm5, hso]
  refine ⟨B1, m5 :: (List.replicate j ON ++ res2), ?_, hB1, ?_, ?_⟩
  · rw [hfin, hfl, hPv]; simp [A1]
  · intro x hx
    rw [hWc, nxt1_cons_ne _ _ hc, hc1]
    exact hB1ok x hx
  · rw [hWc, MatchG_cons_ne _ _ _ hc, hc1, hcs]
    exact ⟨rfl, hm5ne, MatchG_ONs c1 j hjsep _ _ _ hmatch'⟩

section cases
variable (n : Nat) (sos eos : BidiClass) (he : eos = L ∨ eos = R) (m : Nat) (ih : IHG n sos eos m)
  (st : WState) (out P : List BidiClass) (b : Nat) (c : BidiClass) (cs : List BidiClass)
  (hinv : Inv n st out P b (c :: cs)) (hm : cs.length ≤ m)

theorem okG_replicate_BN (p1 : BidiClass) (b : Nat) (dh sh : Option BidiClass) :
    ∀ x ∈ List.replicate b BN, okG p1 x dh sh := by
  intro x hx; rw [List.mem_replicate] at hx; rw [hx.2]; exact okG_BN _ _ _

include ih hinv hm in
theorem caseG_BN (hc : c = BN) :
    ConclG (finalOf (runFrom n sos eos st (out.length + P.length + b) ((c :: cs).length))) st out P b (c :: cs) := by
  subst hc
  have hstep := weakStep_BN n sos eos st _ cs hinv.hpA
  rw [lenA] at hstep
  simp only [List.length_cons]
  rw [finalOf_runFrom_cons, hstep]
  have hinv1 : Inv n { st with bnRun := st.bnRun ++ [out.length + P.length + b] } out P (b + 1) cs := by
    refine ⟨?_, ?_, hinv.het, ?_, hinv.hnt, hinv.hp1, hinv.hk, hinv.hcs_tail⟩
    · show st.pcs = _
      rw [hinv.hp]; simp [List.replicate_succ']
    · have := hinv.hn; simp only [List.length_cons] at this; omega
    · show st.bnRun ++ _ = _
      rw [hinv.hbr, List.range'_concat]; simp
  have := ih cs hm _ out P (b + 1) hinv1
  rw [show out.length + P.length + (b + 1) = out.length + P.length + b + 1 by omega] at this
  obtain ⟨bns2, res2, hfin, hb2, hok2, hmatch⟩ := this
  simp only [] at hok2 hmatch
  refine ⟨bns2.take b, bns2.drop b ++ res2, ?_, by simp [hb2], ?_, ?_⟩
  · rw [hfin, fl_cons_BN]
    show _ = out ++ List.replicate P.length (etVal (LA st.prevW1 st.lastStrongIsAL st.prevW4 (fl cs))) ++ _ ++ _
    simp only [List.append_assoc]
    rw [← List.append_assoc (List.take b bns2), List.take_append_drop]
  · intro x hx
    rw [fl_cons_BN, nxt1_cons_BN]
    exact hok2 x (List.mem_of_mem_take hx)
  · rw [fl_cons_BN]
    obtain ⟨x, hx⟩ : ∃ x, bns2.drop b = [x] := by
      have : (bns2.drop b).length = 1 := by simp [hb2]
      exact List.length_eq_one_iff.mp this
    rw [hx]
    simp only [List.cons_append, List.nil_append]
    rw [MatchG_cons_BN]
    refine ⟨hok2 x ?_, hmatch⟩
    have : x ∈ bns2.drop b := by rw [hx]; simp
    exact List.mem_of_mem_drop this

include he ih hinv hm in
theorem caseG_EN (hc : c ≠ BN) (h2 : sC2 st.lastStrongIsAL (sC1 st.prevW1 c) = EN) :
    ConclG (finalOf (runFrom n sos eos st (out.length + P.length + b) ((c :: cs).length))) st out P b (c :: cs) := by
  apply finishG n sos eos he m ih st out P b c cs hinv hm hc _ _ EN _ rfl rfl h2 (by rfl) (by decide) 0 cs (by simp)
    (List.replicate b BN) (by simp) (okG_replicate_BN _ _ _ _) _ (Or.inl rfl)
  have hstep := weakStep_nonBN n sos eos st _ c cs hinv.hpA hc
  rw [h2, stepW456_EN n sos eos st _ c cs hinv.hpA, hinv.het, List.append_assoc (out ++ P), setAll_P, lenA,
    ← List.append_assoc, stepFin_cons _ _ (by simp; omega)] at hstep
  rw [hstep]
  simp [setAll, etVal]

include he ih hinv hm in
theorem caseG_other (hc : c ≠ BN)
    (h : sC2 st.lastStrongIsAL (sC1 st.prevW1 c) ≠ EN ∧ sC2 st.lastStrongIsAL (sC1 st.prevW1 c) ≠ ES ∧
      sC2 st.lastStrongIsAL (sC1 st.prevW1 c) ≠ CS ∧ sC2 st.lastStrongIsAL (sC1 st.prevW1 c) ≠ ET) :
    ConclG (finalOf (runFrom n sos eos st (out.length + P.length + b) ((c :: cs).length))) st out P b (c :: cs) := by
  generalize hc2 : sC2 st.lastStrongIsAL (sC1 st.prevW1 c) = c2 at h
  have hm5 : ∀ nx, sM5 st.prevW4 st.prevW5 c2 nx = c2 := by
    intro nx; cases c2 <;> simp_all [sM5]
  apply finishG n sos eos he m ih st out P b c cs hinv hm hc _ c2 c2 _ rfl rfl hc2 (hm5 _) h.2.2.2 0 cs (by simp)
    (List.replicate b BN) (by simp) (okG_replicate_BN _ _ _ _) _ (Or.inl rfl)
  have hstep := weakStep_nonBN n sos eos st _ c cs hinv.hpA hc
  rw [hc2, stepW456_other n sos eos st _ c cs hinv.hpA _ c2 h, lenA, stepFin_cons _ _ (lenA ..), if_neg h.2.2.2,
    hinv.het, List.append_assoc (out ++ P), setAll_P] at hstep
  rw [hstep]
  have : (c2 == EN) = false := by simp [h.1]
  simp [this, etVal]

include he ih hinv hm in
theorem caseG_ET_EN (hc : c ≠ BN) (h2 : sC2 st.lastStrongIsAL (sC1 st.prevW1 c) = ET) (h5 : st.prevW5 = EN) :
    ConclG (finalOf (runFrom n sos eos st (out.length + P.length + b) ((c :: cs).length))) st out P b (c :: cs) := by
  have hP : P = [] := by
    by_cases hP : P = []
    · exact hP
    · have := (hinv.hk hP).2; rw [this] at h5; cases h5
  subst hP
  have hm5 : ∀ nx, sM5 st.prevW4 st.prevW5 ET nx = EN := by intro nx; simp [sM5, h5]
  apply finishG n sos eos he m ih st out [] b c cs hinv hm hc _ ET EN _ rfl rfl h2 (hm5 _) (by decide) 0 cs (by simp)
    (List.replicate b BN) (by simp) (okG_replicate_BN _ _ _ _) _ (Or.inl rfl)
  have hstep := weakStep_nonBN n sos eos st _ c cs hinv.hpA hc
  rw [h2, stepW456_ET_EN n sos eos st _ c cs hinv.hpA _ h5, lenA, stepFin_cons _ _ (lenA ..), if_neg (by decide),
    hinv.het] at hstep
  rw [hstep]
  simp [setAll]

include he ih hinv hm in
theorem caseG_ET_pend (hc : c ≠ BN) (h2 : sC2 st.lastStrongIsAL (sC1 st.prevW1 c) = ET) (h5 : st.prevW5 ≠ EN) :
    ConclG (finalOf (runFrom n sos eos st (out.length + P.length + b) ((c :: cs).length))) st out P b (c :: cs) := by
  have hstep := weakStep_nonBN n sos eos st _ c cs hinv.hpA hc
  rw [h2, stepW456_ET_pend n sos eos st _ c cs hinv.hpA _ h5, lenA, stepFin_cons _ _ (lenA ..), if_pos rfl,
    hinv.het, hinv.hbr] at hstep
  simp only [List.length_cons]
  rw [finalOf_runFrom_cons, hstep]
  generalize hc1 : sC1 st.prevW1 c = c1 at h2 ⊢
  generalize hal : sAL st.lastStrongIsAL c1 = al'
  have hc1ne : c1 ≠ BN := by rw [← hc1]; exact sC1_ne_BN hinv.hp1 hc
  have hc1ET : c1 = ET := sC2_eq_ET h2
  have hinv1 : Inv n
      { pcs := out ++ P ++ List.replicate b BN ++ ET :: cs, prevW4 := ET, prevW5 := ET, prevW1 := c1,
        lastStrongIsAL := al',
        etRun := List.range' out.length P.length ++ List.range' (out.length + P.length) b ++ [out.length + P.length + b],
        bnRun := [] }
      out (P ++ List.replicate b BN ++ [ET]) 0 cs := by
    refine ⟨by simp, ?_, ?_, by simp, ?_, hc1ne, fun _ => ⟨rfl, rfl⟩, hinv.hcs_tail⟩
    · have := hinv.hn; simp only [List.length_cons] at this; simp; omega
    · show _ ++ _ ++ _ = _
      simp only [List.length_append, List.length_replicate, List.length_cons, List.length_nil]
      exact range'_three _ _ _
    · rw [← List.append_assoc, ← List.append_assoc]; exact noTrailBN_concat _ ET (by decide)
  have := ih cs hm _ out _ 0 hinv1
  rw [show out.length + (P ++ List.replicate b BN ++ [ET]).length + 0 = out.length + P.length + b + 1 by
    simp; omega] at this
  obtain ⟨bns2, res2, hfin, hb2, _, hmatch⟩ := this
  have hb2' : bns2 = [] := List.eq_nil_of_length_eq_zero hb2
  subst hb2'
  simp only [] at hfin hmatch
  have hfl : fl (c :: cs) = c :: fl cs := fl_cons_ne c hc cs
  have hm5 : ∀ nx, sM5 st.prevW4 st.prevW5 ET nx = ET := by intro nx; simp [sM5, h5]
  have hWc : W st.prevW1 st.lastStrongIsAL st.prevW4 st.prevW5 (fl (c :: cs))
      = etVal (LA c1 al' ET (fl cs)) :: W c1 al' ET ET (fl cs) := by
    rw [hfl, W_cons eos he, hc1, hal, h2, hm5]
    simp [sOut]
  refine ⟨List.replicate b (etVal (LA c1 al' ET (fl cs))), etVal (LA c1 al' ET (fl cs)) :: res2, ?_, by simp, ?_, ?_⟩
  · rw [hfin, hfl, LA_cons eos he _ _ _ st.prevW5, hc1, hal, h2]
    simp only [List.length_append, List.length_replicate, List.length_cons, List.length_nil, List.append_nil,
      beq_self_eq_true, if_true]
    rw [show P.length + b + (0 + 1) = P.length + b + 1 by omega, List.replicate_succ',
      ← List.replicate_append_replicate]
    simp
  · intro x hx
    rw [List.mem_replicate] at hx
    rw [hx.2, hWc, nxt1_cons_ne _ _ hc, hc1, hc1ET]
    refine ⟨?_, fun _ => Or.inr (Or.inr (Or.inr rfl))⟩
    cases hla : LA ET al' ET (fl cs)
    · exact Or.inr (Or.inl (by simp [etVal]))
    · exact Or.inr (Or.inr ⟨by simp [etVal], by simp [etVal]⟩)
  · rw [hWc, MatchG_cons_ne _ _ _ hc, hc1]
    exact ⟨rfl, etVal_ne_BN _, hmatch⟩

include he ih hinv hm in
theorem caseG_sep (hc : c ≠ BN)
    (h2 : sC2 st.lastStrongIsAL (sC1 st.prevW1 c) = ES ∨ sC2 st.lastStrongIsAL (sC1 st.prevW1 c) = CS) :
    ConclG (finalOf (runFrom n sos eos st (out.length + P.length + b) ((c :: cs).length))) st out P b (c :: cs) := by
  have h12 := sC2_sep h2
  have hstep := weakStep_nonBN n sos eos st _ c cs hinv.hpA hc
  have hn' : n = (out ++ P ++ List.replicate b BN).length + 1 + cs.length := by
    have := hinv.hn; simp only [List.length_cons] at this; rw [lenA]; omega
  rw [stepW456_sep n sos eos st _ c cs hinv.hpA hn' _ _ h2, hinv.nextR_eq] at hstep
  generalize hc1 : sC1 st.prevW1 c = c1 at h2 h12 hstep ⊢
  generalize hal : sAL st.lastStrongIsAL c1 = al' at hstep
  generalize hc2 : sC2 st.lastStrongIsAL c1 = c2 at h2 h12 hstep
  have hm5 : sM5 st.prevW4 st.prevW5 c2 (nextCls al' eos (fl cs)) = sC3 st.prevW4 c2 (nextCls al' eos (fl cs)) := by
    rcases h2 with rfl | rfl <;> rfl
  generalize hc3 : sC3 st.prevW4 c2 (nextCls al' eos (fl cs)) = c3 at hm5 hstep
  have hc3ET : c3 ≠ ET := by rw [← hc3]; exact sC3_ne_ET _ _ _
  by_cases h3 : c3 = ON
  · subst h3
    obtain ⟨j, cs', hcs, hpre⟩ := bnPre_split ON cs
    rw [if_pos rfl, bnSuf_trail ON _ b hinv.hnt, hpre, lenA, stepFin_cons _ _ (by simp; omega), if_neg (by decide),
      hinv.het, List.append_assoc (out ++ P), setAll_P] at hstep
    apply finishG n sos eos he m ih st out P b c cs hinv hm hc c1 c2 ON al' hc1 hal hc2 hm5 (by decide) j cs' hcs
      (List.replicate b ON) (by simp) ?_ _ (Or.inr ⟨h12.symm, h2, rfl⟩)
    · intro x hx
      rw [List.mem_replicate] at hx
      rw [hx.2]
      refine ⟨Or.inr (Or.inl rfl), fun _ => ?_⟩
      rw [← h12]
      rcases h2 with h2 | h2
      · exact Or.inr (Or.inl (by rw [h2]))
      · exact Or.inr (Or.inr (Or.inl (by rw [h2])))
    · rw [hstep]
      simp only [List.append_assoc]
      rfl
  · have hP : P = [] := by
      by_cases hP : P = []
      · exact hP
      · exfalso; apply h3; rw [← hc3, (hinv.hk hP).1]; rfl
    subst hP
    rw [if_neg h3, lenA, stepFin_cons _ _ (lenA ..), if_neg hc3ET, hinv.het] at hstep
    apply finishG n sos eos he m ih st out [] b c cs hinv hm hc c1 c2 c3 al' hc1 hal hc2 hm5 hc3ET 0 cs (by simp)
      (List.replicate b BN) (by simp) (okG_replicate_BN _ _ _ _) _ (Or.inl rfl)
    rw [hstep]
    simp [setAll]

end cases

theorem baseG_nil (n : Nat) (sos eos : BidiClass) (st : WState) (out P : List BidiClass) (b : Nat)
    (hinv : Inv n st out P b []) :
    ConclG (finalOf (runFrom n sos eos st (out.length + P.length + b) ([] : List BidiClass).length)) st out P b [] := by
  refine ⟨List.replicate b BN, [], ?_, by simp, okG_replicate_BN _ _ _ _, ?_⟩
  · simp only [List.length_nil, runFrom_zero, finalOf]
    rw [hinv.hp, hinv.het, List.append_nil, setAll_P]
    simp [fl, LA_nil, etVal]
  · simp [fl, W_nil, MatchG]

theorem mainG_bn (n : Nat) (sos eos : BidiClass) (he : eos = L ∨ eos = R) : ∀ m, IHG n sos eos m := by
  intro m
  induction m with
  | zero =>
    intro cs hcs st out P b hinv
    have : cs = [] := List.eq_nil_of_length_eq_zero (by omega)
    subst this
    exact baseG_nil n sos eos st out P b hinv
  | succ m ih =>
    intro cs hcs st out P b hinv
    cases cs with
    | nil => exact baseG_nil n sos eos st out P b hinv
    | cons c cs =>
      have hm : cs.length ≤ m := by simp only [List.length_cons] at hcs; omega
      by_cases hc : c = BN
      · exact caseG_BN n sos eos m ih st out P b c cs hinv hm hc
      by_cases h1 : sC2 st.lastStrongIsAL (sC1 st.prevW1 c) = EN
      · exact caseG_EN n sos eos he m ih st out P b c cs hinv hm hc h1
      by_cases h2 : sC2 st.lastStrongIsAL (sC1 st.prevW1 c) = ES ∨ sC2 st.lastStrongIsAL (sC1 st.prevW1 c) = CS
      · exact caseG_sep n sos eos he m ih st out P b c cs hinv hm hc h2
      by_cases h3 : sC2 st.lastStrongIsAL (sC1 st.prevW1 c) = ET
      · by_cases h5 : st.prevW5 = EN
        · exact caseG_ET_EN n sos eos he m ih st out P b c cs hinv hm hc h3 h5
        · exact caseG_ET_pend n sos eos he m ih st out P b c cs hinv hm hc h3 h5
      · refine caseG_other n sos eos he m ih st out P b c cs hinv hm hc ⟨h1, ?_, ?_, h3⟩
        · intro h; exact h2 (Or.inl h)
        · intro h; exact h2 (Or.inr h)

end UBidi.Lemmas.C01Weak
