/-
  C13 — helper lemmas, part 3: level runs (BD7, `Spec.levelRuns`): contiguity, shifting,
  and the runs of a text with a higher-level block inserted between two characters of equal
  level (`levelRuns_split`).
-/
import UBidi.Spec.UAX9
namespace UBidi.Props.C13
open UBidi UBidi.Spec BidiClass

/-! ### level runs -/

def shiftRun (m : Nat) (r : Nat × Nat) : Nat × Nat := (r.1 + m, r.2 + m)

/-- the step of `levelRuns` -/
def consRun (eq : Bool) (pos : Nat) : List (Nat × Nat) → List (Nat × Nat)
  | (a, b) :: rest => if eq then (pos, b) :: rest else (pos, pos + 1) :: (a, b) :: rest
  | [] => [(pos, pos + 1)]

theorem levelRuns_cons_cons (l1 l2 : Nat) (ls : List Nat) (pos : Nat) :
    levelRuns (l1 :: l2 :: ls) pos = consRun (l1 == l2) pos (levelRuns (l2 :: ls) (pos + 1)) := by
  simp only [levelRuns]
  split <;> simp_all [consRun]

theorem consRun_append (eq : Bool) (pos : Nat) (X Y : List (Nat × Nat)) (h : X ≠ []) :
    consRun eq pos (X ++ Y) = consRun eq pos X ++ Y := by
  cases X with
  | nil => exact absurd rfl h
  | cons r X => obtain ⟨a, b⟩ := r; simp only [List.cons_append, consRun]; split <;> simp

theorem levelRuns_shift (ls : List Nat) (pos m : Nat) :
    levelRuns ls (pos + m) = (levelRuns ls pos).map (shiftRun m) := by
  induction ls generalizing pos with
  | nil => simp [levelRuns]
  | cons l ls ih =>
    cases ls with
    | nil => simp [levelRuns, shiftRun]; omega
    | cons l2 ls =>
      simp only [levelRuns]
      have e : pos + m + 1 = pos + 1 + m := by omega
      rw [e, ih (pos + 1)]
      cases h : levelRuns (l2 :: ls) (pos + 1) with
      | nil => simp [shiftRun]
      | cons r rest =>
        obtain ⟨a, b⟩ := r
        simp only [List.map_cons, shiftRun]
        split <;> simp [shiftRun] <;> omega

/-- head of the runs -/
theorem levelRuns_head (l : Nat) (ls : List Nat) (pos : Nat) :
    ∃ b rest, levelRuns (l :: ls) pos = (pos, b) :: rest := by
  cases ls with
  | nil => exact ⟨pos + 1, [], by simp [levelRuns]⟩
  | cons l2 ls =>
    rw [levelRuns_cons_cons]
    cases levelRuns (l2 :: ls) (pos + 1) with
    | nil => exact ⟨_, _, rfl⟩
    | cons r rest =>
      obtain ⟨a, b⟩ := r
      simp only [consRun]
      split
      · exact ⟨_, _, rfl⟩
      · exact ⟨_, _, rfl⟩

/-- contiguous runs from `p` to `q` -/
def Contig : Nat → List (Nat × Nat) → Nat → Prop
  | p, [], q => p = q
  | p, r :: rest, q => r.1 = p ∧ r.1 < r.2 ∧ Contig r.2 rest q

theorem contig_append (p q : Nat) (X Y : List (Nat × Nat)) :
    Contig p (X ++ Y) q ↔ ∃ mid, Contig p X mid ∧ Contig mid Y q := by
  induction X generalizing p with
  | nil => simp [Contig]
  | cons r X ih =>
    simp only [List.cons_append, Contig, ih]
    constructor
    · rintro ⟨h1, h2, mid, h3, h4⟩; exact ⟨mid, ⟨h1, h2, h3⟩, h4⟩
    · rintro ⟨mid, ⟨h1, h2, h3⟩, h4⟩; exact ⟨h1, h2, mid, h3, h4⟩

theorem contig_bounds {p q : Nat} {R : List (Nat × Nat)} (h : Contig p R q) :
    p ≤ q ∧ ∀ r ∈ R, p ≤ r.1 ∧ r.1 < r.2 ∧ r.2 ≤ q := by
  induction R generalizing p with
  | nil => simp [Contig] at h; simp [h]
  | cons r R ih =>
    obtain ⟨h1, h2, h3⟩ := h
    obtain ⟨i1, i2⟩ := ih h3
    refine ⟨by omega, ?_⟩
    intro r' hr'
    rcases List.mem_cons.1 hr' with rfl | hm
    · omega
    · have := i2 r' hm; omega

theorem levelRuns_contig (ls : List Nat) (pos : Nat) : Contig pos (levelRuns ls pos) (pos + ls.length) := by
  induction ls generalizing pos with
  | nil => simp [levelRuns, Contig]
  | cons l ls ih =>
    cases ls with
    | nil => simp [levelRuns, Contig]
    | cons l2 ls =>
      rw [levelRuns_cons_cons]
      have := ih (pos + 1)
      obtain ⟨b, rest, hb⟩ := levelRuns_head l2 ls (pos + 1)
      rw [hb] at this ⊢
      simp only [consRun]
      simp only [Contig, List.length_cons] at this ⊢
      split
      · refine ⟨rfl, by simp; omega, ?_⟩
        have e : pos + (ls.length + 1 + 1) = pos + 1 + (ls.length + 1) := by omega
        rw [e]; exact this.2.2
      · simp only [Contig]
        have e : pos + (ls.length + 1 + 1) = pos + 1 + (ls.length + 1) := by omega
        rw [e]
        exact ⟨trivial, by omega, trivial, this.2.1, this.2.2⟩


theorem levelRuns_join (l1 : List Nat) (c1 c2 : Nat) (l2 : List Nat) (pos : Nat) :
    ∃ R0 x b RT, levelRuns (l1 ++ [c1]) pos = R0 ++ [(x, pos + l1.length + 1)] ∧
      levelRuns (c2 :: l2) (pos + l1.length + 1) = (pos + l1.length + 1, b) :: RT ∧
      levelRuns (l1 ++ c1 :: c2 :: l2) pos =
        if c1 == c2 then R0 ++ (x, b) :: RT
        else R0 ++ (x, pos + l1.length + 1) :: (pos + l1.length + 1, b) :: RT := by
  induction l1 generalizing pos with
  | nil =>
    obtain ⟨b, RT, hb⟩ := levelRuns_head c2 l2 (pos + 1)
    refine ⟨[], pos, b, RT, by simp [levelRuns], by simpa using hb, ?_⟩
    simp only [List.nil_append, levelRuns_cons_cons, hb, consRun, List.length_nil, Nat.add_zero]
  | cons d l1 ih =>
    obtain ⟨R0, x, b, RT, h1, h2, h3⟩ := ih (pos + 1)
    have hl : pos + 1 + l1.length + 1 = pos + (d :: l1).length + 1 := by simp; omega
    rw [hl] at h1 h2 h3
    -- the head of what follows `d`
    obtain ⟨e, tl, he⟩ : ∃ e tl, l1 ++ [c1] = e :: tl := by
      cases l1 with
      | nil => exact ⟨_, _, rfl⟩
      | cons e tl => exact ⟨_, _, rfl⟩
    have he' : l1 ++ c1 :: c2 :: l2 = e :: (tl ++ c2 :: l2) := by
      have : l1 ++ c1 :: c2 :: l2 = (l1 ++ [c1]) ++ c2 :: l2 := by simp
      rw [this, he]; rfl
    have g1 : levelRuns (d :: l1 ++ [c1]) pos = consRun (d == e) pos (R0 ++ [(x, pos + (d :: l1).length + 1)]) := by
      rw [List.cons_append, he, levelRuns_cons_cons, ← he, h1]
    have g3 : levelRuns (d :: l1 ++ c1 :: c2 :: l2) pos =
        consRun (d == e) pos (levelRuns (l1 ++ c1 :: c2 :: l2) (pos + 1)) := by
      rw [List.cons_append, he', levelRuns_cons_cons]
    rw [g1, g3, h3]
    cases R0 with
    | cons r R0 =>
      refine ⟨consRun (d == e) pos (r :: R0), x, b, RT, ?_, h2, ?_⟩
      · rw [consRun_append _ _ _ _ (by simp)]
      · split <;> rw [consRun_append _ _ _ _ (by simp)]
    | nil =>
      -- then x = pos + 1
      have hx : x = pos + 1 := by
        obtain ⟨b', rest', hh⟩ := levelRuns_head e tl (pos + 1)
        rw [← he, h1] at hh
        simp at hh
        exact hh.1.1
      subst hx
      simp only [List.nil_append, consRun]
      by_cases hde : (d == e) = true
      · refine ⟨[], pos, b, RT, by simp [hde], h2, ?_⟩
        by_cases hc : (c1 == c2) = true <;> simp [hc, hde]
      · refine ⟨[(pos, pos + 1)], pos + 1, b, RT, by simp [hde], h2, ?_⟩
        by_cases hc : (c1 == c2) = true <;> simp [hc, hde]


theorem levelRuns_append_ne (l1 : List Nat) (c1 c2 : Nat) (l2 : List Nat) (pos : Nat) (h : c1 ≠ c2) :
    levelRuns (l1 ++ c1 :: c2 :: l2) pos =
      levelRuns (l1 ++ [c1]) pos ++ levelRuns (c2 :: l2) (pos + l1.length + 1) := by
  obtain ⟨R0, x, b, RT, h1, h2, h3⟩ := levelRuns_join l1 c1 c2 l2 pos
  have : (c1 == c2) = false := by simpa using h
  rw [h3, h1, h2, this]
  simp

/-- the level runs of a text with a (non-empty) higher-level block `LC` between two characters of
    level `cur`, against the level runs of the text without the block -/
theorem levelRuns_split (LA : List Nat) (cur : Nat) (LC LB : List Nat) (hne : LC ≠ [])
    (hC : ∀ l ∈ LC, l ≠ cur) :
    ∃ R0 x b RT,
      levelRuns (LA ++ cur :: cur :: LB) 0 = R0 ++ (x, b) :: RT ∧
      levelRuns (LA ++ cur :: (LC ++ cur :: LB)) 0 =
        R0 ++ (x, LA.length + 1) ::
          (levelRuns LC (LA.length + 1) ++
            (LA.length + 1 + LC.length, b + LC.length) :: RT.map (shiftRun LC.length)) ∧
      Contig 0 R0 x ∧ x < LA.length + 1 ∧ LA.length + 1 < b ∧ Contig b RT (LA.length + 2 + LB.length) := by
  obtain ⟨R0, x, b, RT, h1, h2, h3⟩ := levelRuns_join LA cur cur LB 0
  simp only [Nat.zero_add, beq_self_eq_true, if_true] at h1 h2 h3
  refine ⟨R0, x, b, RT, h3, ?_, ?_⟩
  · -- first boundary
    obtain ⟨c, LC', rfl⟩ : ∃ c LC', LC = c :: LC' := by
      cases LC with
      | nil => exact absurd rfl hne
      | cons c LC' => exact ⟨_, _, rfl⟩
    have hc : cur ≠ c := fun e => hC c (by simp) e.symm
    rw [List.cons_append, levelRuns_append_ne LA cur c _ 0 hc, h1]
    simp only [Nat.zero_add, List.append_assoc, List.cons_append, List.nil_append]
    congr 2
    -- second boundary
    obtain ⟨LC'', cl, hcl⟩ : ∃ LC'' cl, c :: LC' = LC'' ++ [cl] := by
      have := List.eq_nil_or_concat (c :: LC')
      rcases this with h | ⟨L, b, h⟩
      · simp at h
      · exact ⟨L, b, by simpa using h⟩
    have hl : cl ≠ cur := hC cl (by rw [hcl]; simp)
    have e : (c :: (LC' ++ cur :: LB)) = LC'' ++ cl :: cur :: LB := by
      have : c :: (LC' ++ cur :: LB) = (c :: LC') ++ cur :: LB := rfl
      rw [this, hcl]; simp
    rw [e, levelRuns_append_ne LC'' cl cur LB _ hl, ← hcl]
    congr 1
    have hlen : LA.length + 1 + LC''.length + 1 = LA.length + 1 + (c :: LC').length := by
      rw [hcl]; simp; omega
    rw [hlen, levelRuns_shift, h2]
    simp [shiftRun]
  · have c1 := levelRuns_contig (LA ++ [cur]) 0
    rw [h1, contig_append] at c1
    obtain ⟨mid, c1a, c1b⟩ := c1
    simp only [Contig] at c1b
    have c2 := levelRuns_contig (cur :: LB) (LA.length + 1)
    rw [h2] at c2
    simp only [Contig, List.length_cons] at c2
    obtain ⟨rfl, hx, _⟩ := c1b
    refine ⟨c1a, hx, c2.2.1, ?_⟩
    have : LA.length + 2 + LB.length = LA.length + 1 + (LB.length + 1) := by omega
    rw [this]; exact c2.2.2

end UBidi.Props.C13
