/-
  C01 stage lemma StageN, part 4: N0 and the whole of `resolveNeutral` for a sequence made of
  any number of level runs (isolates), single-unit characters, no BN / removed characters.
  This is where the crate's `iter_forwards_from` / `iter_backwards_from` walks over a multi-run
  sequence are checked against the Spec's plain list positions.
-/
import UBidi.Model.Implicit
import UBidi.Spec.UAX9
import UBidi.Lemmas.C01NeutralN0
namespace UBidi.Lemmas.C01Neutral
open UBidi UBidi.BidiClass

/-! ### gathering a per-unit array at the indices of a sequence -/

theorem gather_set (U : List Nat) (hnd : U.Nodup) (xs : Classes) (k : Nat) (hk : k < U.length)
    (hlt : U[k] < xs.length) (v : BidiClass) :
    U.map (cget (xs.set U[k] v)) = (U.map (cget xs)).set k v := by
  apply List.ext_getElem
  · simp
  · intro j h1 h2
    have hj : j < U.length := by simpa using h1
    simp only [List.getElem_map, List.getElem_set, cget_set]
    by_cases hjk : k = j
    · subst hjk; simp [hlt]
    · have : ¬ U[k] = U[j] := fun h => hjk ((List.getElem_inj hnd).1 h)
      simp [hjk, this]

theorem getElem_append_mid (P S : List Nat) (s : Nat) : (P ++ s :: S)[P.length]? = some s := by
  simp

/-- the forward NSM sweep over a suffix `S` of the sequence's index list `P ++ S`, read at the
    sequence's indices, is the Spec's `nsmAfter` from position `|P|` -/
theorem sweep_gather (ocs : Classes) (v : BidiClass) (hv : v ≠ BN) :
    ∀ (S P : List Nat) (xs : Classes) (fuel : Nat), (P ++ S).Nodup → (∀ i ∈ P ++ S, i < xs.length) →
      NoBN xs → S.length ≤ fuel → (∀ i ∈ S, (cget ocs i).removedByX9 = false) →
      (setWhileNsmOrBN ocs xs S v).length = xs.length ∧ NoBN (setWhileNsmOrBN ocs xs S v) ∧
      (∀ j, j ∉ S → cget (setWhileNsmOrBN ocs xs S v) j = cget xs j) ∧
      (P ++ S).map (cget (setWhileNsmOrBN ocs xs S v)) =
        Spec.n0One.nsmAfter ((P ++ S).map (fun u => cget ocs u == NSM)) v fuel P.length
          ((P ++ S).map (cget xs)) := by
  intro S
  induction S with
  | nil =>
    intro P xs fuel _ _ hnb _ _
    refine ⟨rfl, hnb, fun _ _ => rfl, ?_⟩
    simp only [setWhileNsmOrBN, List.append_nil]
    cases fuel with
    | zero => rfl
    | succ f => simp [Spec.n0One.nsmAfter]
  | cons s S ih =>
    intro P xs fuel hnd hlt hnb hfuel hrem
    obtain ⟨f, rfl⟩ : ∃ f, fuel = f + 1 := ⟨fuel - 1, by simp at hfuel; omega⟩
    have hb : (cget ocs s).removedByX9 = false := hrem s (by simp)
    have hcond : ((P ++ s :: S).map (fun u => cget ocs u == NSM)).getD P.length false = (cget ocs s == NSM) := by
      simp [List.getD_eq_getElem?_getD]
    simp only [setWhileNsmOrBN, hb, Spec.n0One.nsmAfter, hcond]
    by_cases hc : (cget ocs s == NSM) = true
    · simp only [hc, if_true]
      have hnd' : ((P ++ [s]) ++ S).Nodup := by simpa using hnd
      have hs : s < xs.length := hlt s (by simp)
      have hlt' : ∀ i ∈ (P ++ [s]) ++ S, i < (xs.set s v).length := by
        intro i hi; rw [List.length_set]; exact hlt i (by simpa using hi)
      obtain ⟨i1, i2, i3, i4⟩ := ih (P ++ [s]) (xs.set s v) f hnd' hlt' (hnb.set s hv)
        (by simp at hfuel; omega) (fun i hi => hrem i (by simp [hi]))
      have hsS : s ∉ S := by
        have := List.nodup_append.1 hnd
        exact (List.nodup_cons.1 this.2.1).1
      refine ⟨by rw [i1]; simp, i2, ?_, ?_⟩
      · intro j hj
        simp only [List.mem_cons, not_or] at hj
        rw [i3 j hj.2, cget_set]; simp [Ne.symm hj.1]
      · have e1 : (P ++ [s]) ++ S = P ++ s :: S := by simp
        rw [e1] at i4
        rw [i4]
        have hk : P.length < (P ++ s :: S).length := by simp
        have hUk : (P ++ s :: S)[P.length] = s := by simp
        have := gather_set (P ++ s :: S) hnd xs P.length hk (by rw [hUk]; exact hs) v
        rw [hUk] at this
        rw [this]
        simp
    · simp only [hc, Bool.false_eq_true, if_false]
      exact ⟨trivial, hnb, fun _ _ => trivial, trivial⟩


/-- **N0 for one pair, any number of runs** (single-unit characters, no BN).  The sequence's
    index list is `A ++ o :: M ++ c :: Z` with `o`, `c` the pair; the two forward walks and the
    backward walk of the crate are the corresponding pieces. -/
theorem n0Pair_units (t : Text) (hwf : t.WF) (h1 : ∀ s ∈ t.segs, s.len = 1) (seq : IRSeq)
    (e : BidiClass) (he : e = L ∨ e = R) (hs : seq.sos = L ∨ seq.sos = R)
    (ocs pcs : Classes) (hnb : NoBN pcs) (pair : BracketPair) (A M Z : List Nat)
    (hU : seq.indices = A ++ pair.start :: (M ++ pair.stop :: Z))
    (hfw1 : seq.iterForwardsFrom (pair.start + 1) pair.startRun = M ++ pair.stop :: Z)
    (hfw2 : seq.iterForwardsFrom (pair.stop + 1) pair.endRun = Z)
    (hbw : seq.iterBackwardsFrom pair.start pair.startRun = A.reverse)
    (hM : ∀ i ∈ M, i < pair.stop)
    (hnd : seq.indices.Nodup) (hlt : ∀ i ∈ seq.indices, i < pcs.length)
    (hstart : pair.start < t.len) (hstop : pair.stop < t.len)
    (hocs : ∀ u ∈ seq.indices, (cget ocs u).removedByX9 = false) :
    ∃ pcs', n0Pair t seq e ocs (pcs, none) pair = (pcs', none) ∧ pcs'.length = pcs.length ∧ NoBN pcs' ∧
      (∀ j, j ∉ seq.indices → cget pcs' j = cget pcs j) ∧
      seq.indices.map (cget pcs') =
        Spec.n0One seq.sos e (seq.indices.map (fun u => cget ocs u == NSM)) (seq.indices.map (cget pcs))
          (A.length, A.length + 1 + M.length) := by
  obtain ⟨o, c, sr, er⟩ := pair
  simp only at hU hfw1 hfw2 hbw hM hstart hstop
  obtain ⟨sseg, hcs, hls⟩ := charAt_unit t hwf h1 o hstart
  obtain ⟨eseg, hce, hle⟩ := charAt_unit t hwf h1 c hstop
  -- the scan
  have hscan := scanEnclosed_spec pcs e he c c Z (Nat.le_refl _) M false hM
  -- prev
  have hprev := prevStrong_spec seq.sos hs (A.reverse.map (cget pcs))
  have hLR := strongHead_LR seq.sos hs (A.reverse.map (cget pcs))
  -- the Spec's pieces
  have hts : seq.indices.map (cget pcs) =
      A.map (cget pcs) ++ cget pcs o :: (M.map (cget pcs) ++ cget pcs c :: Z.map (cget pcs)) := by
    rw [hU]; simp
  have hinside : List.drop (A.length + 1) (List.take (A.length + 1 + M.length) (seq.indices.map (cget pcs))) =
      M.map (cget pcs) := by
    rw [hts]
    have e1 : A.map (cget pcs) ++ cget pcs o :: (M.map (cget pcs) ++ cget pcs c :: Z.map (cget pcs)) =
        (A.map (cget pcs) ++ cget pcs o :: M.map (cget pcs)) ++ (cget pcs c :: Z.map (cget pcs)) := by simp
    rw [e1, List.take_left' (by simp; omega)]
    have e2 : A.map (cget pcs) ++ cget pcs o :: M.map (cget pcs) =
        (A.map (cget pcs) ++ [cget pcs o]) ++ M.map (cget pcs) := by simp
    rw [e2, List.drop_left' (by simp)]
  have hbefore : (List.take A.length (seq.indices.map (cget pcs))).reverse = A.reverse.map (cget pcs) := by
    rw [hts, List.take_left' (by simp), List.map_reverse]
  unfold n0Pair Spec.n0One
  simp only [hcs, hce, hls, hle, hfw1, hfw2, hbw, hinside, hbefore]
  simp only [notEOf] at hscan
  simp only at hprev
  rw [hprev]
  generalize scanEnclosed pcs e (if (e == L) = true then R else L) c (M ++ c :: Z) false = F at hscan ⊢
  generalize List.filterMap Spec.strongOfN0 (M.map (cget pcs)) = S at hscan ⊢
  generalize (List.filterMap Spec.strongOfN0 (A.reverse.map (cget pcs))).head?.getD seq.sos = Bf at hLR ⊢
  -- the writes, for any value `v ≠ BN`
  have hw : ∀ v, v ≠ BN → ∃ pcs',
      setWhileNsmOrBN ocs (setWhileNsmOrBN ocs (setWhileBN (setRange (setRange pcs o 1 v) c 1 v) A.reverse v)
          (M ++ c :: Z) v) Z v = pcs' ∧ pcs'.length = pcs.length ∧ NoBN pcs' ∧
      (∀ j, j ∉ seq.indices → cget pcs' j = cget pcs j) ∧
      seq.indices.map (cget pcs') =
        Spec.n0One.nsmAfter (seq.indices.map (fun u => cget ocs u == NSM)) v
          (Spec.n0One.nsmAfter (seq.indices.map (fun u => cget ocs u == NSM)) v
            (((seq.indices.map (cget pcs)).set A.length v).set (A.length + 1 + M.length) v).length (A.length + 1)
            (((seq.indices.map (cget pcs)).set A.length v).set (A.length + 1 + M.length) v)).length
          (A.length + 1 + M.length + 1)
          (Spec.n0One.nsmAfter (seq.indices.map (fun u => cget ocs u == NSM)) v
            (((seq.indices.map (cget pcs)).set A.length v).set (A.length + 1 + M.length) v).length (A.length + 1)
            (((seq.indices.map (cget pcs)).set A.length v).set (A.length + 1 + M.length) v)) := by
    intro v hv
    have hoU : o ∈ seq.indices := by rw [hU]; simp
    have hcU : c ∈ seq.indices := by rw [hU]; simp
    have ho : o < pcs.length := hlt o hoU
    have hc : c < pcs.length := hlt c hcU
    have hkA : A.length < seq.indices.length := by rw [hU]; simp
    have hkC : A.length + 1 + M.length < seq.indices.length := by rw [hU]; simp; omega
    have hUo : seq.indices[A.length] = o := by simp [hU]
    have hUc : seq.indices[A.length + 1 + M.length] = c := by
      have e1 : A ++ o :: (M ++ c :: Z) = (A ++ o :: M) ++ c :: Z := by simp
      simp only [hU, e1]
      rw [List.getElem_append_right (by simp; omega)]
      simp
      have : A.length + 1 + M.length - (A.length + (M.length + 1)) = 0 := by omega
      simp [this]
    have hX : NoBN ((pcs.set o v).set c v) := (hnb.set o hv).set c hv
    have hXl : ((pcs.set o v).set c v).length = pcs.length := by simp
    have hg1 := gather_set seq.indices hnd pcs A.length hkA (by rw [hUo]; exact ho) v
    rw [hUo] at hg1
    have hg2 := gather_set seq.indices hnd (pcs.set o v) (A.length + 1 + M.length) hkC
      (by rw [hUc, List.length_set]; exact hc) v
    rw [hUc, hg1] at hg2
    rw [setRange_one, setRange_one, setWhileBN_noBN hX]
    -- first sweep
    have hU1 : seq.indices = (A ++ [o]) ++ (M ++ c :: Z) := by rw [hU]; simp
    have hs1 := sweep_gather ocs v hv (M ++ c :: Z) (A ++ [o]) ((pcs.set o v).set c v)
      (((seq.indices.map (cget pcs)).set A.length v).set (A.length + 1 + M.length) v).length
      (by rw [← hU1]; exact hnd) (by rw [← hU1, hXl]; exact hlt) hX
      (by simp [hU]; omega) (fun i hi => hocs i (by rw [hU1]; exact List.mem_append_right _ hi))
    rw [← hU1, hg2] at hs1
    obtain ⟨a1, a2, a3, a4⟩ := hs1
    simp only [List.length_append, List.length_singleton] at a4
    -- second sweep
    have hU2 : seq.indices = (A ++ o :: (M ++ [c])) ++ Z := by rw [hU]; simp
    have hs2 := sweep_gather ocs v hv Z (A ++ o :: (M ++ [c]))
      (setWhileNsmOrBN ocs ((pcs.set o v).set c v) (M ++ c :: Z) v)
      (Spec.n0One.nsmAfter (seq.indices.map (fun u => cget ocs u == NSM)) v
        (((seq.indices.map (cget pcs)).set A.length v).set (A.length + 1 + M.length) v).length (A.length + 1)
        (((seq.indices.map (cget pcs)).set A.length v).set (A.length + 1 + M.length) v)).length
      (by rw [← hU2]; exact hnd) (by rw [← hU2, a1, hXl]; exact hlt) a2
      (by rw [← a4]; simp [hU]; omega) (fun i hi => hocs i (by rw [hU2]; exact List.mem_append_right _ hi))
    rw [← hU2, a4] at hs2
    obtain ⟨b1, b2, b3, b4⟩ := hs2
    have hlen2 : (A ++ o :: (M ++ [c])).length = A.length + 1 + M.length + 1 := by simp; omega
    rw [hlen2] at b4
    refine ⟨_, rfl, by rw [b1, a1, hXl], b2, ?_, b4⟩
    intro j hj
    have hjZ : j ∉ Z := fun h => hj (by rw [hU]; simp [h])
    have hjS : j ∉ M ++ c :: Z := fun h => hj (by rw [hU]; simp at h ⊢; right; right; exact h)
    have hjo : o ≠ j := fun h => hj (h ▸ hoU)
    have hjc : c ≠ j := fun h => hj (h ▸ hcU)
    rw [b3 j hjZ, a3 j hjS, cget_set, cget_set]
    simp [hjo, hjc]
  cases hA : S.contains e
  · have h2 := hscan.2 (by rw [hscan.1, hA])
    rw [hscan.1, hA, h2]
    simp only [Bool.false_or, Bool.false_eq_true, if_false]
    cases hB : S.contains (if (e == L) = true then R else L)
    · simp only [Bool.false_eq_true, if_false]
      exact ⟨pcs, rfl, rfl, hnb, fun _ _ => rfl, rfl⟩
    · have hv : (if (Bf == if (e == L) = true then R else L) = true then (if (e == L) = true then R else L) else e) = Bf := by
        rcases he with rfl | rfl <;> rcases hLR with rfl | rfl <;> rfl
      have hBBN : Bf ≠ BN := by rcases hLR with rfl | rfl <;> decide
      simp only [if_true, hv]
      obtain ⟨pcs', h⟩ := hw Bf hBBN
      exact ⟨pcs', by rw [h.1], h.2⟩
  · rw [hscan.1, hA]
    simp only [if_true]
    have heBN : e ≠ BN := by rcases he with rfl | rfl <;> decide
    obtain ⟨pcs', h⟩ := hw e heBN
    exact ⟨pcs', by rw [h.1], h.2⟩


/-! ### the walks of `IRSeq` -/

theorem runs_split (runs : List (Nat × Nat)) (r : Nat) (ab : Nat × Nat) (hr : runs[r]? = some ab) :
    runs = runs.take r ++ ab :: runs.drop (r + 1) := by
  have hlt : r < runs.length := by
    rcases Nat.lt_or_ge r runs.length with h | h
    · exact h
    · rw [List.getElem?_eq_none h] at hr; cases hr
  have hab : runs[r] = ab := by rw [List.getElem?_eq_getElem hlt] at hr; exact Option.some.inj hr
  conv => lhs; rw [← List.take_append_drop r runs]
  rw [List.drop_eq_getElem_cons hlt, hab]

theorem range_at (a b u : Nat) (hau : a ≤ u) (hub : u < b) :
    List.range' a (b - a) = List.range' a (u - a) ++ u :: List.range' (u + 1) (b - (u + 1)) := by
  have h1 : u :: List.range' (u + 1) (b - (u + 1)) = List.range' u (b - u) := by
    have : b - u = (b - (u + 1)) + 1 := by omega
    rw [this, List.range'_succ]
  rw [h1]
  have h3 : u = a + (u - a) := by omega
  conv => rhs; rhs; rw [h3]
  rw [List.range'_append_1]
  congr 1; omega

/-- the unit `u` of run number `r` splits the sequence's index list; the crate's forward walk
    from `u+1` is the part after `u`, its backward walk from `u` is the part before, reversed
    (this is the statement that the D1 fix — reversing each earlier run — is right) -/
theorem iter_split (seq : IRSeq) (r a b : Nat) (hr : seq.runs[r]? = some (a, b)) (u : Nat)
    (hau : a ≤ u) (hub : u < b) :
    seq.indices = ((seq.runs.take r).flatMap runIndices ++ List.range' a (u - a)) ++
        u :: (List.range' (u + 1) (b - (u + 1)) ++ (seq.runs.drop (r + 1)).flatMap runIndices) ∧
    seq.iterForwardsFrom (u + 1) r =
        List.range' (u + 1) (b - (u + 1)) ++ (seq.runs.drop (r + 1)).flatMap runIndices ∧
    seq.iterBackwardsFrom u r = ((seq.runs.take r).flatMap runIndices ++ List.range' a (u - a)).reverse := by
  have hsp := runs_split seq.runs r (a, b) hr
  refine ⟨?_, ?_, ?_⟩
  · unfold IRSeq.indices
    conv => lhs; rw [hsp]
    simp only [List.flatMap_append, List.flatMap_cons, runIndices, range_at a b u hau hub, List.append_assoc,
      List.cons_append]
  · unfold IRSeq.iterForwardsFrom
    have hd : seq.runs.drop r = (a, b) :: seq.runs.drop (r + 1) := by
      have hlt : r < seq.runs.length := by
        rcases Nat.lt_or_ge r seq.runs.length with h | h
        · exact h
        · rw [List.getElem?_eq_none h] at hr; cases hr
      rw [List.drop_eq_getElem_cons hlt]
      rw [List.getElem?_eq_getElem hlt] at hr
      rw [Option.some.inj hr]
    rw [hd]
  · unfold IRSeq.iterBackwardsFrom
    rw [hr]
    simp only [List.reverse_append, List.reverse_flatMap]
    rfl


/-! ### the characters of a sequence in a single-unit text -/

theorem filter_range_interval (n a b : Nat) (hb : b ≤ n) :
    (List.range' 0 n).filter (fun i => decide (a ≤ i) && decide (i < b)) = List.range' a (b - a) := by
  by_cases hab : a ≤ b
  · have h1 : List.range' 0 n = List.range' 0 a ++ (List.range' a (b - a) ++ List.range' b (n - b)) := by
      have e2 : List.range' a (b - a) ++ List.range' b (n - b) = List.range' a (n - a) := by
        have : b = a + (b - a) := by omega
        conv => lhs; rhs; rw [this]
        rw [List.range'_append_1]; congr 1; omega
      rw [e2]
      have : List.range' a (n - a) = List.range' (0 + a) (n - a) := by simp
      rw [this, List.range'_append_1]; congr 1; omega
    rw [h1, List.filter_append, List.filter_append]
    have f1 : (List.range' 0 a).filter (fun i => decide (a ≤ i) && decide (i < b)) = [] := by
      rw [List.filter_eq_nil_iff]; intro i hi; rw [List.mem_range'_1] at hi; simp; omega
    have f2 : (List.range' a (b - a)).filter (fun i => decide (a ≤ i) && decide (i < b)) = List.range' a (b - a) := by
      rw [List.filter_eq_self]; intro i hi; rw [List.mem_range'_1] at hi; simp; omega
    have f3 : (List.range' b (n - b)).filter (fun i => decide (a ≤ i) && decide (i < b)) = [] := by
      rw [List.filter_eq_nil_iff]; intro i hi; rw [List.mem_range'_1] at hi; simp; omega
    rw [f1, f2, f3]; simp
  · have : b - a = 0 := by omega
    rw [this, List.range'_zero, List.filter_eq_nil_iff]
    intro i _; simp; omega

/-- in a single-unit text the characters of the sequence sit exactly at the sequence's indices -/
theorem seqChars_starts (t : Text) (hwf : t.WF) (h1 : ∀ s ∈ t.segs, s.len = 1) (seq : IRSeq)
    (hbound : ∀ r ∈ seq.runs, r.2 ≤ t.len) :
    (seqChars t seq).map (fun x => x.2.start) = seq.indices := by
  obtain ⟨hst, hlen⟩ := segs_unit_starts t.segs 0 t.len hwf.tiles h1
  have hlen' : t.segs.length = t.len := by omega
  unfold seqChars IRSeq.indices
  rw [List.map_flatMap]
  have hz : seq.runs = seq.runs.zipIdx.map Prod.fst := by simp
  conv => rhs; rw [hz, List.flatMap_map]
  apply flatMap_congr'
  rintro ⟨r, k⟩ hrk
  have hr : r ∈ seq.runs := by
    have := List.mem_map_of_mem (f := Prod.fst) hrk
    rw [← hz] at this; exact this
  simp only [List.map_map, runIndices]
  have e1 : ((fun x : Nat × Seg => x.2.start) ∘ fun s : Seg => (k, s)) = (·.start) := rfl
  rw [e1]
  have e2 : (fun s : Seg => decide (r.1 ≤ s.start) && decide (s.start < r.2)) =
      (fun i => decide (r.1 ≤ i) && decide (i < r.2)) ∘ (·.start) := rfl
  rw [e2, ← List.filter_map, hst, hlen']
  exact filter_range_interval t.len r.1 r.2 (hbound r hr)

/-- every character of the sequence lies in the run it is labelled with -/
theorem seqChars_run (t : Text) (seq : IRSeq) :
    ∀ x ∈ seqChars t seq, ∃ a b, seq.runs[x.1]? = some (a, b) ∧ a ≤ x.2.start ∧ x.2.start < b := by
  intro x hx
  unfold seqChars at hx
  rw [List.mem_flatMap] at hx
  obtain ⟨⟨r, k⟩, hrk, hx⟩ := hx
  simp only [List.mem_map, List.mem_filter, Bool.and_eq_true, decide_eq_true_eq] at hx
  obtain ⟨s, ⟨_, h2, h3⟩, rfl⟩ := hx
  have := List.mem_zipIdx hrk
  refine ⟨r.1, r.2, ?_, h2, h3⟩
  simp only [Nat.zero_le, Nat.zero_add, Nat.sub_zero, true_and] at this
  rw [List.getElem?_eq_getElem this.1, ← this.2]


/-! ### assembling -/

theorem nodup_decomp (U pre post : List Nat) (u k : Nat) (hnd : U.Nodup) (hU : U = pre ++ u :: post)
    (hk : U[k]? = some u) : pre = U.take k ∧ post = U.drop (k + 1) := by
  have hkl : k < U.length := by
    rcases Nat.lt_or_ge k U.length with h | h
    · exact h
    · rw [List.getElem?_eq_none h] at hk; cases hk
  have hpl : pre.length < U.length := by rw [hU]; simp
  have h1 : U[pre.length] = u := by simp [hU]
  have h2 : U[k] = u := by rw [List.getElem?_eq_getElem hkl] at hk; exact Option.some.inj hk
  have hkp : pre.length = k := (List.getElem_inj hnd).1 (h1.trans h2.symm)
  subst hkp
  constructor
  · rw [hU, List.take_left' rfl]
  · rw [hU]
    have : pre ++ u :: post = (pre ++ [u]) ++ post := by simp
    rw [this, List.drop_left' (by simp)]

/-- the crate's pair `p` is the Spec's pair `sp` (positions in the sequence's index list) -/
structure PairAt (seq : IRSeq) (p : BracketPair) (sp : Nat × Nat) : Prop where
  lt : sp.1 < sp.2
  start : seq.indices[sp.1]? = some p.start
  stop : seq.indices[sp.2]? = some p.stop
  startRun : ∃ a b, seq.runs[p.startRun]? = some (a, b) ∧ a ≤ p.start ∧ p.start < b
  endRun : ∃ a b, seq.runs[p.endRun]? = some (a, b) ∧ a ≤ p.stop ∧ p.stop < b

theorem n0Pair_at (t : Text) (hwf : t.WF) (h1 : ∀ s ∈ t.segs, s.len = 1) (seq : IRSeq)
    (e : BidiClass) (he : e = L ∨ e = R) (hs : seq.sos = L ∨ seq.sos = R)
    (ocs pcs : Classes) (hnb : NoBN pcs) (hsorted : seq.indices.Pairwise (· < ·))
    (hlt : ∀ i ∈ seq.indices, i < pcs.length) (hpl : pcs.length = t.len)
    (p : BracketPair) (sp : Nat × Nat) (hat : PairAt seq p sp)
    (hocs : ∀ u ∈ seq.indices, (cget ocs u).removedByX9 = false) :
    ∃ pcs', n0Pair t seq e ocs (pcs, none) p = (pcs', none) ∧ pcs'.length = pcs.length ∧ NoBN pcs' ∧
      (∀ j, j ∉ seq.indices → cget pcs' j = cget pcs j) ∧
      seq.indices.map (cget pcs') =
        Spec.n0One seq.sos e (seq.indices.map (fun u => cget ocs u == NSM)) (seq.indices.map (cget pcs)) sp := by
  have hnd : seq.indices.Nodup := hsorted.imp (fun h => Nat.ne_of_lt h)
  obtain ⟨a1, b1, hr1, ha1, hb1⟩ := hat.startRun
  obtain ⟨a2, b2, hr2, ha2, hb2⟩ := hat.endRun
  obtain ⟨s1, s2, s3⟩ := iter_split seq p.startRun a1 b1 hr1 p.start ha1 hb1
  obtain ⟨e1, e2, _⟩ := iter_split seq p.endRun a2 b2 hr2 p.stop ha2 hb2
  obtain ⟨d1, d2⟩ := nodup_decomp _ _ _ _ _ hnd s1 hat.start
  obtain ⟨d3, d4⟩ := nodup_decomp _ _ _ _ _ hnd e1 hat.stop
  rw [d1] at s3
  rw [d2] at s2
  rw [d4] at e2
  have hk2 : sp.2 < seq.indices.length := by
    rcases Nat.lt_or_ge sp.2 seq.indices.length with h | h
    · exact h
    · have := hat.stop; rw [List.getElem?_eq_none h] at this; cases this
  have hk1 : sp.1 < seq.indices.length := by have := hat.lt; omega
  have hU2 : seq.indices[sp.2] = p.stop := by
    have := hat.stop; rw [List.getElem?_eq_getElem hk2] at this; exact Option.some.inj this
  have hU1 : seq.indices[sp.1] = p.start := by
    have := hat.start; rw [List.getElem?_eq_getElem hk1] at this; exact Option.some.inj this
  -- the middle part
  have hmid : seq.indices.drop (sp.1 + 1) =
      (seq.indices.drop (sp.1 + 1)).take (sp.2 - (sp.1 + 1)) ++ p.stop :: seq.indices.drop (sp.2 + 1) := by
    conv => lhs; rw [← List.take_append_drop (sp.2 - (sp.1 + 1)) (seq.indices.drop (sp.1 + 1))]
    congr 1
    rw [List.drop_drop]
    have : sp.1 + 1 + (sp.2 - (sp.1 + 1)) = sp.2 := by have := hat.lt; omega
    rw [this, List.drop_eq_getElem_cons hk2, hU2]
  have hUsplit : seq.indices = seq.indices.take sp.1 ++ p.start ::
      ((seq.indices.drop (sp.1 + 1)).take (sp.2 - (sp.1 + 1)) ++ p.stop :: seq.indices.drop (sp.2 + 1)) := by
    rw [← hmid]
    conv => lhs; rw [← List.take_append_drop sp.1 seq.indices]
    rw [List.drop_eq_getElem_cons hk1, hU1]
  have hM : ∀ i ∈ (seq.indices.drop (sp.1 + 1)).take (sp.2 - (sp.1 + 1)), i < p.stop := by
    intro i hi
    obtain ⟨j, hj, rfl⟩ := List.getElem_of_mem hi
    simp only [List.length_take, List.length_drop] at hj
    simp only [List.getElem_take, List.getElem_drop]
    rw [← hU2]
    exact (List.pairwise_iff_getElem.1 hsorted) _ _ (by omega) hk2 (by omega)
  have hres := n0Pair_units t hwf h1 seq e he hs ocs pcs hnb p (seq.indices.take sp.1)
    ((seq.indices.drop (sp.1 + 1)).take (sp.2 - (sp.1 + 1))) (seq.indices.drop (sp.2 + 1))
    hUsplit (by rw [s2]; exact hmid) e2 s3 hM hnd hlt
    (by rw [← hpl]; exact hlt _ (by rw [← hU1]; exact List.getElem_mem _))
    (by rw [← hpl]; exact hlt _ (by rw [← hU2]; exact List.getElem_mem _)) hocs
  have hl1 : (seq.indices.take sp.1).length = sp.1 := by rw [List.length_take]; omega
  have hl2 : (seq.indices.take sp.1).length + 1 +
      ((seq.indices.drop (sp.1 + 1)).take (sp.2 - (sp.1 + 1))).length = sp.2 := by
    rw [hl1, List.length_take, List.length_drop]; have := hat.lt; omega
  rw [hl2, hl1] at hres
  exact hres


theorem n12Class_ne_BN (p q e : BidiClass) (he : e ≠ BN) : n12Class p q e ≠ BN := by
  cases p <;> cases q <;> first | exact he | (simp [n12Class])

theorem NoBN.setAll {pcs : Classes} (h : NoBN pcs) (idxs : List Nat) {v : BidiClass} (hv : v ≠ BN) :
    NoBN (setAll pcs idxs v) := by
  intro j; rw [cget_setAll]; split
  · exact hv
  · exact h j

/-- N1/N2 introduces no BN -/
theorem n12_noBN (seq : IRSeq) (e : BidiClass) (he : e ≠ BN) (pcs : Classes) (h : NoBN pcs) :
    NoBN (n12 seq e pcs) := by
  rw [n12_eq_finish, n12Finish_eq]
  have : ∀ (idxs : List Nat) (st : N12State), NoBN st.pcs → NoBN (idxs.foldl (n12Step e) st).pcs := by
    intro idxs
    induction idxs with
    | nil => intro st hst; exact hst
    | cons i is ih =>
      intro st hst
      simp only [List.foldl_cons]
      apply ih
      unfold n12Step
      simp only
      split
      · exact hst
      · split
        · exact hst
        · exact hst.setAll _ (n12Class_ne_BN _ _ _ he)
  exact (this _ _ h).setAll _ (n12Class_ne_BN _ _ _ he)

theorem n0_fold_at (t : Text) (hwf : t.WF) (h1 : ∀ s ∈ t.segs, s.len = 1) (seq : IRSeq)
    (e : BidiClass) (he : e = L ∨ e = R) (hs : seq.sos = L ∨ seq.sos = R)
    (ocs : Classes) (hsorted : seq.indices.Pairwise (· < ·))
    (hocs : ∀ u ∈ seq.indices, (cget ocs u).removedByX9 = false) :
    ∀ (zs : List (BracketPair × (Nat × Nat))) (pcs : Classes), NoBN pcs →
      (∀ i ∈ seq.indices, i < pcs.length) → pcs.length = t.len → (∀ z ∈ zs, PairAt seq z.1 z.2) →
      ∃ pcs', (zs.map (·.1)).foldl (n0Pair t seq e ocs) (pcs, none) = (pcs', none) ∧
        pcs'.length = pcs.length ∧ NoBN pcs' ∧ (∀ j, j ∉ seq.indices → cget pcs' j = cget pcs j) ∧
        seq.indices.map (cget pcs') =
          (zs.map (·.2)).foldl (Spec.n0One seq.sos e (seq.indices.map (fun u => cget ocs u == NSM)))
            (seq.indices.map (cget pcs)) := by
  intro zs
  induction zs with
  | nil => intro pcs hnb _ _ _; exact ⟨pcs, rfl, rfl, hnb, fun _ _ => rfl, rfl⟩
  | cons z zs ih =>
    intro pcs hnb hlt hpl hat
    obtain ⟨pcs1, q1, q2, q3, q4, q5⟩ := n0Pair_at t hwf h1 seq e he hs ocs pcs hnb hsorted hlt hpl z.1 z.2
      (hat z (by simp)) hocs
    obtain ⟨pcs2, r1, r2, r3, r4, r5⟩ := ih pcs1 q3 (by rw [q2]; exact hlt) (by rw [q2]; exact hpl)
      (fun y hy => hat y (by simp [hy]))
    refine ⟨pcs2, ?_, by rw [r2, q2], r3, fun j hj => by rw [r4 j hj, q4 j hj], ?_⟩
    · simp only [List.map_cons, List.foldl_cons, q1, r1]
    · simp only [List.map_cons, List.foldl_cons, r5, q5]

/-- **StageN for a sequence of several runs** (single-unit characters, nothing removed, no BN):
    `resolve_neutral` does not panic, touches only the sequence's units, leaves no BN, and at those units the
    result is UAX #9's N0 (BD16 pairs in opener order) followed by N1/N2, computed on the plain
    list of the sequence's characters. -/
theorem stageN_runs (ds : DataSource) (t : Text) (hwf : t.WF) (h1 : ∀ s ∈ t.segs, s.len = 1)
    (seq : IRSeq) (r0 : Nat × Nat) (rest : List (Nat × Nat)) (hr0 : seq.runs = r0 :: rest)
    (hruns : seq.runs.Pairwise (fun r1 r2 => r1.2 ≤ r2.1)) (hbound : ∀ r ∈ seq.runs, r.2 ≤ t.len)
    (hs : seq.sos = L ∨ seq.sos = R) (levels : List Nat) (ocs pcs : Classes)
    (hpl : pcs.length = t.len) (hbn : ∀ c ∈ pcs, c ≠ BN)
    (hocs : ∀ u ∈ seq.indices, (cget ocs u).removedByX9 = false) :
    ∃ out, resolveNeutral ds t seq levels ocs pcs = (out, none) ∧ out.length = pcs.length ∧
      (∀ c ∈ out, c ≠ BN) ∧ (∀ j, j ∉ seq.indices → cget out j = cget pcs j) ∧
      seq.indices.map (cget out) =
        Spec.n12 seq.sos seq.eos (Level.bidiClass (levels.getD r0.1 0))
          ((Spec.bracketPairs (seq.indices.map (cget pcs)) ((seqChars t seq).map (fun x => ds.brk x.2.cp))).foldl
            (Spec.n0One seq.sos (Level.bidiClass (levels.getD r0.1 0))
              (seq.indices.map (fun u => cget ocs u == NSM)))
            (seq.indices.map (cget pcs))) := by
  have he := levelBidiClass_LR (levels.getD r0.1 0)
  unfold resolveNeutral
  simp only [hr0]
  generalize Level.bidiClass (levels.getD r0.1 0) = e at he ⊢
  have hnb := noBN_of_forall hbn
  -- the characters
  have hstarts := seqChars_starts t hwf h1 seq hbound
  have hkeep : keptChars t seq ocs = seqChars t seq := by
    unfold keptChars
    rw [List.filter_eq_self]
    intro x hx
    have : x.2.start ∈ seq.indices := by rw [← hstarts]; exact List.mem_map_of_mem hx
    simp [bpKeep, hocs _ this]
  have hinc := keptChars_starts_lt t hwf seq ocs hruns
  rw [hkeep, hstarts] at hinc
  have hlt : ∀ i ∈ seq.indices, i < pcs.length := by
    intro i hi
    unfold IRSeq.indices at hi
    rw [List.mem_flatMap] at hi
    obtain ⟨r, hr, hi⟩ := hi
    simp only [runIndices, List.mem_range'_1] at hi
    have := hbound r hr
    omega
  -- BD16
  have hbd := stageBD16_seq ds t seq ocs pcs (by rw [hkeep, hstarts]; exact hinc)
  rw [hkeep, hstarts] at hbd
  have hts : (seqChars t seq).map (fun x => cget pcs x.2.start) = seq.indices.map (cget pcs) := by
    rw [← hstarts, List.map_map]; rfl
  rw [hts] at hbd
  generalize hsp : Spec.bracketPairs (seq.indices.map (cget pcs))
    ((seqChars t seq).map (fun x => ds.brk x.2.cp)) = spairs at hbd ⊢
  have hsplt : ∀ p ∈ spairs, p.1 < p.2 ∧ p.2 < seq.indices.length := by
    intro p hp
    have := spec_bracketPairs_lt _ _ p (hsp ▸ hp)
    simp only [List.length_zip, List.length_map] at this
    have hl : (seqChars t seq).length = seq.indices.length := by rw [← hstarts]; simp
    rw [hl, Nat.min_self] at this
    exact this
  -- shape of the crate's pairs
  have hok : ∀ p ∈ identifyBracketPairs ds t seq ocs pcs,
      PairOK (fun r i => ∃ a b, seq.runs[r]? = some (a, b) ∧ a ≤ i ∧ i < b) p := by
    intro p hp
    unfold identifyBracketPairs at hp
    rw [mem_sortPairs] at hp
    refine bd16_pairs_ok ds ocs pcs _ (seqChars t seq) {} 0 (by simp) (by simp)
      (seqChars_run t seq) ?_ (by simp) p hp
    rw [hstarts]; exact hinc
  generalize hmp : identifyBracketPairs ds t seq ocs pcs = mpairs at hbd hok ⊢
  -- zip the two lists
  have hlen : mpairs.length = spairs.length := by
    have := congrArg List.length hbd; simpa using this
  have hz1 : (mpairs.zip spairs).map (·.1) = mpairs := List.map_fst_zip (by omega)
  have hz2 : (mpairs.zip spairs).map (·.2) = spairs := List.map_snd_zip (by omega)
  have hat : ∀ z ∈ mpairs.zip spairs, PairAt seq z.1 z.2 := by
    intro z hz
    obtain ⟨i, hi, rfl⟩ := List.getElem_of_mem hz
    simp only [List.length_zip] at hi
    have hi1 : i < mpairs.length := by omega
    have hi2 : i < spairs.length := by omega
    simp only [List.getElem_zip]
    have hmem1 : mpairs[i] ∈ mpairs := List.getElem_mem _
    have hmem2 : spairs[i] ∈ spairs := List.getElem_mem _
    have hq := hok _ hmem1
    have hl := hsplt _ hmem2
    have heq : (mpairs[i].start, mpairs[i].stop) =
        (seq.indices.getD spairs[i].1 0, seq.indices.getD spairs[i].2 0) := by
      have := congrArg (fun l => l[i]?) hbd
      simp only [List.getElem?_map, List.getElem?_eq_getElem hi1, List.getElem?_eq_getElem hi2,
        Option.map_some, Option.some.injEq] at this
      exact this
    simp only [Prod.mk.injEq] at heq
    refine ⟨hl.1, ?_, ?_, hq.2.1, hq.2.2⟩
    · rw [heq.1, List.getD_eq_getElem?_getD, List.getElem?_eq_getElem (by omega)]; rfl
    · rw [heq.2, List.getD_eq_getElem?_getD, List.getElem?_eq_getElem hl.2]; rfl
  obtain ⟨pcs', f1, f2, f3, f4, f5⟩ := n0_fold_at t hwf h1 seq e he hs ocs hinc hocs (mpairs.zip spairs) pcs hnb hlt hpl hat
  rw [hz1] at f1
  rw [hz2] at f5
  rw [f1]
  simp only
  obtain ⟨g1, g2, g3⟩ := stageN12_seq seq e pcs' (hinc.imp (fun h => Nat.ne_of_lt h)) (by rw [f2]; exact hlt)
  have heBN : e ≠ BN := by rcases he with rfl | rfl <;> decide
  refine ⟨_, rfl, by rw [g1, f2], (n12_noBN seq e heBN pcs' f3).mem, fun j hj => by rw [g2 j hj, f4 j hj], ?_⟩
  rw [g3, ← f5]
  congr 1
  apply List.map_congr_left
  intro u _
  exact bnToON_of_ne (f3 u)


/-! ### non-vacuity / tests (literal inputs; `decide` here is a test, not a proof) -/

/-- the D1 witness `a ב LRI a PDI ( ב )` as UTF-16 (every character one unit); the outer
    sequence consists of the runs [0,3) and [4,8), unit 3 belongs to the inner sequence -/
def exText3 : Text :=
  { enc := .utf16, len := 8, segs := Text.layout .utf16 0 [0x61, 0x5D1, 0x2066, 0x61, 0x2069, 0x28, 0x5D1, 0x29] }
def exSeq3 : IRSeq := { runs := [(0, 3), (4, 8)], sos := L, eos := L }
def exCls3 : Classes := [L, R, LRI, L, PDI, ON, R, ON]

theorem exText3_wf : exText3.WF :=
  ⟨by simp [exText3, Text.layout, SegsFrom, Enc.charLen, utf16Len], by decide⟩

/-- the hypotheses of `stageN_runs` hold -/
example : (∀ s ∈ exText3.segs, s.len = 1) ∧ exSeq3.runs = (0, 3) :: [(4, 8)] ∧
    exSeq3.runs.Pairwise (fun r1 r2 => r1.2 ≤ r2.1) ∧ (∀ r ∈ exSeq3.runs, r.2 ≤ exText3.len) ∧
    (exSeq3.sos = L ∨ exSeq3.sos = R) ∧ exCls3.length = exText3.len ∧ (∀ c ∈ exCls3, c ≠ BN) ∧
    (∀ u ∈ exSeq3.indices, (cget exCls3 u).removedByX9 = false) := by decide
/-- test: the brackets enclose R only, the strong type before the opener — found by walking
    back over PDI, then over the first run from its end — is R, so both brackets become R
    (this is D1: the unfixed crate found `a` and produced L); then LRI and PDI, between R and R,
    become R by N1; unit 3 (inner sequence) is untouched.  Levels 0 1 1 . 1 1 1 1 as UAX #9 says. -/
example : resolveNeutral hardcoded exText3 exSeq3 (List.replicate 8 0) exCls3 exCls3 =
    ([L, R, R, L, R, R, R, R], none) := by decide +kernel
example : Spec.n12 L L L ((Spec.bracketPairs (exSeq3.indices.map (cget exCls3))
      ((seqChars exText3 exSeq3).map (fun x => hardcoded.brk x.2.cp))).foldl
        (Spec.n0One L L (exSeq3.indices.map (fun u => cget exCls3 u == NSM))) (exSeq3.indices.map (cget exCls3)))
    = [L, R, R, R, R, R, R] := by decide +kernel

end UBidi.Lemmas.C01Neutral
