/-
  UBidi.Lemmas.ExpandExplicitFold — the explicit stage (`explicitCompute`) on a well-formed
  text `t` and on `unitize t`: a step-by-step simulation of the two folds.
-/
import UBidi.Lemmas.ExpandExplicitBase
namespace UBidi.Expand
open UBidi UBidi.BidiClass

/-! ### `exStep` field by field -/
section
variable (pl : Nat) (ocs : List BidiClass) (st : ExState) (s : Seg)

/-- the character's result -/
def stepOut : ExCharOut := exChar pl st.stack st.oi st.oe st.vi (ocs.getD s.start ON)

/-- does the character close the current level run? -/
def stepChange : Bool :=
  !(ocs.getD s.start ON).removedByX9 && (stepOut pl ocs st s).level != st.curLevel

theorem exStep_stack : (exStep pl ocs st s).stack = (stepOut pl ocs st s).stack := by
  unfold exStep stepOut; simp only []; split <;> (try split) <;> rfl
theorem exStep_oi : (exStep pl ocs st s).oi = (stepOut pl ocs st s).oi := by
  unfold exStep stepOut; simp only []; split <;> (try split) <;> rfl
theorem exStep_oe : (exStep pl ocs st s).oe = (stepOut pl ocs st s).oe := by
  unfold exStep stepOut; simp only []; split <;> (try split) <;> rfl
theorem exStep_vi : (exStep pl ocs st s).vi = (stepOut pl ocs st s).vi := by
  unfold exStep stepOut; simp only []; split <;> (try split) <;> rfl
theorem exStep_levels : (exStep pl ocs st s).levels =
    st.levels ++ List.replicate s.len (stepOut pl ocs st s).level := by
  unfold exStep stepOut; simp only []; split <;> (try split) <;> rfl
theorem exStep_pcs : (exStep pl ocs st s).pcs =
    st.pcs ++ List.replicate s.len (stepOut pl ocs st s).pc := by
  unfold exStep stepOut; simp only []; split <;> (try split) <;> rfl
theorem exStep_err : (exStep pl ocs st s).err =
    orErr st.err (orErr (if s.start < ocs.length then none else some .indexOutOfBounds)
      (stepOut pl ocs st s).err) := by
  unfold exStep stepOut; simp only []; split <;> (try split) <;> rfl

theorem exStep_runs : (exStep pl ocs st s).runs =
    if s.start = 0 then st.runs
    else if stepChange pl ocs st s = true then st.runs ++ [(st.curStart, s.start)] else st.runs := by
  unfold exStep stepChange stepOut; simp only []
  by_cases h0 : s.start = 0
  · simp [h0]
  · simp only [beq_iff_eq, h0, if_false]
    split <;> rfl

theorem exStep_curLevel : (exStep pl ocs st s).curLevel =
    if s.start = 0 then (stepOut pl ocs st s).level
    else if stepChange pl ocs st s = true then (stepOut pl ocs st s).level else st.curLevel := by
  unfold exStep stepChange stepOut; simp only []
  by_cases h0 : s.start = 0
  · simp [h0]
  · simp only [beq_iff_eq, h0, if_false]
    split <;> rfl

theorem exStep_curStart : (exStep pl ocs st s).curStart =
    if s.start = 0 then st.curStart
    else if stepChange pl ocs st s = true then s.start else st.curStart := by
  unfold exStep stepChange stepOut; simp only []
  by_cases h0 : s.start = 0
  · simp [h0]
  · simp only [beq_iff_eq, h0, if_false]
    split <;> rfl
end

/-! ### the simulation invariant -/

/-- after `k` characters: `st` (fold over `t.segs`) is the expansion of `st1` (fold over `(unitize t).segs`) -/
structure Sim (ls : List Nat) (k : Nat) (st st1 : ExState) : Prop where
  stack : st.stack = st1.stack
  oi : st.oi = st1.oi
  oe : st.oe = st1.oe
  vi : st.vi = st1.vi
  lvlen : st1.levels.length = k
  pclen : st1.pcs.length = k
  levels : st.levels = ex ls st1.levels
  pcs : st.pcs = ex ls st1.pcs
  runs : st.runs = st1.runs.map (fun r => (ps ls r.1, ps ls r.2))
  curLevel : st.curLevel = st1.curLevel
  curStart : st.curStart = ps ls st1.curStart
  err : st.err = st1.err
  cs : (k = 0 ∧ st1.curStart = 0) ∨ st1.curStart < k
  tile : RunsTile 0 st1.runs st1.curStart

theorem ex_snoc {α : Type} (ls : List Nat) (ys : List α) (v : α) (h : ys.length < ls.length) :
    ex ls (ys ++ [v]) = ex ls ys ++ List.replicate (ls[ys.length]) v := by
  induction ls generalizing ys with
  | nil => simp at h
  | cons l ls ih =>
    cases ys with
    | nil => simp
    | cons y ys =>
      have h' : ys.length < ls.length := by simpa using h
      simp [ih ys h']

theorem sim_step (ls : List Nat) (hp : AllPos ls) (pl : Nat) (ocs ocs1 : List BidiClass) (k : Nat)
    (st st1 : ExState) (s s1 : Seg) (h : Sim ls k st st1) (hk : k < ls.length)
    (hs : s.start = ps ls k) (hl : s.len = ls[k]) (hs1 : s1.start = k) (hl1 : s1.len = 1)
    (hoc : ocs.getD s.start ON = ocs1.getD s1.start ON)
    (hb : s.start < ocs.length) (hb1 : s1.start < ocs1.length) :
    Sim ls (k + 1) (exStep pl ocs st s) (exStep pl ocs1 st1 s1) := by
  have ho : stepOut pl ocs st s = stepOut pl ocs1 st1 s1 := by
    unfold stepOut; rw [h.stack, h.oi, h.oe, h.vi, hoc]
  have hc : stepChange pl ocs st s = stepChange pl ocs1 st1 s1 := by
    unfold stepChange; rw [ho, hoc, h.curLevel]
  have hz : s.start = 0 ↔ s1.start = 0 := by
    rw [hs, hs1]; exact ps_eq_zero_iff ls hp (by omega)
  have hsn : ∀ {α : Type} (ys : List α) (v : α), ys.length = k →
      ex ls (ys ++ List.replicate s1.len v) = ex ls ys ++ List.replicate s.len v := by
    intro α ys v hy
    subst hy
    rw [hl1, hl]
    exact ex_snoc ls ys v hk
  constructor
  · rw [exStep_stack, exStep_stack, ho]
  · rw [exStep_oi, exStep_oi, ho]
  · rw [exStep_oe, exStep_oe, ho]
  · rw [exStep_vi, exStep_vi, ho]
  · rw [exStep_levels]; simp [h.lvlen, hl1]
  · rw [exStep_pcs]; simp [h.pclen, hl1]
  · rw [exStep_levels, exStep_levels, h.levels, ho, hsn _ _ h.lvlen]
  · rw [exStep_pcs, exStep_pcs, h.pcs, ho, hsn _ _ h.pclen]
  · rw [exStep_runs, exStep_runs, hc]
    by_cases h0 : s1.start = 0
    · rw [if_pos h0, if_pos (hz.2 h0)]; exact h.runs
    · rw [if_neg h0, if_neg (fun x => h0 (hz.1 x))]
      split
      · simp [h.runs, h.curStart, hs, hs1]
      · exact h.runs
  · rw [exStep_curLevel, exStep_curLevel, hc, ho]
    by_cases h0 : s1.start = 0
    · rw [if_pos h0, if_pos (hz.2 h0)]
    · rw [if_neg h0, if_neg (fun x => h0 (hz.1 x)), h.curLevel]
  · rw [exStep_curStart, exStep_curStart, hc]
    by_cases h0 : s1.start = 0
    · rw [if_pos h0, if_pos (hz.2 h0)]; exact h.curStart
    · rw [if_neg h0, if_neg (fun x => h0 (hz.1 x))]
      split
      · rw [hs, hs1]
      · exact h.curStart
  · rw [exStep_err, exStep_err, h.err, ho, if_pos hb, if_pos hb1]
  · right
    rw [exStep_curStart]
    have := h.cs
    by_cases h0 : s1.start = 0
    · rw [if_pos h0]; omega
    · rw [if_neg h0]
      split <;> omega
  · rw [exStep_curStart, exStep_runs]
    by_cases h0 : s1.start = 0
    · rw [if_pos h0, if_pos h0]; exact h.tile
    · rw [if_neg h0, if_neg h0]
      split
      · refine runsTile_snoc _ _ _ _ h.tile ?_
        have := h.cs
        omega
      · exact h.tile

/-- the state both folds start from (no length mismatch) -/
def exInit (pl : Nat) : ExState := { stack := [{ level := pl, status := .neutral }], err := none }

theorem sim_init (ls : List Nat) (pl : Nat) : Sim ls 0 (exInit pl) (exInit pl) := by
  constructor <;> simp [exInit, RunsTile]

theorem fold_sim (t : Text) (hwf : t.WF) (pl : Nat) (ocs : List BidiClass) (hlen : ocs.length = t.len) :
    ∀ k, k ≤ t.segs.length →
      Sim (lens t) k ((t.segs.take k).foldl (exStep pl ocs) (exInit pl))
        (((unitize t).segs.take k).foldl (exStep pl (contract t ocs ON)) (exInit pl))
  | 0, _ => by simpa using sim_init (lens t) pl
  | k + 1, hk => by
    have hk' : k < t.segs.length := hk
    have hku : k < (unitize t).segs.length := by simpa using hk'
    have ih := fold_sim t hwf pl ocs hlen k (by omega)
    rw [List.take_succ_eq_append_getElem hk', List.take_succ_eq_append_getElem hku,
      List.foldl_append, List.foldl_append]
    simp only [List.foldl_cons, List.foldl_nil]
    have hkl : k < (lens t).length := by simpa using hk'
    refine sim_step (lens t) (lens_pos t hwf) pl ocs _ k _ _ _ _ ih hkl
      (seg_start t hwf k hk') (seg_len t k hk') ?_ ?_ ?_ ?_ ?_
    · rw [unitize_getElem t k hk']
    · rw [unitize_getElem t k hk']
    · rw [unitize_getElem t k hk']
      exact (contract_getD t ocs ON k hk').symm
    · rw [seg_start t hwf k hk', hlen, len_eq_ps t hwf]
      exact ps_lt _ (lens_pos t hwf) hk' (by simp)
    · rw [unitize_getElem t k hk']
      simpa using hk'

/-- the end of `explicitCompute`: close the last level run -/
def exFinish (st : ExState) : ExplicitOut :=
  { levels := st.levels, pcs := st.pcs,
    runs := if st.levels.length > st.curStart then st.runs ++ [(st.curStart, st.levels.length)] else st.runs,
    err := st.err }

theorem explicitCompute_eq (t : Text) (pl : Nat) (ocs : List BidiClass) (h : t.len = ocs.length) :
    explicitCompute t pl ocs = exFinish (t.segs.foldl (exStep pl ocs) (exInit pl)) := by
  simp [explicitCompute, exFinish, exInit, h]

theorem sim_finish (ls : List Nat) (hp : AllPos ls) (st st1 : ExState) (h : Sim ls ls.length st st1) :
    (exFinish st).runs = (exFinish st1).runs.map (fun r => (ps ls r.1, ps ls r.2)) ∧
    RunsTile 0 (exFinish st1).runs ls.length := by
  have hn : st.levels.length = ps ls ls.length := by
    rw [h.levels, ex_length_ps _ _ h.lvlen]
  have hiff := ps_lt_iff ls hp (a := st1.curStart) (b := ls.length) (Nat.le_refl _)
  unfold exFinish
  simp only [hn, h.lvlen, h.curStart, gt_iff_lt, hiff]
  by_cases hlt : st1.curStart < ls.length
  · simp only [hlt, if_true]
    refine ⟨by simp [h.runs], runsTile_snoc _ _ _ _ h.tile hlt⟩
  · simp only [hlt, if_false]
    refine ⟨h.runs, ?_⟩
    have := h.cs
    have h0 : st1.curStart = ls.length := by omega
    rw [← h0]; exact h.tile

/-- explicit stage: the per-unit run is the expansion of the per-character run -/
theorem explicit_expand (t : Text) (hwf : t.WF) (pl : Nat) (ocs : List BidiClass) (hlen : ocs.length = t.len) :
    let e := explicitCompute t pl ocs
    let e1 := explicitCompute (unitize t) pl (contract t ocs .ON)
    e.levels = expand t e1.levels ∧ e.pcs = expand t e1.pcs ∧ e.runs = e1.runs.map (mapRun t) ∧
      e.err = e1.err := by
  have h := fold_sim t hwf pl ocs hlen t.segs.length (Nat.le_refl _)
  rw [List.take_of_length_le (Nat.le_refl _),
    List.take_of_length_le (by simp : (unitize t).segs.length ≤ t.segs.length)] at h
  have hm : (mapRun t) = (fun r => (ps (lens t) r.1, ps (lens t) r.2)) := by
    funext r; exact mapRun_eq t hwf r
  have h' := h
  rw [← lens_length t] at h'
  have hf := sim_finish (lens t) (lens_pos t hwf) _ _ h'
  intro e e1
  have he : e = exFinish (t.segs.foldl (exStep pl ocs) (exInit pl)) :=
    explicitCompute_eq t pl ocs hlen.symm
  have he1 : e1 = exFinish ((unitize t).segs.foldl (exStep pl (contract t ocs ON)) (exInit pl)) :=
    explicitCompute_eq (unitize t) pl _ (by simp)
  rw [he, he1, hm, expand_eq_ex, expand_eq_ex]
  exact ⟨h.levels, h.pcs, hf.1, h.err⟩

/-- the fold over `unitize t`, for any per-character classes -/
theorem unit_sim (t : Text) (hwf : t.WF) (pl : Nat) (ocs1 : List BidiClass) (hl : ocs1.length = t.segs.length) :
    Sim (lens t) (lens t).length (t.segs.foldl (exStep pl (expand t ocs1)) (exInit pl))
      ((unitize t).segs.foldl (exStep pl ocs1) (exInit pl)) := by
  have hc := contract_expand t hwf ocs1 ON hl
  have hlen := (expand_uniform t hwf ocs1 hl).2
  have h := fold_sim t hwf pl (expand t ocs1) hlen t.segs.length (Nat.le_refl _)
  rw [List.take_of_length_le (Nat.le_refl _),
    List.take_of_length_le (by simp : (unitize t).segs.length ≤ t.segs.length), hc] at h
  rw [lens_length t]
  exact h

/-- the level runs of the per-character text are non-empty, consecutive and tile `[0, #characters)` -/
theorem explicit_runs_shape (t : Text) (hwf : t.WF) (pl : Nat) (ocs1 : List BidiClass)
    (hl : ocs1.length = t.segs.length) :
    RunsTile 0 (explicitCompute (unitize t) pl ocs1).runs t.segs.length := by
  have hf := sim_finish (lens t) (lens_pos t hwf) _ _ (unit_sim t hwf pl ocs1 hl)
  rw [explicitCompute_eq (unitize t) pl ocs1 (by simp [hl])]
  simpa using hf.2

/-- the per-character text gets one level and one class per character -/
theorem explicit_unit_lengths (t : Text) (hwf : t.WF) (pl : Nat) (ocs1 : List BidiClass)
    (hl : ocs1.length = t.segs.length) :
    (explicitCompute (unitize t) pl ocs1).levels.length = t.segs.length ∧
    (explicitCompute (unitize t) pl ocs1).pcs.length = t.segs.length := by
  have h := unit_sim t hwf pl ocs1 hl
  rw [explicitCompute_eq (unitize t) pl ocs1 (by simp [hl])]
  exact ⟨by simpa [exFinish] using h.lvlen, by simpa [exFinish] using h.pclen⟩

end UBidi.Expand
