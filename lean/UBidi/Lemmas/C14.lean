/- Helper lemmas for C14: sorted range tables, binary search = order-independent lookup,
   canonical form of a range table (drop the default class, merge adjacent rows). -/
import UBidi.Model.CharData
namespace UBidi.Lemmas.C14
open UBidi

abbrev Row := Nat × Nat × BidiClass
abbrev dflt : Row := (0, 0, .L)

/-- Bool checker: every row has lo ≤ hi and hi < lo of the next row. -/
def sortedB : List Row → Bool
  | [] => true
  | [r] => decide (r.1 ≤ r.2.1)
  | r :: s :: rest => decide (r.1 ≤ r.2.1) && decide (r.2.1 < s.1) && sortedB (s :: rest)

/-- Prop form: rows are non-empty, and every earlier row ends before every later row starts. -/
def Sorted (t : List Row) : Prop :=
  t.Pairwise (fun a b => a.2.1 < b.1) ∧ ∀ r ∈ t, r.1 ≤ r.2.1

theorem Sorted.tail {r : Row} {t : List Row} (h : Sorted (r :: t)) : Sorted t :=
  ⟨(List.pairwise_cons.1 h.1).2, fun x hx => h.2 x (List.mem_cons_of_mem _ hx)⟩

theorem sorted_of_sortedB : ∀ (t : List Row), sortedB t = true → Sorted t
  | [], _ => ⟨List.Pairwise.nil, by simp⟩
  | [r], h => by
    simp only [sortedB, decide_eq_true_eq] at h
    exact ⟨List.pairwise_singleton _ _, by simpa using h⟩
  | r :: s :: rest, h => by
    simp only [sortedB, Bool.and_eq_true, decide_eq_true_eq] at h
    obtain ⟨⟨h1, h2⟩, h3⟩ := h
    have ih := sorted_of_sortedB (s :: rest) h3
    refine ⟨List.pairwise_cons.2 ⟨?_, ih.1⟩, ?_⟩
    · intro x hx
      rcases List.mem_cons.1 hx with rfl | hx
      · exact h2
      · have := (List.pairwise_cons.1 ih.1).1 x hx
        have := ih.2 s (List.mem_cons_self)
        omega
    · intro x hx
      rcases List.mem_cons.1 hx with rfl | hx
      · exact h1
      · exact ih.2 x hx

/-! ### order-independent lookup -/

theorem lookup_default (t : List Row) (c : Nat) (h : ∀ r ∈ t, ¬ (r.1 ≤ c ∧ c ≤ r.2.1)) :
    lookupTable t c = .L := by
  induction t with
  | nil => rfl
  | cons r rest ih =>
    obtain ⟨lo, hi, cl⟩ := r
    have h0 := h (lo, hi, cl) List.mem_cons_self
    simp only [lookupTable, if_neg h0]
    exact ih (fun x hx => h x (List.mem_cons_of_mem _ hx))

theorem lookup_mem (t : List Row) (h : Sorted t) (r : Row) (hr : r ∈ t) (c : Nat)
    (hc : r.1 ≤ c ∧ c ≤ r.2.1) : lookupTable t c = r.2.2 := by
  induction t with
  | nil => cases hr
  | cons q rest ih =>
    obtain ⟨lo, hi, cl⟩ := q
    rcases List.mem_cons.1 hr with rfl | hr'
    · simp only [lookupTable, if_pos hc]
    · have hlt := (List.pairwise_cons.1 h.1).1 r hr'
      have hq := h.2 (lo, hi, cl) List.mem_cons_self
      have hn : ¬ (lo ≤ c ∧ c ≤ hi) := by
        simp only at hlt hq; omega
      simp only [lookupTable, if_neg hn]
      exact ih h.tail hr'

/-! ### binary search -/

theorem sorted_getD_lt {t : List Row} (h : Sorted t) {i j : Nat} (hij : i < j) (hj : j < t.length) :
    (t.getD i dflt).2.1 < (t.getD j dflt).1 := by
  have hi : i < t.length := by omega
  have := List.pairwise_iff_getElem.1 h.1 i j hi hj hij
  simpa only [List.getD_eq_getElem?_getD, hi, hj, getElem?_pos, Option.getD_some] using this

theorem sorted_getD_le {t : List Row} (h : Sorted t) {i : Nat} (hi : i < t.length) :
    (t.getD i dflt).1 ≤ (t.getD i dflt).2.1 := by
  have := h.2 t[i] (List.getElem_mem hi)
  simpa only [List.getD_eq_getElem?_getD, hi, getElem?_pos, Option.getD_some] using this

theorem sorted_lo_mono {t : List Row} (h : Sorted t) {i j : Nat} (hij : i ≤ j) (hj : j < t.length) :
    (t.getD i dflt).1 ≤ (t.getD j dflt).1 := by
  rcases Nat.lt_or_eq_of_le hij with hlt | rfl
  · have := sorted_getD_lt h hlt hj
    have := sorted_getD_le h (show i < t.length by omega)
    omega
  · exact Nat.le_refl _

theorem toArray_getD (t : List Row) (i : Nat) : t.toArray.getD i dflt = t.getD i dflt := by
  simp only [Array.getD_eq_getD_getElem?, List.getElem?_toArray, List.getD_eq_getElem?_getD]

theorem rangeCmp_greater {c : Nat} {r : Row} (h : rangeCmp c r = .greater) :
    c < r.1 := by
  unfold rangeCmp at h
  split at h
  · cases h
  · split at h
    · cases h
    · omega

theorem rangeCmp_not_greater {c : Nat} {r : Row} (h : ¬ rangeCmp c r = .greater) (hr : r.1 ≤ r.2.1) :
    r.1 ≤ c := by
  unfold rangeCmp at h
  split at h
  · omega
  · split at h
    · omega
    · exact absurd rfl h

theorem rangeCmp_equal_iff {c : Nat} {r : Row} : rangeCmp c r = .equal ↔ r.1 ≤ c ∧ c ≤ r.2.1 := by
  unfold rangeCmp
  constructor
  · intro h
    split at h
    · assumption
    · split at h <;> cases h
  · intro h
    rw [if_pos h]

/-- Loop invariant of `bsearchLoop` on a sorted table: the result index `b` satisfies
    `b = 0 ∨ lo[b] ≤ c`, and every row after `b` starts after `c`. -/
theorem bsearchLoop_spec (t : List Row) (hs : Sorted t) (c : Nat) :
    ∀ (fuel base size : Nat), size ≤ fuel → 1 ≤ size → base + size ≤ t.length →
      (base = 0 ∨ (t.getD base dflt).1 ≤ c) →
      (∀ j, base + size ≤ j → j < t.length → c < (t.getD j dflt).1) →
      bsearchLoop t.toArray c fuel base size < t.length ∧
      (bsearchLoop t.toArray c fuel base size = 0 ∨
        (t.getD (bsearchLoop t.toArray c fuel base size) dflt).1 ≤ c) ∧
      (∀ j, bsearchLoop t.toArray c fuel base size < j → j < t.length → c < (t.getD j dflt).1) := by
  intro fuel
  induction fuel with
  | zero => intro base size hf h1; omega
  | succ fuel ih =>
    intro base size hf h1 hb hlo hhi
    unfold bsearchLoop
    by_cases hsz : size > 1
    · simp only [if_pos hsz, toArray_getD]
      have hhalf : 1 ≤ size / 2 := by omega
      have hhalf2 : size / 2 ≤ size - size / 2 := by omega
      have hmid : base + size / 2 < t.length := by omega
      by_cases hg : rangeCmp c (t.getD (base + size / 2) dflt) = .greater
      · simp only [if_pos hg]
        have hc := rangeCmp_greater hg
        apply ih base (size - size / 2) (by omega) (by omega) (by omega) hlo
        intro j hj hjl
        have := sorted_lo_mono hs (show base + size / 2 ≤ j by omega) hjl
        omega
      · simp only [if_neg hg]
        have hc := rangeCmp_not_greater hg (sorted_getD_le hs hmid)
        apply ih (base + size / 2) (size - size / 2) (by omega) (by omega) (by omega) (Or.inr hc)
        intro j hj hjl
        exact hhi j (by omega) hjl
    · simp only [if_neg hsz]
      have : size = 1 := by omega
      subst this
      exact ⟨by omega, hlo, fun j hj hjl => hhi j (by omega) hjl⟩

theorem bsearch_eq_lookup (t : List Row) (hs : Sorted t) (c : Nat) :
    bsearchTable t.toArray c = lookupTable t c := by
  unfold bsearchTable
  by_cases h0 : t.length = 0
  · have : t = [] := List.eq_nil_of_length_eq_zero h0
    subst this
    rfl
  · have hsize : t.toArray.size = t.length := List.size_toArray
    rw [if_neg (by omega)]
    simp only [hsize, toArray_getD]
    obtain ⟨hb, hlo, hhi⟩ := bsearchLoop_spec t hs c t.length 0 t.length (Nat.le_refl _) (by omega)
      (by omega) (Or.inl rfl) (fun j hj hjl => by omega)
    generalize bsearchLoop t.toArray c t.length 0 t.length = b at hb hlo hhi
    have hbmem : t.getD b dflt ∈ t := by
      simp only [List.getD_eq_getElem?_getD, hb, getElem?_pos, Option.getD_some]
      exact List.getElem_mem hb
    by_cases he : rangeCmp c (t.getD b dflt) = .equal
    · rw [if_pos he]
      exact (lookup_mem t hs _ hbmem c (rangeCmp_equal_iff.1 he)).symm
    · rw [if_neg he]
      symm
      apply lookup_default
      intro r hr hc
      obtain ⟨k, hk, rfl⟩ := List.getElem_of_mem hr
      have hkd : t.getD k dflt = t[k] := by
        simp only [List.getD_eq_getElem?_getD, hk, getElem?_pos, Option.getD_some]
      rw [← hkd] at hc
      have hkb : k = b := by
        rcases Nat.lt_trichotomy k b with hlt | heq | hgt
        · have := sorted_getD_lt hs hlt hb
          rcases hlo with h0' | h1
          · omega
          · omega
        · exact heq
        · have := hhi k hgt hk
          omega
      subst hkb
      exact he (rangeCmp_equal_iff.2 hc)

/-! ### canonical form: drop rows of the default class `L`, then merge adjacent rows of one class -/

def dropL (t : List Row) : List Row := t.filter (fun r => decide (r.2.2 ≠ .L))

def mergeFrom (lo hi : Nat) (cl : BidiClass) : List Row → List Row
  | [] => [(lo, hi, cl)]
  | s :: rest =>
    if hi + 1 = s.1 ∧ cl = s.2.2 then mergeFrom lo s.2.1 cl rest
    else (lo, hi, cl) :: mergeFrom s.1 s.2.1 s.2.2 rest

def mergeAdj : List Row → List Row
  | [] => []
  | r :: rest => mergeFrom r.1 r.2.1 r.2.2 rest

def canon (t : List Row) : List Row := mergeAdj (dropL t)

theorem sorted_dropL {t : List Row} (h : Sorted t) : Sorted (dropL t) :=
  ⟨h.1.filter _, fun r hr => h.2 r (List.mem_filter.1 hr).1⟩

theorem lookup_dropL (t : List Row) (h : Sorted t) (c : Nat) :
    lookupTable (dropL t) c = lookupTable t c := by
  induction t with
  | nil => rfl
  | cons r rest ih =>
    obtain ⟨lo, hi, cl⟩ := r
    have ih := ih h.tail
    have hlt := (List.pairwise_cons.1 h.1).1
    by_cases hin : lo ≤ c ∧ c ≤ hi
    · by_cases hcl : cl = .L
      · subst hcl
        have : dropL ((lo, hi, .L) :: rest) = dropL rest := by
          simp [dropL]
        rw [this, ih]
        simp only [lookupTable, if_pos hin]
        apply lookup_default
        intro x hx hcx
        have := hlt x hx
        simp only at this
        omega
      · have : dropL ((lo, hi, cl) :: rest) = (lo, hi, cl) :: dropL rest := by
          simp [dropL, hcl]
        rw [this]
        simp only [lookupTable, if_pos hin]
    · by_cases hcl : cl = .L
      · subst hcl
        have : dropL ((lo, hi, .L) :: rest) = dropL rest := by
          simp [dropL]
        rw [this, ih]
        simp only [lookupTable, if_neg hin]
      · have : dropL ((lo, hi, cl) :: rest) = (lo, hi, cl) :: dropL rest := by
          simp [dropL, hcl]
        rw [this]
        simp only [lookupTable, if_neg hin, ih]

theorem lookup_mergeFrom (rest : List Row) : ∀ (lo hi : Nat) (cl : BidiClass),
    Sorted ((lo, hi, cl) :: rest) → ∀ c,
    lookupTable (mergeFrom lo hi cl rest) c = lookupTable ((lo, hi, cl) :: rest) c := by
  induction rest with
  | nil => intro lo hi cl _ c; rfl
  | cons s rest ih =>
    intro lo hi cl hs c
    obtain ⟨slo, shi, scl⟩ := s
    have hs1 := hs.tail
    have hlohi := hs.2 (lo, hi, cl) List.mem_cons_self
    have hslohi := hs.2 (slo, shi, scl) (List.mem_cons_of_mem _ List.mem_cons_self)
    simp only at hlohi hslohi
    unfold mergeFrom
    by_cases hm : hi + 1 = slo ∧ cl = scl
    · simp only [if_pos hm]
      obtain ⟨hadj, rfl⟩ := hm
      have hs' : Sorted ((lo, shi, cl) :: rest) := by
        refine ⟨List.pairwise_cons.2 ⟨?_, hs1.tail.1⟩, ?_⟩
        · intro x hx
          exact (List.pairwise_cons.1 hs1.1).1 x hx
        · intro x hx
          rcases List.mem_cons.1 hx with rfl | hx
          · simp only; omega
          · exact hs1.tail.2 x hx
      rw [ih lo shi cl hs' c]
      simp only [lookupTable]
      by_cases h1 : lo ≤ c ∧ c ≤ hi
      · rw [if_pos h1, if_pos (by omega)]
      · rw [if_neg h1]
        by_cases h2 : slo ≤ c ∧ c ≤ shi
        · rw [if_pos h2, if_pos (by omega)]
        · rw [if_neg h2, if_neg (by omega)]
    · simp only [if_neg hm]
      simp only [lookupTable]
      rw [ih slo shi scl hs1 c]
      simp only [lookupTable]

theorem lookup_mergeAdj (t : List Row) (h : Sorted t) (c : Nat) :
    lookupTable (mergeAdj t) c = lookupTable t c := by
  cases t with
  | nil => rfl
  | cons r rest =>
    obtain ⟨lo, hi, cl⟩ := r
    exact lookup_mergeFrom rest lo hi cl h c

theorem lookup_canon (t : List Row) (h : Sorted t) (c : Nat) :
    lookupTable (canon t) c = lookupTable t c := by
  unfold canon
  rw [lookup_mergeAdj _ (sorted_dropL h), lookup_dropL _ h]

/-! ### one-pass check of many (code point, expected class) queries against a sorted table -/

/-- Walks the table once for queries given in (mostly) ascending order: skip the rows that end
    before `c`, then the row at the head must contain `c` and carry the expected class.
    When a query is below the current row the walk restarts from the full table. -/
def classesB (full : List Row) : List Row → List (Nat × BidiClass) → Bool
  | _, [] => true
  | cur, q :: qs =>
    let start := match cur with
      | r :: _ => if r.1 ≤ q.1 then cur else full
      | [] => full
    match start.dropWhile (fun r => decide (r.2.1 < q.1)) with
    | [] => false
    | r :: rest => decide (r.1 ≤ q.1) && decide (r.2.2 = q.2) && classesB full (r :: rest) qs

theorem dropWhile_cons_spec {p : Row → Bool} : ∀ (l : List Row) {r : Row} {rest : List Row},
    l.dropWhile p = r :: rest → p r = false ∧ ∀ x ∈ r :: rest, x ∈ l := by
  intro l
  induction l with
  | nil => intro r rest h; cases h
  | cons a l ih =>
    intro r rest h
    rw [List.dropWhile_cons] at h
    by_cases hp : p a = true
    · rw [if_pos hp] at h
      obtain ⟨h1, h2⟩ := ih h
      exact ⟨h1, fun x hx => List.mem_cons_of_mem _ (h2 x hx)⟩
    · rw [if_neg hp] at h
      injection h with h1 h2
      subst h1; subst h2
      exact ⟨by simpa using hp, fun x hx => hx⟩

theorem classesB_sound (full : List Row) (hs : Sorted full) :
    ∀ (qs : List (Nat × BidiClass)) (cur : List Row), (∀ x ∈ cur, x ∈ full) →
      classesB full cur qs = true → ∀ q ∈ qs, lookupTable full q.1 = q.2 := by
  intro qs
  induction qs with
  | nil => intro cur _ _ q hq; cases hq
  | cons q0 qs ih =>
    intro cur hcur h q hq
    unfold classesB at h
    have hstart : ∀ x ∈ (match cur with
        | r :: _ => if r.1 ≤ q0.1 then cur else full
        | [] => full), x ∈ full := by
      cases cur with
      | nil => exact fun x hx => hx
      | cons r rest =>
        simp only
        split
        · exact hcur
        · exact fun x hx => hx
    generalize (match cur with
        | r :: _ => if r.1 ≤ q0.1 then cur else full
        | [] => full) = start at h hstart
    simp only at h
    split at h
    · cases h
    · rename_i r rest hdw
      obtain ⟨hp, hsub⟩ := dropWhile_cons_spec start hdw
      simp only [Bool.and_eq_true, decide_eq_true_eq] at h
      obtain ⟨⟨hlo, hcl⟩, hrec⟩ := h
      have hmem : ∀ x ∈ r :: rest, x ∈ full := fun x hx => hstart x (hsub x hx)
      rcases List.mem_cons.1 hq with rfl | hq'
      · have hhi : q.1 ≤ r.2.1 := by simpa using hp
        rw [lookup_mem full hs r (hmem r List.mem_cons_self) q.1 ⟨hlo, hhi⟩, hcl]
      · exact ih (r :: rest) hmem hrec q hq'

end UBidi.Lemmas.C14
