/-
  UBidi.Lemmas.C01WeakBN — StageW layer 2, part 1: the loop invariant for a single
  level run of single-unit characters that may contain BN ("retained explicit
  formatting characters"), and the lemma `finish` that closes every case of one
  iteration in which the unit is not left pending.
-/
import UBidi.Lemmas.C01WeakMatch
namespace UBidi.Lemmas.C01Weak
open UBidi UBidi.Spec BidiClass

/-- the list does not end with BN -/
def noTrailBN (l : List BidiClass) : Prop := l.getLast? ≠ some BN

theorem bnPre_replicate (v : BidiClass) (b : Nat) (Y : List BidiClass) :
    bnPre v (List.replicate b BN ++ Y) = List.replicate b v ++ bnPre v Y := by
  induction b with
  | zero => simp
  | succ b ih => simp [List.replicate_succ, bnPre, ih]

theorem bnPre_head (v : BidiClass) (Y : List BidiClass) (h : Y.head? ≠ some BN) : bnPre v Y = Y := by
  cases Y with
  | nil => rfl
  | cons y Y =>
    have : y ≠ BN := by simpa using h
    simp [bnPre, this]

theorem bnSuf_trail (v : BidiClass) (X : List BidiClass) (b : Nat) (h : noTrailBN X) :
    bnSuf v (X ++ List.replicate b BN) = X ++ List.replicate b v := by
  unfold bnSuf
  rw [List.reverse_append, List.reverse_replicate, bnPre_replicate, bnPre_head]
  · simp
  · simpa [noTrailBN] using h

/-- the loop over units `i … i+len-1` -/
def runFrom (n : Nat) (sos eos : BidiClass) (st : WState) (i len : Nat) : WState :=
  ((List.range' i len).map (fun j => (0, j))).foldl (weakStep (fun _ => some 1) (seq1 n sos eos)) st

theorem runFrom_zero (n : Nat) (sos eos : BidiClass) (st : WState) (i : Nat) : runFrom n sos eos st i 0 = st := rfl

theorem runFrom_succ (n : Nat) (sos eos : BidiClass) (st : WState) (i len : Nat) :
    runFrom n sos eos st i (len + 1) =
      runFrom n sos eos (weakStep (fun _ => some 1) (seq1 n sos eos) st (0, i)) (i + 1) len := by
  simp [runFrom, List.range'_succ]

theorem runFrom_add (n : Nat) (sos eos : BidiClass) (st : WState) (i a b : Nat) :
    runFrom n sos eos st i (a + b) = runFrom n sos eos (runFrom n sos eos st i a) (i + a) b := by
  induction a generalizing st i with
  | zero => simp [runFrom_zero]
  | succ a ih =>
    rw [show a + 1 + b = (a + b) + 1 by omega, runFrom_succ, runFrom_succ, ih]
    congr 1; omega

/-- the final "W6" flush after the loop -/
def finalOf (st : WState) : Classes := setAll st.pcs st.etRun ON

/-- units whose class is ON (BNs overwritten by a separator) only reset the state -/
theorem onSteps (n : Nat) (sos eos : BidiClass) (j : Nat) :
    ∀ (A X : List BidiClass) (st : WState), st.pcs = A ++ List.replicate j ON ++ X → st.etRun = [] → st.bnRun = [] →
      (runFrom n sos eos st A.length j).pcs = st.pcs ∧ (runFrom n sos eos st A.length j).etRun = [] ∧
      (runFrom n sos eos st A.length j).bnRun = [] ∧
      (runFrom n sos eos st A.length j).lastStrongIsAL = st.lastStrongIsAL ∧
      (0 < j → (runFrom n sos eos st A.length j).prevW1 = ON ∧ (runFrom n sos eos st A.length j).prevW4 = ON ∧
        (runFrom n sos eos st A.length j).prevW5 = ON) := by
  induction j with
  | zero => intro A X st hp he hb; simp [runFrom_zero, he, hb]
  | succ j ih =>
    intro A X st hp he hb
    have hp' : st.pcs = A ++ ON :: (List.replicate j ON ++ X) := by
      rw [hp]; simp [List.replicate_succ]
    have h1 : sC1 st.prevW1 ON = ON := rfl
    have hstep : weakStep (fun _ => some 1) (seq1 n sos eos) st (0, A.length) =
        { pcs := st.pcs, prevW4 := ON, prevW5 := ON, prevW1 := ON, lastStrongIsAL := st.lastStrongIsAL,
          etRun := [], bnRun := [] } := by
      rw [weakStep_nonBN n sos eos st A ON _ hp' (by decide), h1]
      have h2 : sC2 st.lastStrongIsAL ON = ON := rfl
      have h3 : sAL st.lastStrongIsAL ON = st.lastStrongIsAL := rfl
      rw [h2, h3, stepW456_other n sos eos st A ON _ hp' _ ON (by decide), stepFin_cons _ _ rfl, he]
      simp [setAll, hp']
    rw [runFrom_succ, hstep]
    have := ih (A ++ [ON]) X
      { pcs := st.pcs, prevW4 := ON, prevW5 := ON, prevW1 := ON, lastStrongIsAL := st.lastStrongIsAL,
        etRun := [], bnRun := [] } (by rw [hp]; simp [List.replicate_succ]) rfl rfl
    simp only [List.length_append, List.length_cons, List.length_nil] at this
    obtain ⟨q1, q2, q3, q4, q5⟩ := this
    refine ⟨q1, q2, q3, q4, fun _ => ?_⟩
    by_cases hj : 0 < j
    · exact q5 hj
    · have : j = 0 := by omega
      subst this
      simp [runFrom_zero]


/-- the values a BN unit may hold after the forward pass -/
def okBN (x : BidiClass) : Bool := x == BN || x == ON || x == EN

theorem okBN_etVal (la : Bool) : okBN (etVal la) = true := by cases la <;> rfl

theorem fl_cons_BN (cs : List BidiClass) : fl (BN :: cs) = fl cs := by simp [fl]
theorem fl_cons_ne (c : BidiClass) (hc : c ≠ BN) (cs : List BidiClass) : fl (c :: cs) = c :: fl cs := by simp [fl, hc]
theorem fl_replicate_append (j : Nat) (cs : List BidiClass) : fl (List.replicate j BN ++ cs) = fl cs := by
  induction j with
  | zero => simp
  | succ j ih => simp only [List.replicate_succ, List.cons_append, fl_cons_BN, ih]

theorem okCls_notRemoved {c : BidiClass} (h : okCls c = true) (hc : c ≠ BN) : notRemoved c = true := by
  simp only [okCls, Bool.or_eq_true, beq_iff_eq] at h
  rcases h with h | h
  · exact absurd h hc
  · exact h

theorem filter_notRemoved_ok (cs : List BidiClass) (h : ∀ x ∈ cs, okCls x = true) : cs.filter notRemoved = fl cs := by
  unfold fl
  apply List.filter_congr
  intro x hx
  by_cases hb : x = BN
  · subst hb; rfl
  · simp [okCls_notRemoved (h x hx) hb, hb]

/-- the invariant of the loop before unit `out.length + P.length + b`: `out` is final, `P` is the pending ET run
    (with interleaved BNs), then `b` BNs seen since the last non-BN unit, then the untouched rest `cs` -/
structure Inv (n : Nat) (st : WState) (out P : List BidiClass) (b : Nat) (cs : List BidiClass) : Prop where
  hp : st.pcs = out ++ P ++ List.replicate b BN ++ cs
  hn : n = out.length + P.length + b + cs.length
  het : st.etRun = List.range' out.length P.length
  hbr : st.bnRun = List.range' (out.length + P.length) b
  hnt : noTrailBN (out ++ P)
  hp1 : st.prevW1 ≠ BN
  hk : P ≠ [] → st.prevW4 = ET ∧ st.prevW5 = ET
  hcs : ∀ x ∈ cs, okCls x = true

/-- what the loop (and the final flush) produces from such a state -/
def Concl (fin : Classes) (st : WState) (out P : List BidiClass) (b : Nat) (cs : List BidiClass) : Prop :=
  ∃ bns' res,
    fin = out ++ List.replicate P.length (etVal (LA st.prevW1 st.lastStrongIsAL st.prevW4 (fl cs))) ++ bns' ++ res ∧
    bns'.length = b ∧ (∀ x ∈ bns', okBN x = true) ∧
    Match okBN cs res (W st.prevW1 st.lastStrongIsAL st.prevW4 st.prevW5 (fl cs))

/-- induction hypothesis: the claim for every rest of length `≤ m` -/
def IH (n : Nat) (sos eos : BidiClass) (m : Nat) : Prop :=
  ∀ cs : List BidiClass, cs.length ≤ m → ∀ (st : WState) (out P : List BidiClass) (b : Nat), Inv n st out P b cs →
    Concl (finalOf (runFrom n sos eos st (out.length + P.length + b) cs.length)) st out P b cs

theorem noTrailBN_concat (X : List BidiClass) (x : BidiClass) (hx : x ≠ BN) : noTrailBN (X ++ [x]) := by
  simp [noTrailBN, hx]

theorem noTrailBN_append_replicate (X : List BidiClass) (x : BidiClass) (hx : x ≠ BN) (j : Nat) :
    noTrailBN (X ++ [x] ++ List.replicate j x) := by
  cases j with
  | zero => simpa using noTrailBN_concat X x hx
  | succ j =>
    rw [List.replicate_succ', ← List.append_assoc]
    exact noTrailBN_concat _ x hx


theorem finalOf_runFrom_cons (n : Nat) (sos eos : BidiClass) (st : WState) (i len : Nat) :
    finalOf (runFrom n sos eos st i (len + 1)) =
      finalOf (runFrom n sos eos (weakStep (fun _ => some 1) (seq1 n sos eos) st (0, i)) (i + 1) len) := by
  rw [runFrom_succ]

/-- every case in which the unit is not left pending: the state after the step is "flushed";
    `j` BNs after the unit may have been overwritten with ON (after a separator resolved to ON) -/
theorem finish (n : Nat) (sos eos : BidiClass) (he : eos = L ∨ eos = R) (m : Nat) (ih : IH n sos eos m)
    (st : WState) (out P : List BidiClass) (b : Nat) (c : BidiClass) (cs : List BidiClass)
    (hinv : Inv n st out P b (c :: cs)) (hm : cs.length ≤ m) (hc : c ≠ BN)
    (c1 c2 m5 : BidiClass) (al' : Bool)
    (hc1 : sC1 st.prevW1 c = c1) (hal : sAL st.lastStrongIsAL c1 = al') (hc2 : sC2 st.lastStrongIsAL c1 = c2)
    (hm5 : sM5 st.prevW4 st.prevW5 c2 (nextCls al' eos (fl cs)) = m5) (hmET : m5 ≠ ET)
    (j : Nat) (cs' : List BidiClass) (hcs : cs = List.replicate j BN ++ cs')
    (B1 : List BidiClass) (hB1 : B1.length = b) (hB1ok : ∀ x ∈ B1, okBN x = true)
    (hst1 : weakStep (fun _ => some 1) (seq1 n sos eos) st (0, out.length + P.length + b) =
      { pcs := out ++ List.replicate P.length (etVal (m5 == EN)) ++ B1 ++ m5 :: (List.replicate j ON ++ cs'),
        prevW4 := c2, prevW5 := m5, prevW1 := c1, lastStrongIsAL := al', etRun := [], bnRun := [] })
    (hj : j = 0 ∨ (c1 = c2 ∧ (c2 = ES ∨ c2 = CS) ∧ m5 = ON)) :
    Concl (finalOf (runFrom n sos eos st (out.length + P.length + b) ((c :: cs).length))) st out P b (c :: cs) := by
  have hc1ne : c1 ≠ BN := by rw [← hc1]; exact sC1_ne_BN hinv.hp1 hc
  have hm5ne : m5 ≠ BN := by rw [← hm5]; exact sM5_ne_BN (by rw [← hc2]; exact sC2_ne_BN hc1ne)
  -- the state after the step and the `j` ON units
  let A1 := out ++ List.replicate P.length (etVal (m5 == EN)) ++ B1 ++ [m5]
  have hA1 : A1.length = out.length + P.length + b + 1 := by simp [A1, hB1]; omega
  let st1 : WState :=
      { pcs := out ++ List.replicate P.length (etVal (m5 == EN)) ++ B1 ++ m5 :: (List.replicate j ON ++ cs'),
        prevW4 := c2, prevW5 := m5, prevW1 := c1, lastStrongIsAL := al', etRun := [], bnRun := [] }
  have hst1p : st1.pcs = A1 ++ List.replicate j ON ++ cs' := by simp [st1, A1]
  obtain ⟨q1, q2, q3, q4, q5⟩ := onSteps n sos eos j A1 cs' st1 hst1p rfl rfl
  rw [hA1] at q1 q2 q3 q4 q5
  have hlen : cs.length = j + cs'.length := by rw [hcs]; simp
  simp only [List.length_cons]
  rw [finalOf_runFrom_cons, hst1, hlen, runFrom_add]
  change Concl (finalOf (runFrom n sos eos (runFrom n sos eos st1 (out.length + P.length + b + 1) j) _ _)) _ _ _ _ _
  generalize hst2 : runFrom n sos eos st1 (out.length + P.length + b + 1) j = st2 at q1 q2 q3 q4 q5
  -- the invariant holds there
  have hcs'ok : ∀ x ∈ cs', okCls x = true := by
    intro x hx; apply hinv.hcs; rw [hcs]; simp [hx]
  have hinv2 : Inv n st2 (A1 ++ List.replicate j ON) [] 0 cs' := by
    refine ⟨by rw [q1, hst1p]; simp, ?_, by simp [q2], by simp [q3], ?_, ?_, by simp, hcs'ok⟩
    · have := hinv.hn; simp only [List.length_cons] at this
      rw [this, hlen]; simp [hA1]; omega
    · rw [List.append_nil]
      cases j with
      | zero =>
        simp only [List.replicate_zero, List.append_nil]
        exact noTrailBN_concat _ m5 hm5ne
      | succ j =>
        rw [List.replicate_succ', ← List.append_assoc]
        exact noTrailBN_concat _ ON (by decide)
    · by_cases hj0 : 0 < j
      · rw [(q5 hj0).1]; decide
      · have : j = 0 := by omega
        subst this
        rw [← hst2, runFrom_zero]; exact hc1ne
  have hidx : out.length + P.length + b + 1 + j = (A1 ++ List.replicate j ON).length + ([] : List BidiClass).length + 0 := by
    simp [hA1]
  rw [hidx]
  obtain ⟨bns2, res2, hfin, hb2, _, hmatch⟩ := ih cs' (by omega) st2 _ [] 0 hinv2
  have hb2' : bns2 = [] := List.eq_nil_of_length_eq_zero hb2
  subst hb2'
  -- the spec state after the ON units
  have hW : W st2.prevW1 st2.lastStrongIsAL st2.prevW4 st2.prevW5 (fl cs') = W c1 al' c2 m5 (fl cs') := by
    by_cases hj0 : 0 < j
    · obtain ⟨e1, e4, e5⟩ := q5 hj0
      rcases hj with hj | ⟨h12, hsep, hmON⟩
      · omega
      · rw [e1, e4, e5, q4]
        show W ON al' ON ON _ = W c1 al' c2 m5 _
        rw [hmON, ← h12]
        exact (W_sep_ON c1 (h12 ▸ hsep) al' _).symm
    · have : j = 0 := by omega
      subst this
      rw [← hst2, runFrom_zero]
  rw [hW] at hmatch
  -- assemble
  have hfl : fl (c :: cs) = c :: fl cs' := by rw [fl_cons_ne c hc, hcs, fl_replicate_append]
  have hflcs : fl cs = fl cs' := by rw [hcs, fl_replicate_append]
  have hPv : List.replicate P.length (etVal (LA st.prevW1 st.lastStrongIsAL st.prevW4 (c :: fl cs')))
      = List.replicate P.length (etVal (m5 == EN)) := by
    by_cases hP : P = []
    · rw [hP]; rfl
    · have hp5 := (hinv.hk hP).2
      rw [LA_cons eos he _ _ _ st.prevW5, hc1, hal, hc2, ← hflcs, hm5]
      have : (c2 == ET) = false := by
        cases hce : (c2 == ET)
        · rfl
        · exfalso
          have hce' : c2 = ET := by simpa using hce
          subst hce'
          apply hmET
          rw [← hm5, hp5]; rfl
      rw [this]; rfl
  refine ⟨B1, m5 :: (List.replicate j ON ++ res2), ?_, hB1, hB1ok, ?_⟩
  · rw [hfin, hfl, hPv]; simp [A1]
  · rw [hfl, W_cons eos he, hc1, hal, hc2, ← hflcs, hm5, hcs]
    have hso : ∀ la, sOut m5 la = m5 := by intro la; simp [sOut, hmET]
    rw [hso, Match_cons_ne _ _ hc, fl_replicate_append]
    refine ⟨rfl, ?_⟩
    have h1 := Match_BNs okBN (List.replicate j ON) (by intro x hx; rw [List.mem_replicate] at hx; rw [hx.2]; rfl)
    rw [List.length_replicate] at h1
    have := Match_append okBN _ _ _ _ _ _ h1 hmatch
    simpa using this


end UBidi.Lemmas.C01Weak
