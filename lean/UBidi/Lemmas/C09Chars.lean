/-
  C09 helper lemmas, part 1: texts with the same characters.

  * `SameChars t t'` — the two texts have the same scalar values in the same order
    (the code-unit positions and lengths may differ); `sameChars_utf16_utf8`: a `&[u16]`
    and the `&str` of its lossy decoding are such a pair.
  * `Expand.unitize` depends on the scalar values only (`unitize_congr`), is well formed and
    has the same raw classes.
  * `contract_expand` — reading an expanded vector at the character starts gives the vector back.
  * the `pureLtr` / `hasIso` flags of `compute_initial_info` are a function of the raw classes
    (`flagsOf`).
-/
import UBidi.Props.C18
import UBidi.Props.C02
import UBidi.Lemmas.C10
import UBidi.Lemmas.ExpandDefs
namespace UBidi.Props.C09
open UBidi UBidi.BidiClass

/-- same scalar values, character for character -/
def SameChars (t t' : Text) : Prop := t.segs.map (·.cp) = t'.segs.map (·.cp)

theorem SameChars.length {t t' : Text} (h : SameChars t t') : t.segs.length = t'.segs.length := by
  have := congrArg List.length h
  simpa using this

theorem SameChars.raw {t t' : Text} (h : SameChars t t') (ds : DataSource) : C02.raw ds t = C02.raw ds t' := by
  have := congrArg (List.map ds.cls) h
  simpa [C02.raw, List.map_map, Function.comp_def] using this

theorem layout_map_cp (enc : Enc) (pos : Nat) (cs : List Nat) : (Text.layout enc pos cs).map (·.cp) = cs := by
  induction cs generalizing pos with
  | nil => rfl
  | cons c cs ih => simp [Text.layout, ih]

/-- the scalar values of a `&[u16]` are those of its lossy decoding -/
theorem utf16_cps (u : List Nat) : (Utf16.toText u).segs.map (·.cp) = (Spec.lossy u).map (·.1) := by
  have := congrArg (List.map Prod.fst) (C18.C18_segments u)
  simpa [List.map_map, Utf16.toText, Function.comp_def] using this

theorem ofScalars_cps (cs : List Nat) : (Text.ofScalars cs).segs.map (·.cp) = cs := layout_map_cp _ _ _

/-- a `&[u16]` and the `&str` of its lossy decoding have the same characters -/
theorem sameChars_utf16_utf8 (u : List Nat) :
    SameChars (Utf16.toText u) (Text.ofScalars ((Spec.lossy u).map (·.1))) := by
  unfold SameChars
  rw [utf16_cps, ofScalars_cps]

/-! ### `unitize` -/

/-- the one-unit-per-character text of a list of scalar values -/
def charText (cps : List Nat) : Text :=
  { enc := .utf32, len := cps.length,
    segs := cps.zipIdx.map (fun (c, k) => { start := k, cp := c, len := 1 }) }

theorem unitize_eq_charText (t : Text) : Expand.unitize t = charText (t.segs.map (·.cp)) := by
  simp only [Expand.unitize, charText, List.length_map, List.zipIdx_map, List.map_map]
  congr 1

/-- `unitize` depends on the scalar values only -/
theorem unitize_congr {t t' : Text} (h : t.segs.map (·.cp) = t'.segs.map (·.cp)) :
    Expand.unitize t = Expand.unitize t' := by
  rw [unitize_eq_charText, unitize_eq_charText, h]

theorem unitize_segs_length (t : Text) : (Expand.unitize t).segs.length = t.segs.length := by
  simp [Expand.unitize]

theorem unitize_cps (t : Text) : (Expand.unitize t).segs.map (·.cp) = t.segs.map (·.cp) := by
  simp only [Expand.unitize, List.map_map]
  have : ((fun s : Seg => s.cp) ∘ fun (x : Seg × Nat) => ({ start := x.2, cp := x.1.cp, len := 1 } : Seg))
      = (fun s : Seg => s.cp) ∘ Prod.fst := rfl
  rw [this, ← List.map_map, List.zipIdx_map_fst]

theorem unitize_sameChars (t : Text) : SameChars (Expand.unitize t) t := unitize_cps t

theorem segsFrom_units (l : List Seg) (k : Nat) :
    SegsFrom k ((l.zipIdx k).map (fun (s, i) => ({ start := i, cp := s.cp, len := 1 } : Seg))) (k + l.length) := by
  induction l generalizing k with
  | nil => simp [SegsFrom]
  | cons x xs ih =>
    simp only [List.zipIdx_cons, List.map_cons, SegsFrom, List.length_cons, true_and]
    refine ⟨by omega, ?_⟩
    have := ih (k + 1)
    rw [show k + 1 + xs.length = k + (xs.length + 1) by omega] at this
    exact this

theorem unitize_unit_len (t : Text) : ∀ s ∈ (Expand.unitize t).segs, s.len = 1 := by
  intro s hs
  simp only [Expand.unitize, List.mem_map] at hs
  obtain ⟨x, _, rfl⟩ := hs
  rfl

theorem unitize_WF (t : Text) : (Expand.unitize t).WF := by
  constructor
  · have := segsFrom_units t.segs 0
    simpa [Expand.unitize] using this
  · intro s hs
    rw [unitize_unit_len t s hs]; rfl

/-! ### `contract` after `expand` -/

theorem flatMap_expand_getD {α} (d : α) : ∀ (segs : List Seg) (xs A : List α) (e : Nat),
    SegsFrom A.length segs e → segs.length = xs.length →
    segs.map (fun s => (A ++ (segs.zip xs).flatMap (fun (s, x) => List.replicate s.len x)).getD s.start d) = xs := by
  intro segs
  induction segs with
  | nil => intro xs A e _ hl; cases xs with
    | nil => rfl
    | cons x xs => simp at hl
  | cons s ss ih =>
    intro xs A e h hl
    cases xs with
    | nil => simp at hl
    | cons x xs =>
      obtain ⟨h1, h2, h3⟩ := h
      simp only [List.map_cons, List.zip_cons_cons, List.flatMap_cons, List.cons.injEq]
      constructor
      · rw [List.getD_eq_getElem?_getD, List.getElem?_append_right (by omega),
          List.getElem?_append_left (by simp; omega)]
        simp [h1, h2]
      · have := ih xs (A ++ List.replicate s.len x) e (by simpa [h1] using h3) (by simpa using hl)
        refine Eq.trans ?_ this
        apply List.map_congr_left
        intro s' _
        simp [List.append_assoc]

/-- reading an expanded vector at the first unit of every character gives the vector back -/
theorem contract_expand {α} (t : Text) (hwf : t.WF) (xs : List α) (hl : t.segs.length = xs.length) (d : α) :
    Expand.contract t (Expand.expand t xs) d = xs := by
  have := flatMap_expand_getD d t.segs xs [] t.len (by simpa using hwf.tiles) hl
  simpa [Expand.contract, Expand.expand] using this

/-! ### the flags -/

/-- the `pureLtr` / `hasIso` bookkeeping of `compute_initial_info`, on classes -/
def flagStep (split : Bool) (f : Bool × Bool) (c : BidiClass) : Bool × Bool :=
  match c with
  | B => if split then (true, false) else f
  | R | AL | AN | LRE | RLE | LRO | RLO => (false, f.2)
  | RLI | LRI | FSI => (false, true)
  | _ => f

def flagsOf (split : Bool) (cs : List BidiClass) : Bool × Bool := cs.foldl (flagStep split) (true, false)

theorem iiStep_flags (ds : DataSource) (T : Text) (split : Bool) (dflt : Option Nat) (st : IIState) (s : Seg) :
    ((iiStep ds T split dflt st s).pureLtr, (iiStep ds T split dflt st s).hasIso)
      = flagStep split (st.pureLtr, st.hasIso) (ds.cls s.cp) := by
  simp only [iiStep]
  generalize ds.cls s.cp = c
  cases c <;> simp only [flagStep] <;> (try rfl)
  case B => cases split <;> rfl
  all_goals
    cases st.stack <;> simp <;> (try split) <;> simp

theorem foldl_flags (ds : DataSource) (T : Text) (split : Bool) (dflt : Option Nat) (l : List Seg) :
    ∀ st : IIState,
      ((l.foldl (iiStep ds T split dflt) st).pureLtr, (l.foldl (iiStep ds T split dflt) st).hasIso)
        = (l.map (fun s => ds.cls s.cp)).foldl (flagStep split) (st.pureLtr, st.hasIso) := by
  induction l with
  | nil => intro st; rfl
  | cons s l ih =>
    intro st
    simp only [List.foldl_cons, List.map_cons]
    rw [ih, iiStep_flags]

/-- the flags of the last (in single-paragraph mode: the only) paragraph are a function of the raw classes -/
theorem last_flags (ds : DataSource) (t : Text) (dflt : Option Nat) (split : Bool) :
    ((computeInitialInfo ds t dflt split).lastPureLtr, (computeInitialInfo ds t dflt split).lastHasIso)
      = flagsOf split (C02.raw ds t) := by
  have := foldl_flags ds t split dflt t.segs { paraLevel := dflt }
  simpa [computeInitialInfo, flagsOf, C02.raw] using this

end UBidi.Props.C09
