/-
  C02 helper lemmas: the per-character, single-paragraph version of the scan of
  `compute_initial_info` (`cStep`: classes, isolate stack of character indices,
  paragraph level) and its description by the depth-counting scans of
  `C02Spec.lean`.
-/
import UBidi.Lemmas.C02Spec
namespace UBidi.Lemmas.C02
open UBidi BidiClass Spec

structure CState where
  cls : List BidiClass := []
  stack : List Nat := []          -- character indices of the open initiators, innermost first
  lvl : Option Nat := none
  deriving Repr

/-- X5c: the class written over an FSI when the strong class `c` is met -/
def fsiTo (c : BidiClass) : BidiClass := if c == L then LRI else RLI

def cStep (st : CState) (c : BidiClass) : CState :=
  let i := st.cls.length
  let st := { st with cls := st.cls ++ [c] }
  match c with
  | L | R | AL =>
    match st.stack with
    | k :: _ =>
      if st.cls.getD k ON == FSI then { st with cls := st.cls.set k (fsiTo c) } else st
    | [] => if st.lvl.isNone then { st with lvl := some (lvlOf c) } else st
  | RLI | LRI | FSI => { st with stack := i :: st.stack }
  | PDI => { st with stack := st.stack.tail }
  | _ => st

def cRunFrom (st : CState) (xs : List BidiClass) : CState := xs.foldl cStep st

def cRun (l0 : Option Nat) (xs : List BidiClass) : CState := cRunFrom { lvl := l0 } xs

@[simp] theorem cRunFrom_nil (st : CState) : cRunFrom st [] = st := rfl
@[simp] theorem cRunFrom_cons (st : CState) (c : BidiClass) (xs : List BidiClass) :
    cRunFrom st (c :: xs) = cRunFrom (cStep st c) xs := rfl
theorem cRunFrom_append (st : CState) (xs ys : List BidiClass) :
    cRunFrom st (xs ++ ys) = cRunFrom (cRunFrom st xs) ys := by
  simp [cRunFrom, List.foldl_append]
theorem cRun_snoc (l0 : Option Nat) (xs : List BidiClass) (c : BidiClass) :
    cRun l0 (xs ++ [c]) = cStep (cRun l0 xs) c := by
  simp [cRun, cRunFrom, List.foldl_append]

/-! ### one step, by components -/

theorem cStep_stack (st : CState) (c : BidiClass) :
    (cStep st c).stack =
      if isIsoInit c then st.cls.length :: st.stack
      else if c == PDI then st.stack.tail else st.stack := by
  cases c <;> simp only [cStep, isIsoInit] <;> (try rfl) <;>
    (cases st.stack <;> simp only [] <;> split <;> rfl)

theorem cStep_lvl (st : CState) (c : BidiClass) :
    (cStep st c).lvl =
      if isStrong c && st.stack.isEmpty && st.lvl.isNone then some (lvlOf c) else st.lvl := by
  cases c <;> simp only [cStep, isStrong] <;> (try rfl) <;>
    (cases st.stack <;> simp only [] <;> split <;> simp_all)

theorem cStep_cls (st : CState) (c : BidiClass) :
    (cStep st c).cls =
      if isStrong c then
        (match st.stack.head? with
         | some k => if (st.cls ++ [c]).getD k ON == FSI then (st.cls ++ [c]).set k (fsiTo c)
                     else st.cls ++ [c]
         | none => st.cls ++ [c])
      else st.cls ++ [c] := by
  cases c <;> simp only [cStep, isStrong] <;> (try rfl) <;>
    (cases st.stack <;> simp only [List.head?] <;> split <;> simp_all)

theorem cStep_cls_length (st : CState) (c : BidiClass) :
    (cStep st c).cls.length = st.cls.length + 1 := by
  rw [cStep_cls]
  split
  · split
    · split <;> simp
    · simp
  · simp

theorem cRunFrom_cls_length (xs : List BidiClass) : ∀ st : CState,
    (cRunFrom st xs).cls.length = st.cls.length + xs.length := by
  induction xs with
  | nil => intro st; rfl
  | cons c cs ih => intro st; rw [cRunFrom_cons, ih, cStep_cls_length]; simp; omega

/-- the isolate stack is strictly decreasing and points into `cls` -/
def StackOK (st : CState) : Prop :=
  st.stack.Pairwise (· > ·) ∧ ∀ i ∈ st.stack, i < st.cls.length

theorem stackOK_step (st : CState) (c : BidiClass) (h : StackOK st) : StackOK (cStep st c) := by
  obtain ⟨h1, h2⟩ := h
  unfold StackOK
  rw [cStep_stack, cStep_cls_length]
  split
  · refine ⟨List.pairwise_cons.2 ⟨fun a ha => h2 a ha, h1⟩, ?_⟩
    intro i hi
    rcases List.mem_cons.1 hi with rfl | hi
    · omega
    · have := h2 i hi; omega
  · split
    · refine ⟨h1.tail, fun i hi => ?_⟩
      have := h2 i (List.mem_of_mem_tail hi); omega
    · exact ⟨h1, fun i hi => by have := h2 i hi; omega⟩

theorem stackOK_run (xs : List BidiClass) : ∀ st, StackOK st → StackOK (cRunFrom st xs) := by
  induction xs with
  | nil => intro st h; exact h
  | cons c cs ih => intro st h; exact ih _ (stackOK_step st c h)

theorem stackOK_init (l0 : Option Nat) : StackOK { lvl := l0 } := by
  simp [StackOK]

/-- a step leaves every old position other than the top of the stack alone -/
theorem cStep_getD_of_ne (st : CState) (c : BidiClass) (j : Nat) (hj : j < st.cls.length)
    (hne : st.stack.head? ≠ some j) : (cStep st c).cls.getD j ON = st.cls.getD j ON := by
  rw [cStep_cls]
  have h0 : (st.cls ++ [c]).getD j ON = st.cls.getD j ON := by
    simp [List.getD_eq_getElem?_getD, List.getElem?_append_left hj]
  split
  · split
    · rename_i k hk
      have hkj : k ≠ j := fun h => hne (by rw [hk, h])
      split
      · simp only [List.getD_eq_getElem?_getD, List.getElem?_set_ne hkj]
        simpa [List.getD_eq_getElem?_getD] using h0
      · exact h0
    · exact h0
  · exact h0

/-- the new position holds the new character's class -/
theorem cStep_getD_new (st : CState) (c : BidiClass) (h : StackOK st) :
    (cStep st c).cls.getD st.cls.length ON = c := by
  rw [cStep_cls]
  have h0 : (st.cls ++ [c]).getD st.cls.length ON = c := by
    simp [List.getD_eq_getElem?_getD]
  split
  · split
    · rename_i k hk
      have hk' : k ∈ st.stack := List.mem_of_mem_head? hk
      have hlt := h.2 k hk'
      split
      · simp only [List.getD_eq_getElem?_getD, List.getElem?_set_ne (Nat.ne_of_lt hlt)]
        simp
      · exact h0
    · exact h0
  · exact h0

/-- the top of the stack at a strong character -/
theorem cStep_getD_top (st : CState) (c : BidiClass) (hc : isStrong c = true) (k : Nat)
    (hk : st.stack.head? = some k) (hlt : k < st.cls.length) :
    (cStep st c).cls.getD k ON = if st.cls.getD k ON == FSI then fsiTo c else st.cls.getD k ON := by
  rw [cStep_cls]
  have h0 : (st.cls ++ [c]).getD k ON = st.cls.getD k ON := by
    simp [List.getD_eq_getElem?_getD, List.getElem?_append_left hlt]
  simp only [hc, if_true, hk, h0]
  split
  · have : k < (st.cls ++ [c]).length := by simp; omega
    simp [List.getD_eq_getElem?_getD, List.getElem?_set_self this]
  · exact h0

theorem fsiTo_ne_FSI (c : BidiClass) : (fsiTo c == FSI) = false := by
  unfold fsiTo; split <;> rfl

/-! ### U: positions off the stack never change -/

theorem run_getD_off_stack (xs : List BidiClass) : ∀ (st : CState) (j : Nat), StackOK st →
    j < st.cls.length → j ∉ st.stack → (cRunFrom st xs).cls.getD j ON = st.cls.getD j ON := by
  induction xs with
  | nil => intro st j _ _ _; rfl
  | cons c cs ih =>
    intro st j hok hj hns
    rw [cRunFrom_cons, ih (cStep st c) j (stackOK_step st c hok)]
    · apply cStep_getD_of_ne st c j hj
      intro h; exact hns (List.mem_of_mem_head? h)
    · rw [cStep_cls_length]; omega
    · rw [cStep_stack]
      split
      · simp only [List.mem_cons, not_or]; exact ⟨by omega, hns⟩
      · split
        · exact fun h => hns (List.mem_of_mem_tail h)
        · exact hns

/-! ### T: what becomes of an initiator on the stack -/

theorem run_getD_on_stack (xs : List BidiClass) : ∀ (st : CState) (d i : Nat), StackOK st →
    st.stack[d]? = some i →
    (cRunFrom st xs).cls.getD i ON =
      if st.cls.getD i ON == FSI then res (scan d xs) else st.cls.getD i ON := by
  induction xs with
  | nil => intro st d i _ _; simp only [cRunFrom_nil, scan, res]; split <;> simp_all
  | cons c cs ih =>
    intro st d i hok hd
    have hmem : i ∈ st.stack := List.mem_of_getElem? hd
    have hi : i < st.cls.length := hok.2 i hmem
    have hok' := stackOK_step st c hok
    rw [cRunFrom_cons]
    by_cases h1 : isIsoInit c = true
    · -- an initiator: one level deeper
      have hs : (cStep st c).stack[d + 1]? = some i := by
        rw [cStep_stack]; simp [h1, hd]
      have hne : st.stack.head? ≠ some i ∨ isStrong c = false := by
        right; cases c <;> simp_all [isIsoInit, isStrong]
      have hcl : (cStep st c).cls.getD i ON = st.cls.getD i ON := by
        rw [cStep_cls]
        have : isStrong c = false := by cases c <;> simp_all [isIsoInit, isStrong]
        simp [this, List.getD_eq_getElem?_getD, List.getElem?_append_left hi]
      rw [ih _ (d + 1) i hok' hs, hcl]
      simp only [scan, h1, if_true]
    · by_cases h2 : (c == PDI) = true
      · have hst : (cStep st c).stack = st.stack.tail := by rw [cStep_stack]; simp [h1, h2]
        have hcl : (cStep st c).cls.getD i ON = st.cls.getD i ON := by
          rw [cStep_cls]
          have : isStrong c = false := by cases c <;> simp_all [isIsoInit, isStrong]
          simp [this, List.getD_eq_getElem?_getD, List.getElem?_append_left hi]
        cases d with
        | zero =>
          -- closed: `i` leaves the stack
          have hnot : i ∉ (cStep st c).stack := by
            rw [hst]
            cases hstk : st.stack with
            | nil => simp
            | cons a rest =>
              rw [hstk] at hd; simp at hd; subst hd
              have := hok.1; rw [hstk] at this
              intro hm
              have := (List.pairwise_cons.1 this).1 a hm
              omega
          rw [run_getD_off_stack cs _ i hok' (by rw [cStep_cls_length]; omega) hnot, hcl]
          simp only [scan, h1, h2, if_true]
          split <;> simp_all [res]
        | succ d' =>
          have hs : (cStep st c).stack[d']? = some i := by
            rw [hst]
            cases hstk : st.stack with
            | nil => rw [hstk] at hd; simp at hd
            | cons a rest => rw [hstk] at hd; simpa using hd
          rw [ih _ d' i hok' hs, hcl]
          simp [scan, h1, h2]
      · have hst : (cStep st c).stack = st.stack := by rw [cStep_stack]; simp [h1, h2]
        by_cases h3 : isStrong c = true
        · cases d with
          | zero =>
            have hk : st.stack.head? = some i := by
              cases hstk : st.stack with
              | nil => rw [hstk] at hd; simp at hd
              | cons a rest => rw [hstk] at hd; simpa using hd
            have htop := cStep_getD_top st c h3 i hk hi
            rw [ih _ 0 i hok' (by rw [hst]; exact hd), htop]
            have hsc : scan 0 (c :: cs) = some c := by simp [scan, h1, h2, h3]
            rw [hsc]
            by_cases hF : (st.cls.getD i ON == FSI) = true
            · simp only [hF, if_true, fsiTo_ne_FSI]
              cases c <;> simp_all [isStrong, res, fsiTo]
            · have hF' : (st.cls.getD i ON == FSI) = false := by simpa using hF
              simp only [hF', Bool.false_eq_true, if_false]
          | succ d' =>
            have hne : st.stack.head? ≠ some i := by
              cases hstk : st.stack with
              | nil => simp
              | cons a rest =>
                rw [hstk] at hd
                simp only [List.getElem?_cons_succ] at hd
                have hm : i ∈ rest := List.mem_of_getElem? hd
                have := hok.1; rw [hstk] at this
                have := (List.pairwise_cons.1 this).1 i hm
                simp; omega
            rw [ih _ (d' + 1) i hok' (by rw [hst]; exact hd), cStep_getD_of_ne st c i hi hne]
            simp [scan, h1, h2]
        · have hcl : (cStep st c).cls.getD i ON = st.cls.getD i ON := by
            rw [cStep_cls]
            simp [h3, List.getD_eq_getElem?_getD, List.getElem?_append_left hi]
          rw [ih _ d i hok' (by rw [hst]; exact hd), hcl]
          simp [scan, h1, h2, h3]

/-! ### R: the classes of a whole run -/

theorem run_getD_new (c : BidiClass) (cs : List BidiClass) (st : CState) (hok : StackOK st) :
    (cRunFrom st (c :: cs)).cls.getD st.cls.length ON = if c == FSI then res (scan 0 cs) else c := by
  rw [cRunFrom_cons]
  have hok' := stackOK_step st c hok
  have hnew := cStep_getD_new st c hok
  by_cases h1 : isIsoInit c = true
  · have hs : (cStep st c).stack[0]? = some st.cls.length := by rw [cStep_stack]; simp [h1]
    rw [run_getD_on_stack cs _ 0 _ hok' hs, hnew]
  · have hnot : st.cls.length ∉ (cStep st c).stack := by
      rw [cStep_stack]
      simp only [h1, Bool.false_eq_true, if_false]
      intro hm
      have hm' : st.cls.length ∈ st.stack := by
        split at hm
        · exact List.mem_of_mem_tail hm
        · exact hm
      have := hok.2 _ hm'; omega
    rw [run_getD_off_stack cs _ _ hok' (by rw [cStep_cls_length]; omega) hnot, hnew]
    have : (c == FSI) = false := by cases c <;> simp_all [isIsoInit]
    simp [this]

theorem run_getD_resolve (xs : List BidiClass) : ∀ (st : CState), StackOK st → ∀ j, j < xs.length →
    (cRunFrom st xs).cls.getD (st.cls.length + j) ON = (resolveScan xs).getD j ON := by
  induction xs with
  | nil => intro st _ j hj; simp at hj
  | cons c cs ih =>
    intro st hok j hj
    cases j with
    | zero =>
      rw [Nat.add_zero, run_getD_new c cs st hok]
      simp [resolveScan]
    | succ j =>
      rw [cRunFrom_cons]
      have := ih (cStep st c) (stackOK_step st c hok) j (by simpa using hj)
      rw [cStep_cls_length] at this
      rw [show st.cls.length + (j + 1) = st.cls.length + 1 + j by omega, this]
      simp [resolveScan]

theorem resolveScan_length (xs : List BidiClass) : (resolveScan xs).length = xs.length := by
  induction xs with
  | nil => rfl
  | cons c cs ih => simp [resolveScan, ih]

theorem ext_getD {l1 l2 : List BidiClass} (hl : l1.length = l2.length)
    (h : ∀ i, i < l1.length → l1.getD i ON = l2.getD i ON) : l1 = l2 := by
  apply List.ext_getElem hl
  intro i h1 h2
  have := h i h1
  simpa [List.getD_eq_getElem?_getD, List.getElem?_eq_getElem h1, List.getElem?_eq_getElem h2] using this

/-- the classes after a run from the start are the resolved classes -/
theorem cRun_cls (l0 : Option Nat) (xs : List BidiClass) : (cRun l0 xs).cls = resolveScan xs := by
  apply ext_getD
  · rw [cRun, cRunFrom_cls_length, resolveScan_length]; simp
  · intro i hi
    have hlen : (cRun l0 xs).cls.length = xs.length := by rw [cRun, cRunFrom_cls_length]; simp
    have := run_getD_resolve xs { lvl := l0 } (stackOK_init l0) i (by omega)
    simpa [cRun] using this

theorem resolveScan_FSI (xs : List BidiClass) (i : Nat) (h : (resolveScan xs).getD i ON = FSI) :
    xs.getD i ON = FSI := by
  induction xs generalizing i with
  | nil => simp [resolveScan] at h
  | cons c cs ih =>
    cases i with
    | zero =>
      simp only [resolveScan, List.getD_cons_zero] at h ⊢
      split at h
      · simp_all
      · exact h
    | succ i =>
      simp only [resolveScan, List.getD_cons_succ] at h ⊢
      exact ih i h

/-! ### P: the paragraph level -/

theorem run_lvl (xs : List BidiClass) : ∀ (st : CState),
    (cRunFrom st xs).lvl =
      match st.lvl with
      | some l => some l
      | none => (scanP st.stack.length xs).map lvlOf := by
  induction xs with
  | nil => intro st; cases h : st.lvl <;> simp [scanP, h]
  | cons c cs ih =>
    intro st
    rw [cRunFrom_cons, ih, cStep_lvl, cStep_stack]
    cases hl : st.lvl with
    | some l => simp
    | none =>
      by_cases h1 : isIsoInit c = true
      · have : isStrong c = false := by cases c <;> simp_all [isIsoInit, isStrong]
        simp [scanP, h1, this]
      · by_cases h2 : (c == PDI) = true
        · have : isStrong c = false := by cases c <;> simp_all [isIsoInit, isStrong]
          simp [scanP, h1, h2, this]
        · by_cases h3 : isStrong c = true
          · cases hstk : st.stack with
            | nil => simp [scanP, h1, h2, h3]
            | cons a rest => simp [scanP, h1, h2, h3]
          · simp [scanP, h1, h2, h3]

theorem cRun_lvl (l0 : Option Nat) (xs : List BidiClass) :
    (cRun l0 xs).lvl = match l0 with
      | some l => some l
      | none => (scanP 0 xs).map lvlOf := by
  rw [cRun, run_lvl]; rfl

/-! ### the link to the Spec -/

theorem cRun_level_spec (dflt : Option Nat) (xs : List BidiClass) (hxs : ∀ c ∈ xs, c ≠ B)
    (tl : List BidiClass) (htl : IsTail tl) :
    (cRun dflt xs).lvl.getD 0 = paraLevel dflt (xs ++ tl) := by
  rw [paraLevel_eq dflt xs hxs tl htl, cRun_lvl]
  cases dflt <;> rfl

theorem cRun_cls_spec (l0 : Option Nat) (xs : List BidiClass) (hxs : ∀ c ∈ xs, c ≠ B)
    (tl : List BidiClass) (htl : IsTail tl) :
    (cRun l0 xs).cls ++ tl = resolveFSI (xs ++ tl) := by
  rw [resolveFSI_eq xs hxs tl htl, cRun_cls]

end UBidi.Lemmas.C02
