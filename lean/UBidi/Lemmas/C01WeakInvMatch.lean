/-
  UBidi.Lemmas.C01WeakInvMatch — what the weak stage leaves on the units removed by X9
  (class BN on entry), part 1: the predicate `MatchG`.

  `MatchG ok p1 cs res sp` refines `Match` of `C01WeakMatch`: `res` has the length of `cs`,
  carries `sp` on the non-BN positions of `cs` (and these values are not BN), and on a BN position
  the value `r` satisfies `ok p1 r dh sh` where
  * `p1` is the type after W1 of the last non-BN unit before the position,
  * `dh` is the type after W1 of the next non-BN unit (if any),
  * `sh` is the FINAL value of the next non-BN unit (if any).
-/
import UBidi.Lemmas.C01WeakBN2
namespace UBidi.Lemmas.C01Weak
open UBidi UBidi.Spec BidiClass

/-- the type after W1 of the next non-BN unit -/
def nxt1 (p1 : BidiClass) (cs : List BidiClass) : Option BidiClass := (fl cs).head?.map (sC1 p1)

theorem nxt1_cons_BN (p1 : BidiClass) (cs : List BidiClass) : nxt1 p1 (BN :: cs) = nxt1 p1 cs := by
  simp [nxt1, fl_cons_BN]

theorem nxt1_cons_ne (p1 c : BidiClass) (hc : c ≠ BN) (cs : List BidiClass) :
    nxt1 p1 (c :: cs) = some (sC1 p1 c) := by
  simp [nxt1, fl_cons_ne c hc]

theorem nxt1_replicate_append (p1 : BidiClass) (j : Nat) (cs : List BidiClass) :
    nxt1 p1 (List.replicate j BN ++ cs) = nxt1 p1 cs := by
  simp [nxt1, fl_replicate_append]

def MatchG (ok : BidiClass → BidiClass → Option BidiClass → Option BidiClass → Prop) :
    BidiClass → List BidiClass → List BidiClass → List BidiClass → Prop
  | _, [], [], [] => True
  | p1, c :: cs, r :: rs, sp =>
    if c = BN then ok p1 r (nxt1 p1 cs) sp.head? ∧ MatchG ok p1 cs rs sp
    else (match sp with
          | s :: sp' => r = s ∧ r ≠ BN ∧ MatchG ok (sC1 p1 c) cs rs sp'
          | [] => False)
  | _, _, _, _ => False

section basic
variable (ok : BidiClass → BidiClass → Option BidiClass → Option BidiClass → Prop)

theorem MatchG_nil (p1 : BidiClass) : MatchG ok p1 [] [] [] := by simp [MatchG]

theorem MatchG_cons_BN (p1 : BidiClass) (cs : List BidiClass) (r : BidiClass) (rs sp : List BidiClass) :
    MatchG ok p1 (BN :: cs) (r :: rs) sp ↔ (ok p1 r (nxt1 p1 cs) sp.head? ∧ MatchG ok p1 cs rs sp) := by
  simp [MatchG]

theorem MatchG_cons_ne (p1 c : BidiClass) (hc : c ≠ BN) (cs : List BidiClass) (r : BidiClass)
    (rs : List BidiClass) (s : BidiClass) (sp : List BidiClass) :
    MatchG ok p1 (c :: cs) (r :: rs) (s :: sp) ↔ (r = s ∧ r ≠ BN ∧ MatchG ok (sC1 p1 c) cs rs sp) := by
  simp [MatchG, hc]

theorem MatchG_cons_ne_nil (p1 c : BidiClass) (hc : c ≠ BN) (cs : List BidiClass) (r : BidiClass)
    (rs : List BidiClass) : ¬ MatchG ok p1 (c :: cs) (r :: rs) [] := by
  simp [MatchG, hc]

theorem MatchG_cons_nil (p1 c : BidiClass) (cs sp : List BidiClass) : ¬ MatchG ok p1 (c :: cs) [] sp := by
  simp [MatchG]

theorem MatchG_nil_cons (p1 r : BidiClass) (rs sp : List BidiClass) : ¬ MatchG ok p1 [] (r :: rs) sp := by
  simp [MatchG]

theorem MatchG_length {p1 : BidiClass} {cs res sp : List BidiClass} (h : MatchG ok p1 cs res sp) :
    res.length = cs.length := by
  induction cs generalizing p1 res sp with
  | nil => cases res <;> cases sp <;> simp_all [MatchG]
  | cons c cs ih =>
    cases res with
    | nil => exact absurd h (MatchG_cons_nil ok _ _ _ _)
    | cons r rs =>
      by_cases hc : c = BN
      · subst hc
        rw [MatchG_cons_BN] at h
        simp [ih h.2]
      · cases sp with
        | nil => exact absurd h (MatchG_cons_ne_nil ok _ _ hc _ _ _)
        | cons s sp =>
          rw [MatchG_cons_ne _ _ _ hc] at h
          simp [ih h.2.2]

end basic

/-! ### the two instances of `ok` -/

/-- the type is a separator (ES / CS) -/
def isSepC (c : BidiClass) : Prop := c = ES ∨ c = CS

/-- a BN unit is only rewritten next to a separator or in front of an ET:
    `p1` / `dh` the types after W1 of the neighbouring non-BN units -/
def nearSep (p1 : BidiClass) (dh : Option BidiClass) : Prop :=
  isSepC p1 ∨ dh = some ES ∨ dh = some CS ∨ dh = some ET

/-- a BN unit after the forward pass (before W7): BN, ON, or EN like the next non-BN unit, which
    then is an ET (after W1) -/
def okG (p1 r : BidiClass) (dh sh : Option BidiClass) : Prop :=
  (r = BN ∨ r = ON ∨ (r = EN ∧ sh = some EN ∧ dh = some ET)) ∧ (r ≠ BN → nearSep p1 dh)

/-- a BN unit in the end: BN, ON, or the final value of the next non-BN unit, which then is an ET
    (after W1) -/
def ok7 (p1 r : BidiClass) (dh sh : Option BidiClass) : Prop :=
  (r = BN ∨ r = ON ∨ (sh = some r ∧ dh = some ET)) ∧ (r ≠ BN → nearSep p1 dh)

theorem okG_BN (p1 : BidiClass) (dh sh : Option BidiClass) : okG p1 BN dh sh :=
  ⟨Or.inl rfl, fun h => absurd rfl h⟩

theorem okG_ON_sep (p1 : BidiClass) (h : isSepC p1) (dh sh : Option BidiClass) : okG p1 ON dh sh :=
  ⟨Or.inr (Or.inl rfl), fun _ => Or.inl h⟩

/-- `j` BN units directly after a separator, all rewritten to ON -/
theorem MatchG_ONs (p1 : BidiClass) (j : Nat) (hj : j = 0 ∨ isSepC p1) (cs res sp : List BidiClass)
    (h : MatchG okG p1 cs res sp) :
    MatchG okG p1 (List.replicate j BN ++ cs) (List.replicate j ON ++ res) sp := by
  induction j with
  | zero => simpa using h
  | succ j ih =>
    have hs : isSepC p1 := by
      rcases hj with hj | hj
      · omega
      · exact hj
    simp only [List.replicate_succ, List.cons_append]
    rw [MatchG_cons_BN]
    exact ⟨okG_ON_sep p1 hs _ _, ih (Or.inr hs)⟩

theorem sC1_of_ne_NSM (p1 c : BidiClass) (hc : c ≠ NSM) : sC1 p1 c = c := by
  simp [sC1, hc]

theorem sC1_sep_NSM (q : BidiClass) (hq : isSepC q) : sC1 q NSM = q := by
  rcases hq with rfl | rfl <;> rfl

theorem nxt1_ON_ET (q : BidiClass) (cs : List BidiClass) (h : nxt1 ON cs = some ET) : nxt1 q cs = some ET := by
  unfold nxt1 at h ⊢
  cases hh : (fl cs).head? with
  | none => rw [hh] at h; cases h
  | some c =>
    rw [hh] at h
    simp only [Option.map_some, Option.some.injEq] at h ⊢
    by_cases hn : c = NSM
    · subst hn; cases h
    · rw [sC1_of_ne_NSM _ _ hn] at h ⊢; exact h

/-- the state `ON` of the pass after rewritten BN units is at least as restrictive as the
    separator's own state -/
theorem MatchG_sep (q : BidiClass) (hq : isSepC q) (cs res sp : List BidiClass)
    (h : MatchG okG ON cs res sp) : MatchG okG q cs res sp := by
  induction cs generalizing res sp with
  | nil => cases res <;> cases sp <;> simp_all [MatchG]
  | cons c cs ih =>
    cases res with
    | nil => exact absurd h (MatchG_cons_nil okG _ _ _ _)
    | cons r rs =>
      by_cases hc : c = BN
      · subst hc
        rw [MatchG_cons_BN] at h ⊢
        refine ⟨⟨?_, fun _ => Or.inl hq⟩, ih _ _ h.2⟩
        rcases h.1.1 with h1 | h1 | ⟨h1, h2, h3⟩
        · exact Or.inl h1
        · exact Or.inr (Or.inl h1)
        · exact Or.inr (Or.inr ⟨h1, h2, nxt1_ON_ET q cs h3⟩)
      · cases sp with
        | nil => exact absurd h (MatchG_cons_ne_nil okG _ _ hc _ _ _)
        | cons s sp =>
          rw [MatchG_cons_ne _ _ _ hc] at h ⊢
          refine ⟨h.1, h.2.1, ?_⟩
          by_cases hn : c = NSM
          · subst hn
            rw [sC1_sep_NSM q hq]
            have : sC1 ON NSM = ON := rfl
            rw [this] at h
            exact ih _ _ h.2.2
          · rw [sC1_of_ne_NSM _ _ hn] at h ⊢
            exact h.2.2

end UBidi.Lemmas.C01Weak
