/-
  C01 StageN with retained BN units, part: what the five writes of `n0Pair` do to the per-unit
  array, as a pointwise statement (`n0_writes_bn`): unit `j` receives the new type iff `WrV … j`.
-/
import UBidi.Lemmas.C01NeutralBNInv
import UBidi.Lemmas.C01NeutralSeq
namespace UBidi.Lemmas.C01Neutral
open UBidi UBidi.BidiClass

theorem takeWhile_congr_mem {α} (p q : α → Bool) : ∀ (xs : List α), (∀ i ∈ xs, p i = q i) →
    xs.takeWhile p = xs.takeWhile q
  | [], _ => rfl
  | x :: xs, h => by
    simp only [List.takeWhile_cons, h x (by simp)]
    split
    · rw [takeWhile_congr_mem p q xs (fun i hi => h i (by simp [hi]))]
    · rfl

theorem setAll_cons (pcs : Classes) (i : Nat) (is : List Nat) (v : BidiClass) :
    setAll pcs (i :: is) v = setAll (pcs.set i v) is v := rfl

theorem cget_set_ne (pcs : Classes) {i j : Nat} (v : BidiClass) (h : i ≠ j) :
    cget (pcs.set i v) j = cget pcs j := by
  rw [cget_set]; simp [h]

/-- `setWhileBN` writes the longest prefix of BN units -/
theorem setWhileBN_eq (v : BidiClass) : ∀ (it : List Nat) (pcs : Classes), it.Nodup →
    setWhileBN pcs it v = setAll pcs (it.takeWhile (fun i => cget pcs i == BN)) v
  | [], _, _ => rfl
  | idx :: rest, pcs, hnd => by
    have hnd' := List.nodup_cons.1 hnd
    simp only [setWhileBN, List.takeWhile_cons]
    by_cases h : cget pcs idx = BN
    · have h1 : (cget pcs idx != BN) = false := by rw [h]; rfl
      have h2 : (cget pcs idx == BN) = true := by rw [h]; rfl
      simp only [h1, h2, Bool.false_eq_true, if_false, if_true]
      rw [setWhileBN_eq v rest (pcs.set idx v) hnd'.2, setAll_cons]
      congr 1
      apply takeWhile_congr_mem
      intro i hi
      rw [cget_set_ne]
      rintro rfl; exact hnd'.1 hi
    · have h1 : (cget pcs idx != BN) = true := bne_BN_of_ne h
      have h2 : (cget pcs idx == BN) = false := by
        cases hb : cget pcs idx == BN with
        | false => rfl
        | true => exact absurd ((beq_iff _ _).1 hb) h
      simp only [h1, h2, if_true, Bool.false_eq_true, if_false]
      rfl

/-- the original NSMs among a list of units -/
def nsmU (ocs : Classes) (i : Nat) : Bool := cget ocs i == NSM

/-- `setWhileNsmOrBN` writes the original NSMs of the longest prefix of original-NSM / removed units -/
theorem setWhileNsmOrBN_eq (ocs : Classes) (v : BidiClass) : ∀ (it : List Nat) (pcs : Classes),
    setWhileNsmOrBN ocs pcs it v = setAll pcs ((it.takeWhile (condP ocs)).filter (nsmU ocs)) v
  | [], _ => rfl
  | idx :: rest, pcs => by
    simp only [setWhileNsmOrBN, List.takeWhile_cons]
    by_cases h : (cget ocs idx == NSM) = true
    · have hc : condP ocs idx = true := by simp [condP, h]
      have hn : nsmU ocs idx = true := h
      simp only [h, hc, if_true, List.filter_cons, hn]
      rw [setWhileNsmOrBN_eq ocs v rest (pcs.set idx v), setAll_cons]
    · have h' : (cget ocs idx == NSM) = false := by simpa using h
      have hn : nsmU ocs idx = false := h'
      by_cases hr : (cget ocs idx).removedByX9 = true
      · have hc : condP ocs idx = true := by simp [condP, hr]
        simp only [h', hr, hc, Bool.false_eq_true, if_false, if_true, List.filter_cons, hn]
        exact setWhileNsmOrBN_eq ocs v rest pcs
      · have hr' : (cget ocs idx).removedByX9 = false := by simpa using hr
        have hc : condP ocs idx = false := by simp [condP, h', hr']
        simp only [h', hr', hc, Bool.false_eq_true, if_false, List.filter_nil]
        rfl

/-- membership in `takeWhile` of a strictly increasing list, by values -/
theorem mem_takeWhile_lt (P : Nat → Bool) : ∀ (xs : List Nat), xs.Pairwise (· < ·) → ∀ j,
    (j ∈ xs.takeWhile P ↔ j ∈ xs ∧ ∀ i ∈ xs, i ≤ j → P i = true)
  | [], _, j => by simp
  | x :: xs, hp, j => by
    have hp' := List.pairwise_cons.1 hp
    simp only [List.takeWhile_cons]
    by_cases hx : P x = true
    · simp only [hx, if_true, List.mem_cons, mem_takeWhile_lt P xs hp'.2 j]
      constructor
      · rintro (rfl | ⟨h1, h2⟩)
        · refine ⟨Or.inl rfl, ?_⟩
          rintro i (rfl | hi) hij
          · exact hx
          · have := hp'.1 i hi; omega
        · refine ⟨Or.inr h1, ?_⟩
          rintro i (rfl | hi) hij
          · exact hx
          · exact h2 i hi hij
      · rintro ⟨rfl | h1, h2⟩
        · exact Or.inl rfl
        · exact Or.inr ⟨h1, fun i hi hij => h2 i (Or.inr hi) hij⟩
    · simp only [hx, Bool.false_eq_true, if_false, List.not_mem_nil, List.mem_cons, false_iff, not_and]
      rintro (rfl | h1) h2
      · exact hx (h2 j (Or.inl rfl) (Nat.le_refl _))
      · have := hp'.1 j h1
        exact hx (h2 x (Or.inl rfl) (by omega))

/-- membership in `takeWhile` of a strictly decreasing list, by values -/
theorem mem_takeWhile_gt (P : Nat → Bool) : ∀ (xs : List Nat), xs.Pairwise (· > ·) → ∀ j,
    (j ∈ xs.takeWhile P ↔ j ∈ xs ∧ ∀ i ∈ xs, j ≤ i → P i = true)
  | [], _, j => by simp
  | x :: xs, hp, j => by
    have hp' := List.pairwise_cons.1 hp
    simp only [List.takeWhile_cons]
    by_cases hx : P x = true
    · simp only [hx, if_true, List.mem_cons, mem_takeWhile_gt P xs hp'.2 j]
      constructor
      · rintro (rfl | ⟨h1, h2⟩)
        · refine ⟨Or.inl rfl, ?_⟩
          rintro i (rfl | hi) hij
          · exact hx
          · have := hp'.1 i hi; omega
        · refine ⟨Or.inr h1, ?_⟩
          rintro i (rfl | hi) hij
          · exact hx
          · exact h2 i hi hij
      · rintro ⟨rfl | h1, h2⟩
        · exact Or.inl rfl
        · exact Or.inr ⟨h1, fun i hi hij => h2 i (Or.inr hi) hij⟩
    · simp only [hx, Bool.false_eq_true, if_false, List.not_mem_nil, List.mem_cons, false_iff, not_and]
      rintro (rfl | h1) h2
      · exact hx (h2 j (Or.inl rfl) (Nat.le_refl _))
      · have := hp'.1 j h1
        exact hx (h2 x (Or.inl rfl) (by omega))


theorem takeWhile_append_stop {α} (p : α → Bool) (y : α) (ys : List α) (hy : p y = false) :
    ∀ (xs : List α), (xs ++ y :: ys).takeWhile p = xs.takeWhile p
  | [] => by simp [hy]
  | x :: xs => by
    simp only [List.cons_append, List.takeWhile_cons, takeWhile_append_stop p y ys hy xs]

/-- the pieces of a strictly increasing list split at two of its elements, by values -/
theorem split_mem (U A M Z : List Nat) (o c : Nat) (hU : U = A ++ o :: (M ++ c :: Z))
    (hs : U.Pairwise (· < ·)) :
    (∀ i, i ∈ A ↔ i ∈ U ∧ i < o) ∧ (∀ i, i ∈ M ↔ i ∈ U ∧ o < i ∧ i < c) ∧ (∀ i, i ∈ Z ↔ i ∈ U ∧ c < i) ∧
    o < c ∧ A.Pairwise (· < ·) ∧ M.Pairwise (· < ·) ∧ Z.Pairwise (· < ·) := by
  subst hU
  rw [List.pairwise_append] at hs
  obtain ⟨hA, hrest, hAr⟩ := hs
  rw [List.pairwise_cons] at hrest
  obtain ⟨hor, hrest⟩ := hrest
  rw [List.pairwise_append] at hrest
  obtain ⟨hM, hcz, hMr⟩ := hrest
  rw [List.pairwise_cons] at hcz
  obtain ⟨hcr, hZ⟩ := hcz
  have hoc : o < c := hor c (by simp)
  have hAo : ∀ i ∈ A, i < o := fun i hi => hAr i hi o (by simp)
  have hoM : ∀ i ∈ M, o < i := fun i hi => hor i (by simp [hi])
  have hMc : ∀ i ∈ M, i < c := fun i hi => hMr i hi c (by simp)
  have hcZ : ∀ i ∈ Z, c < i := hcr
  refine ⟨?_, ?_, ?_, hoc, hA, hM, hZ⟩
  · intro i
    simp only [List.mem_append, List.mem_cons]
    constructor
    · intro h; exact ⟨Or.inl h, hAo i h⟩
    · rintro ⟨h | rfl | h | rfl | h, h2⟩
      · exact h
      · omega
      · have := hoM i h; omega
      · omega
      · have := hcZ i h; omega
  · intro i
    simp only [List.mem_append, List.mem_cons]
    constructor
    · intro h; exact ⟨Or.inr (Or.inr (Or.inl h)), hoM i h, hMc i h⟩
    · rintro ⟨h | rfl | h | rfl | h, h2, h3⟩
      · have := hAo i h; omega
      · omega
      · exact h
      · omega
      · have := hcZ i h; omega
  · intro i
    simp only [List.mem_append, List.mem_cons]
    constructor
    · intro h; exact ⟨Or.inr (Or.inr (Or.inr (Or.inr h))), hcZ i h⟩
    · rintro ⟨h | rfl | h | rfl | h, h2⟩
      · have := hAo i h; omega
      · omega
      · have := hMc i h; omega
      · omega
      · exact h

/-- **the writes of `n0Pair`, pointwise**: the five loops overwrite exactly the units `WrV` -/
theorem n0_writes_bn (ocs pcs : Classes) (U A M Z : List Nat) (o c : Nat) (v : BidiClass)
    (hU : U = A ++ o :: (M ++ c :: Z)) (hs : U.Pairwise (· < ·)) (hlt : ∀ i ∈ U, i < pcs.length) :
    ∃ out, setWhileNsmOrBN ocs (setWhileNsmOrBN ocs
        (setWhileBN (setRange (setRange pcs o 1 v) c 1 v) A.reverse v) (M ++ c :: Z) v) Z v = out ∧
      out.length = pcs.length ∧
      (∀ j, (WrV U ocs pcs o c j → cget out j = v) ∧ (¬ WrV U ocs pcs o c j → cget out j = cget pcs j)) ∧
      (∀ j ∈ M, cget out j =
        if j ∈ M.takeWhile (condP ocs) ∧ nsmU ocs j = true then v else cget pcs j) ∧
      (∀ j ∈ Z, cget out j =
        if j ∈ Z.takeWhile (condP ocs) ∧ nsmU ocs j = true then v else cget pcs j) := by
  obtain ⟨mA, mM, mZ, hoc, sA, sM, sZ⟩ := split_mem U A M Z o c hU hs
  have hoU : o ∈ U := by rw [hU]; simp
  have hcU : c ∈ U := by rw [hU]; simp
  have sAr : A.reverse.Pairwise (· > ·) := by rw [List.pairwise_reverse]; exact sA
  have ndAr : A.reverse.Nodup := sAr.imp (fun h => Nat.ne_of_gt h)
  -- stage 1
  let pcs1 := (pcs.set o v).set c v
  have h1 : ∀ j, cget pcs1 j = if j = o ∨ j = c then v else cget pcs j := by
    intro j
    show cget ((pcs.set o v).set c v) j = _
    rw [cget_set, cget_set, List.length_set]
    by_cases hjc : c = j
    · subst hjc; simp [hlt c hcU]
    · by_cases hjo : o = j
      · subst hjo; simp [hlt o hoU, hjc]
      · have e1 : ¬ j = o := fun h => hjo h.symm
        have e2 : ¬ j = c := fun h => hjc h.symm
        simp [hjc, hjo, e1, e2]
  -- stage 2
  let BA := A.reverse.takeWhile (fun i => cget pcs i == BN)
  have hBA : A.reverse.takeWhile (fun i => cget pcs1 i == BN) = BA := by
    apply takeWhile_congr_mem
    intro i hi
    have hiA := (mA i).1 (List.mem_reverse.1 hi)
    rw [h1]
    have e1 : ¬ i = o := by omega
    have e2 : ¬ i = c := by omega
    simp [e1, e2]
  let pcs2 := setAll pcs1 BA v
  have hl1 : pcs1.length = pcs.length := by simp [pcs1]
  have h2 : ∀ j, cget pcs2 j = if j ∈ BA ∧ j < pcs.length then v else cget pcs1 j := by
    intro j; show cget (setAll pcs1 BA v) j = _; rw [cget_setAll, hl1]
  have hBAmem : ∀ j, j ∈ BA → j ∈ U ∧ j < o := fun j hj =>
    (mA j).1 (List.mem_reverse.1 (List.takeWhile_subset _ hj))
  -- stage 3: the sweep after `o` runs over `M`; if it gets through `M` and `c` is an original NSM
  -- it goes on over `c` and `Z` (writing what the sweep after `c` writes anyway)
  have sMcZ : (M ++ c :: Z).Pairwise (· < ·) := by
    rw [hU] at hs
    exact (List.pairwise_cons.1 (List.pairwise_append.1 hs).2.1).2
  let TO := (M.takeWhile (condP ocs)).filter (nsmU ocs)
  let TC := (Z.takeWhile (condP ocs)).filter (nsmU ocs)
  let TO' := ((M ++ c :: Z).takeWhile (condP ocs)).filter (nsmU ocs)
  have hTOiff : ∀ j, j ∈ TO ↔ j ∈ M.takeWhile (condP ocs) ∧ nsmU ocs j = true := fun j => List.mem_filter
  have hTCiff : ∀ j, j ∈ TC ↔ j ∈ Z.takeWhile (condP ocs) ∧ nsmU ocs j = true := fun j => List.mem_filter
  have hTOmem : ∀ j, j ∈ TO → j ∈ U ∧ o < j ∧ j < c := fun j hj =>
    (mM j).1 (List.takeWhile_subset _ ((hTOiff j).1 hj).1)
  have hTCmem : ∀ j, j ∈ TC → j ∈ U ∧ c < j := fun j hj =>
    (mZ j).1 (List.takeWhile_subset _ ((hTCiff j).1 hj).1)
  have hTO'sub : ∀ j, j ∈ TO → j ∈ TO' := by
    intro j hj
    obtain ⟨h1, h2⟩ := (hTOiff j).1 hj
    refine List.mem_filter.2 ⟨?_, h2⟩
    rw [mem_takeWhile_lt _ _ sM] at h1
    rw [mem_takeWhile_lt _ _ sMcZ]
    refine ⟨by simp [h1.1], ?_⟩
    intro i hi hij
    have hjc := ((mM j).1 h1.1).2.2
    simp only [List.mem_append, List.mem_cons] at hi
    rcases hi with hi | rfl | hi
    · exact h1.2 i hi hij
    · omega
    · have := ((mZ i).1 hi).2; omega
  have hTO'sup : ∀ j, j ∈ TO' → j ∈ TO ∨ j = c ∨ j ∈ TC := by
    intro j hj
    obtain ⟨h1, h2⟩ := List.mem_filter.1 hj
    rw [mem_takeWhile_lt _ _ sMcZ] at h1
    obtain ⟨hjm, hall⟩ := h1
    simp only [List.mem_append, List.mem_cons] at hjm
    rcases hjm with hjm | rfl | hjm
    · left
      refine (hTOiff j).2 ⟨?_, h2⟩
      rw [mem_takeWhile_lt _ _ sM]
      exact ⟨hjm, fun i hi hij => hall i (by simp [hi]) hij⟩
    · exact Or.inr (Or.inl rfl)
    · right; right
      refine (hTCiff j).2 ⟨?_, h2⟩
      rw [mem_takeWhile_lt _ _ sZ]
      exact ⟨hjm, fun i hi hij => hall i (by simp [hi]) hij⟩
  let pcs3 := setAll pcs2 TO' v
  have hl2 : pcs2.length = pcs.length := by show (setAll pcs1 BA v).length = _; rw [length_setAll, hl1]
  have h3 : ∀ j, cget pcs3 j = if j ∈ TO' ∧ j < pcs.length then v else cget pcs2 j := by
    intro j; show cget (setAll pcs2 TO' v) j = _; rw [cget_setAll, hl2]
  -- stage 4
  let pcs4 := setAll pcs3 TC v
  have hl3 : pcs3.length = pcs.length := by show (setAll pcs2 TO' v).length = _; rw [length_setAll, hl2]
  have h4 : ∀ j, cget pcs4 j = if j ∈ TC ∧ j < pcs.length then v else cget pcs3 j := by
    intro j; show cget (setAll pcs3 TC v) j = _; rw [cget_setAll, hl3]
  -- the model expression
  have hmodel : setWhileNsmOrBN ocs (setWhileNsmOrBN ocs
        (setWhileBN (setRange (setRange pcs o 1 v) c 1 v) A.reverse v) (M ++ c :: Z) v) Z v = pcs4 := by
    rw [setRange_one, setRange_one, setWhileBN_eq v A.reverse _ ndAr, hBA,
      setWhileNsmOrBN_eq ocs v (M ++ c :: Z) _, setWhileNsmOrBN_eq ocs v Z _]
  -- the combined pointwise description
  have hall : ∀ j, cget pcs4 j = if j = o ∨ j = c ∨ j ∈ BA ∨ j ∈ TO ∨ j ∈ TC then v else cget pcs j := by
    intro j
    rw [h4, h3, h2, h1]
    by_cases e4 : j ∈ TC
    · simp [e4, hlt j (hTCmem j e4).1]
    by_cases e3 : j ∈ TO
    · simp [e3, hTO'sub j e3, hlt j (hTOmem j e3).1]
    by_cases e2 : j = c
    · simp [e2]
    have e3' : ¬ j ∈ TO' := fun h => by
      rcases hTO'sup j h with h | h | h
      · exact e3 h
      · exact e2 h
      · exact e4 h
    by_cases e0 : j ∈ BA
    · simp [e0, hlt j (hBAmem j e0).1]
    simp [e4, e3, e3', e0]
  have hnsm : ∀ j, nsmU ocs j = true ↔ cget ocs j = NSM := fun j => beq_iff _ _
  -- `WrV` by lists
  have hWr : ∀ j, WrV U ocs pcs o c j ↔ (j = o ∨ j = c ∨ j ∈ BA ∨ j ∈ TO ∨ j ∈ TC) := by
    intro j
    have eBA : j ∈ BA ↔ (j ∈ U ∧ j < o ∧ ∀ i ∈ U, j ≤ i → i < o → cget pcs i = BN) := by
      show j ∈ A.reverse.takeWhile _ ↔ _
      rw [mem_takeWhile_gt _ _ sAr]
      simp only [List.mem_reverse, mA, beq_iff]
      constructor
      · rintro ⟨⟨a, b⟩, h⟩; exact ⟨a, b, fun i hi h1 h2 => h i ⟨hi, h2⟩ h1⟩
      · rintro ⟨a, b, h⟩; exact ⟨⟨a, b⟩, fun i hi h1 => h i hi.1 h1 hi.2⟩
    have eTO : j ∈ TO ↔ (j ∈ U ∧ o < j ∧ j < c ∧ cget ocs j = NSM ∧
        ∀ i ∈ U, o < i → i ≤ j → condP ocs i = true) := by
      rw [hTOiff, mem_takeWhile_lt _ _ sM, hnsm]
      simp only [mM]
      constructor
      · rintro ⟨⟨⟨a, b, b'⟩, h⟩, hn⟩; exact ⟨a, b, b', hn, fun i hi h1 h2 => h i ⟨hi, h1, by omega⟩ h2⟩
      · rintro ⟨a, b, b', hn, h⟩; exact ⟨⟨⟨a, b, b'⟩, fun i hi h1 => h i hi.1 hi.2.1 h1⟩, hn⟩
    have eTC : j ∈ TC ↔ (j ∈ U ∧ c < j ∧ cget ocs j = NSM ∧
        ∀ i ∈ U, c < i → i ≤ j → condP ocs i = true) := by
      rw [hTCiff, mem_takeWhile_lt _ _ sZ, hnsm]
      simp only [mZ]
      constructor
      · rintro ⟨⟨⟨a, b⟩, h⟩, hn⟩; exact ⟨a, b, hn, fun i hi h1 h2 => h i ⟨hi, h1⟩ h2⟩
      · rintro ⟨a, b, hn, h⟩; exact ⟨⟨⟨a, b⟩, fun i hi h1 => h i hi.1 hi.2 h1⟩, hn⟩
    rw [eBA, eTO, eTC]
    unfold WrV
    constructor
    · rintro ⟨hjU, h | h | ⟨a, b⟩ | ⟨a, b, b', b''⟩ | ⟨a, b, b'⟩⟩
      · exact Or.inl h
      · exact Or.inr (Or.inl h)
      · exact Or.inr (Or.inr (Or.inl ⟨hjU, a, b⟩))
      · exact Or.inr (Or.inr (Or.inr (Or.inl ⟨hjU, a, b, b', b''⟩)))
      · exact Or.inr (Or.inr (Or.inr (Or.inr ⟨hjU, a, b, b'⟩)))
    · rintro (h | h | ⟨hjU, a, b⟩ | ⟨hjU, a, b, b', b''⟩ | ⟨hjU, a, b, b'⟩)
      · exact ⟨h ▸ hoU, Or.inl h⟩
      · exact ⟨h ▸ hcU, Or.inr (Or.inl h)⟩
      · exact ⟨hjU, Or.inr (Or.inr (Or.inl ⟨a, b⟩))⟩
      · exact ⟨hjU, Or.inr (Or.inr (Or.inr (Or.inl ⟨a, b, b', b''⟩)))⟩
      · exact ⟨hjU, Or.inr (Or.inr (Or.inr (Or.inr ⟨a, b, b'⟩)))⟩
  refine ⟨pcs4, hmodel, ?_, ?_, ?_, ?_⟩
  · show (setAll pcs3 TC v).length = _; rw [length_setAll, hl3]
  · intro j
    rw [hWr, hall]
    constructor
    · intro h; simp only [h, if_true]
    · intro h; simp only [h, if_false]
  · intro j hj
    have hjM := (mM j).1 hj
    rw [hall]
    have e0 : ¬ j ∈ BA := fun h => by have := (hBAmem j h).2; omega
    have e4 : ¬ j ∈ TC := fun h => by have := (hTCmem j h).2; omega
    have e1 : ¬ j = o := by omega
    have e2 : ¬ j = c := by omega
    simp only [e0, e4, e1, e2, false_or, or_false, hTOiff]
  · intro j hj
    have hjZ := (mZ j).1 hj
    rw [hall]
    have e0 : ¬ j ∈ BA := fun h => by have := (hBAmem j h).2; omega
    have e3 : ¬ j ∈ TO := fun h => by have := (hTOmem j h).2; omega
    have e1 : ¬ j = o := by omega
    have e2 : ¬ j = c := by omega
    simp only [e0, e3, e1, e2, false_or, hTCiff]

end UBidi.Lemmas.C01Neutral
