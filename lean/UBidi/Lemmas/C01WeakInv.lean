/-
  UBidi.Lemmas.C01WeakInv — the array that the weak stage (`resolveWeak`) hands to the neutral stage
  satisfies the hypotheses `hK`, `hW`, `hN` of `C01Neutral.stageN_bn` (single-unit characters, any
  number of level runs).

  Setting: `ocs` the original classes, `pcs0` the array entering the weak stage.  For the units of the
  sequence: a removed unit (`keepU ocs i = false`) enters as BN (`hrem`), a kept unit enters with a class
  not removed by X9 (`hkept`) — this is what the explicit stage produces.

  * `weak_hK`  — a kept unit never leaves as BN.
  * `weak_hW`  — a removed unit leaves as BN, ON, or with the final type of the next kept unit (`FwdWit`).
  * `weak_hN`  — hypothesis `hN` of `stageN_bn`, for EVERY data source: between a kept bracket that leaves
    the weak stage typed ON and a kept original NSM in its trail, the removed units leave as BN or ON
    (`weak_trailON`, from `C01WeakInvTrail.MatchG_trailON`).  It needs `hov`: a kept unit enters with its
    original class or overridden to L / R.
    History: `hN` used to ask for BN (the crate's N0 sweep tested the current type `== BN` to step over
    removed units).  In that form it is false for a bracket of class ES / CS / ET — view `[CS, BN, NSM]` with
    the CS a bracket: the separator is resolved to ON by W6 and its forward sweep rewrites the BN to ON
    (tests at the end) — and the theorems needed `hB4`: the original class of a kept bracket is none of
    NSM, ES, CS, ET.  `weak_trail` is that older statement (entry class of `s` none of NSM / ES / CS / ET:
    the removed units of the trail stay BN); it is no longer used by the composition.
  * `weak_stageN_hyps` — the three together, in the shape of `stageN_bn`'s hypotheses, and
    `stageN_bn_after_weak`: `stageN_bn` with `pcs := resolveWeak …`.

  How it is proved: `C01WeakInvStep` redoes the induction of `stageW_bn` with the finer predicate
  `MatchG` (`C01WeakInvMatch`): a BN unit is rewritten only (a) by the backward / forward sweep of a
  separator resolved to ON — value ON, the neighbouring non-BN unit has W1-type ES / CS —, or (b) as a member
  of a pending ET run — value ON or EN together with the ET that follows it; `C01WeakInvW7`: W7 turns that
  EN into L exactly when it does so for the ET; `C01WeakInvIdx` reads `MatchG` position by position;
  here `resolveWeak_scatter` carries it to a sequence of several runs.

  Exhaustive executable check of the three statements before proving (scratch checker, deleted; Bool versions
  of `FwdWit` / `InTrail`, every kept unit tried as "the bracket"): all class lists over
  {L,R,AL,EN,ES,ET,AN,CS,NSM,BN,ON} of length ≤ 6 (one run, 7 794 868 inputs) and ≤ 5 (two runs around a unit
  of another sequence typed EN / ES / BN, 8 290 920 inputs), `ocs := pcs0` (BN marks the removed units); and with
  kept original NSMs overridden to L / R in addition (13 symbols, length ≤ 5 one run / ≤ 4 two runs, 1 608 936 +
  1 082 952 inputs); sos, eos ∈ {L, R}.  Result: `hK`, `hW` (no disjunct "type of the PREVIOUS kept unit" is
  needed), and the OLD `hN` (removed units of the trail stay BN) under `hB4`: no counterexample; the old `hN`
  under `hB` only (bracket not an original NSM): 74 880 + 59 184 + 16 304 + 7 152 counterexamples, every one
  with a bracket of class ES / CS / ET.  The present `hN` (BN or ON) is proved without any hypothesis on the
  bracket's class.
-/
import UBidi.Lemmas.C01WeakInvIdx
import UBidi.Lemmas.C01WeakInvTrail
import UBidi.Lemmas.C01WeakSeq
import UBidi.Lemmas.C01NeutralBN
namespace UBidi.Lemmas.C01Weak
open UBidi UBidi.Spec BidiClass UBidi.Lemmas.C01Neutral

theorem cget_of_getElem? {O : Classes} {k : Nat} {r : BidiClass} (h : O[k]? = some r) : cget O k = r := by
  simp [cget, List.getD_eq_getElem?_getD, h]

theorem idx_eq_getElem (U : List Nat) (k : Nat) (hk : k < U.length) : idx U k = U[k] := by
  simp [idx, List.getD_eq_getElem?_getD, hk]

theorem gather_getElem? (U : List Nat) (p : Classes) (k : Nat) (hk : k < U.length) :
    (gather U p)[k]? = some (cget p U[k]) := by
  simp [gather, hk]

theorem sorted_getElem_lt {U : List Nat} (hU : U.Pairwise (· < ·)) {a b : Nat} (ha : a < U.length)
    (hb : b < U.length) : U[a] < U[b] ↔ a < b := by
  constructor
  · intro h
    rcases Nat.lt_trichotomy a b with h1 | h1 | h1
    · exact h1
    · subst h1; omega
    · have := (List.pairwise_iff_getElem.1 hU) b a hb ha h1; omega
  · intro h
    exact (List.pairwise_iff_getElem.1 hU) a b ha hb h

theorem seq_indices_sorted (seq : IRSeq) (len : Nat) (h : runsOK 0 seq.runs len = true) :
    seq.indices.Pairwise (· < ·) := (runsOK_indices 0 seq.runs len h).1

section final
variable (seq : IRSeq) (ocs pcs0 : Classes)
  (hs : seq.sos = L ∨ seq.sos = R) (he : seq.eos = L ∨ seq.eos = R)
  (hruns : runsOK 0 seq.runs pcs0.length = true)
  (hrem : ∀ i ∈ seq.indices, keepU ocs i = false → cget pcs0 i = BN)
  (hkept : ∀ i ∈ seq.indices, keepU ocs i = true → (cget pcs0 i).removedByX9 = false)

include hs he hruns hrem hkept in
/-- the output of the weak stage on the sequence, read through the view of the sequence -/
theorem weak_view :
    ∃ O, MatchG ok7 seq.sos (gather seq.indices pcs0) O (Spec.weak seq.sos (fl (gather seq.indices pcs0))) ∧
      ∀ (k : Nat) (hk : k < seq.indices.length),
        cget (resolveWeak (fun _ => some 1) seq pcs0) (seq.indices[k]) = cget O k := by
  obtain ⟨hnd, hlt⟩ := runsOK_nodup seq pcs0.length hruns
  have hok : ∀ c ∈ gather seq.indices pcs0, okCls c = true := by
    intro c hc
    simp only [gather, List.mem_map] at hc
    obtain ⟨i, hi, rfl⟩ := hc
    cases hk : keepU ocs i
    · rw [hrem i hi hk]; rfl
    · simp [okCls, notRemoved, hkept i hi hk]
  refine ⟨_, weakInv_view seq.indices.length seq.sos seq.eos hs he (gather seq.indices pcs0) (by simp [gather]) hok, ?_⟩
  intro k hk
  rw [resolveWeak_scatter seq pcs0 hnd hlt, ← idx_eq_getElem _ _ hk]
  exact cget_scatter _ _ hnd hlt _ k hk

include hkept in
theorem kept_ne_BN {i : Nat} (hi : i ∈ seq.indices) (hk : keepU ocs i = true) : cget pcs0 i ≠ BN := by
  intro h
  have := hkept i hi hk
  rw [h] at this
  cases this

include hrem in
theorem keep_of_ne_BN {i : Nat} (hi : i ∈ seq.indices) (h : cget pcs0 i ≠ BN) : keepU ocs i = true := by
  cases hk : keepU ocs i
  · exact absurd (hrem i hi hk) h
  · rfl

include hs he hruns hrem hkept in
/-- **hK**: a kept unit does not leave the weak stage as BN -/
theorem weak_hK :
    ∀ i ∈ seq.indices, keepU ocs i = true → cget (resolveWeak (fun _ => some 1) seq pcs0) i ≠ BN := by
  intro i hi hk
  obtain ⟨O, hM, hcg⟩ := weak_view seq ocs pcs0 hs he hruns hrem hkept
  obtain ⟨k, hkl, rfl⟩ := List.getElem_of_mem hi
  obtain ⟨r, hr, hrne⟩ := MatchG_kept ok7 hM k _ (gather_getElem? _ _ k hkl) (kept_ne_BN seq ocs pcs0 hkept hi hk)
  rw [hcg k hkl, cget_of_getElem? hr]
  exact hrne

include hs he hruns hrem hkept in
/-- **hW**: a removed unit leaves the weak stage as BN, ON, or with the type of the next kept unit -/
theorem weak_hW :
    ∀ p ∈ seq.indices, keepU ocs p = false →
      cget (resolveWeak (fun _ => some 1) seq pcs0) p = BN ∨ cget (resolveWeak (fun _ => some 1) seq pcs0) p = ON ∨
        FwdWit seq.indices ocs (resolveWeak (fun _ => some 1) seq pcs0) p := by
  intro p hp hk
  obtain ⟨O, hM, hcg⟩ := weak_view seq ocs pcs0 hs he hruns hrem hkept
  have hsorted := seq_indices_sorted seq _ hruns
  obtain ⟨kp, hkpl, rfl⟩ := List.getElem_of_mem hp
  have hV : (gather seq.indices pcs0)[kp]? = some BN := by
    rw [gather_getElem? _ _ kp hkpl, hrem _ hp hk]
  obtain ⟨r, hr, hcases⟩ := MatchG_bn7 hM kp hV
  rw [hcg kp hkpl, cget_of_getElem? hr]
  rcases hcases with h | h | ⟨kq, hlt, ⟨c, hc1, hc2⟩, hrq, hbetween⟩
  · exact Or.inl h
  · exact Or.inr (Or.inl h)
  · refine Or.inr (Or.inr ?_)
    have hkql : kq < seq.indices.length := by
      rcases Nat.lt_or_ge kq seq.indices.length with h | h
      · exact h
      · rw [List.getElem?_eq_none (by simp [gather]; exact h)] at hc1; cases hc1
    rw [gather_getElem? _ _ kq hkql] at hc1
    have hqU : seq.indices[kq] ∈ seq.indices := List.getElem_mem _
    refine ⟨seq.indices[kq], hqU, (sorted_getElem_lt hsorted hkpl hkql).2 hlt, ?_, ?_, ?_⟩
    · apply keep_of_ne_BN seq ocs pcs0 hrem hqU
      rw [Option.some.inj hc1]; exact hc2
    · rw [hcg kq hkql, cget_of_getElem? hrq, hcg kp hkpl, cget_of_getElem? hr]
    · intro i hi h1 h2
      obtain ⟨ki, hkil, rfl⟩ := List.getElem_of_mem hi
      have h1' := (sorted_getElem_lt hsorted hkpl hkil).1 h1
      have h2' := (sorted_getElem_lt hsorted hkil hkql).1 h2
      have hb := hbetween ki h1' h2'
      rw [gather_getElem? _ _ ki hkil] at hb
      cases hki : keepU ocs seq.indices[ki]
      · rfl
      · exact absurd (Option.some.inj hb) (kept_ne_BN seq ocs pcs0 hkept hi hki)

include hs he hruns hrem hkept in
/-- the trail of a unit `s` that enters with a class other than NSM / ES / CS / ET (in terms of the entry
    classes): up to a kept unit `k` reached through units entering as BN / NSM / L / R only, the removed
    units still carry BN after the weak stage -/
theorem weak_trail (s : Nat) (hsU : s ∈ seq.indices) (hks : keepU ocs s = true)
    (hs0 : cget pcs0 s ≠ NSM ∧ cget pcs0 s ≠ ES ∧ cget pcs0 s ≠ CS ∧ cget pcs0 s ≠ ET)
    (k : Nat) (hkU : k ∈ seq.indices) (hkk : keepU ocs k = true) (hsk : s < k)
    (hall : ∀ i ∈ seq.indices, s < i → i ≤ k → inNLR (cget pcs0 i)) :
    ∀ p ∈ seq.indices, s < p → p < k → keepU ocs p = false →
      cget (resolveWeak (fun _ => some 1) seq pcs0) p = BN := by
  intro p hp hsp hpk hkp
  obtain ⟨O, hM, hcg⟩ := weak_view seq ocs pcs0 hs he hruns hrem hkept
  have hsorted := seq_indices_sorted seq _ hruns
  obtain ⟨ks, hksl, rfl⟩ := List.getElem_of_mem hsU
  obtain ⟨kk, hkkl, rfl⟩ := List.getElem_of_mem hkU
  obtain ⟨kp, hkpl, rfl⟩ := List.getElem_of_mem hp
  have h1 := (sorted_getElem_lt hsorted hksl hkpl).1 hsp
  have h2 := (sorted_getElem_lt hsorted hkpl hkkl).1 hpk
  have hres := MatchG_trail hM ks kk
    ⟨_, gather_getElem? _ _ ks hksl, kept_ne_BN seq ocs pcs0 hkept hsU hks, hs0.1, hs0.2⟩
    ⟨_, gather_getElem? _ _ kk hkkl, kept_ne_BN seq ocs pcs0 hkept hkU hkk⟩
    (by
      intro i hi1 hi2
      have hil : i < seq.indices.length := by omega
      refine ⟨_, gather_getElem? _ _ i hil, hall _ (List.getElem_mem _) ?_ ?_⟩
      · exact (sorted_getElem_lt hsorted hksl hil).2 hi1
      · rcases Nat.lt_or_ge i kk with h | h
        · exact Nat.le_of_lt ((sorted_getElem_lt hsorted hil hkkl).2 h)
        · have : i = kk := by omega
          subst this; exact Nat.le_refl _)
    kp h1 h2 (by rw [gather_getElem? _ _ kp hkpl, hrem _ hp hkp])
  rw [hcg kp hkpl, cget_of_getElem? hres]

include hs he hruns hrem hkept in
/-- the trail of a unit `s` that LEAVES the weak stage as ON (whatever class it entered with): up to a
    kept unit `k` reached through units entering as BN / NSM / L / R only, the removed units carry BN
    or ON after the weak stage -/
theorem weak_trailON (s : Nat) (hsU : s ∈ seq.indices) (hks : keepU ocs s = true)
    (hON : cget (resolveWeak (fun _ => some 1) seq pcs0) s = ON)
    (k : Nat) (hkU : k ∈ seq.indices) (hkk : keepU ocs k = true) (hsk : s < k)
    (hall : ∀ i ∈ seq.indices, s < i → i ≤ k → inNLR (cget pcs0 i)) :
    ∀ p ∈ seq.indices, s < p → p < k → keepU ocs p = false →
      cget (resolveWeak (fun _ => some 1) seq pcs0) p = BN ∨
        cget (resolveWeak (fun _ => some 1) seq pcs0) p = ON := by
  intro p hp hsp hpk hkp
  obtain ⟨O, hM, hcg⟩ := weak_view seq ocs pcs0 hs he hruns hrem hkept
  have hsorted := seq_indices_sorted seq _ hruns
  obtain ⟨ks, hksl, rfl⟩ := List.getElem_of_mem hsU
  obtain ⟨kk, hkkl, rfl⟩ := List.getElem_of_mem hkU
  obtain ⟨kp, hkpl, rfl⟩ := List.getElem_of_mem hp
  have h1 := (sorted_getElem_lt hsorted hksl hkpl).1 hsp
  have h2 := (sorted_getElem_lt hsorted hkpl hkkl).1 hpk
  have hlenO : O.length = seq.indices.length := by
    rw [MatchG_length ok7 hM]; simp [gather]
  have hOs : O[ks]? = some ON := by
    have := hcg ks hksl
    rw [hON] at this
    rw [List.getElem?_eq_getElem (by omega)]
    simp only [cget, List.getD_eq_getElem?_getD, List.getElem?_eq_getElem (show ks < O.length by omega),
      Option.getD_some] at this
    rw [← this]
  rw [weak_eq_w7g_W seq.sos hs] at hM
  have hres := MatchG_trailON seq.eos he _ _ _ _ _ _ _ hM ks kk
    ⟨_, gather_getElem? _ _ ks hksl, kept_ne_BN seq ocs pcs0 hkept hsU hks⟩ hOs
    ⟨_, gather_getElem? _ _ kk hkkl, kept_ne_BN seq ocs pcs0 hkept hkU hkk⟩
    (by
      intro i hi1 hi2
      have hil : i < seq.indices.length := by omega
      refine ⟨_, gather_getElem? _ _ i hil, hall _ (List.getElem_mem _) ?_ ?_⟩
      · exact (sorted_getElem_lt hsorted hksl hil).2 hi1
      · rcases Nat.lt_or_ge i kk with h | h
        · exact Nat.le_of_lt ((sorted_getElem_lt hsorted hil hkkl).2 h)
        · have : i = kk := by omega
          subst this; exact Nat.le_refl _)
    kp h1 h2 (by rw [gather_getElem? _ _ kp hkpl, hrem _ hp hkp])
  rw [hcg kp hkpl]
  rcases hres with hres | hres
  · exact Or.inl (cget_of_getElem? hres)
  · exact Or.inr (cget_of_getElem? hres)

include hs he hruns hrem hkept in
/-- **hN**: hypothesis `hN` of `stageN_bn` for the weak stage's output, for every data source.
    `hst`: the characters of the sequence start at units of the sequence (`seqChars_starts`); `hov`:
    a kept unit enters with its original class or overridden to L / R. -/
theorem weak_hN (ds : DataSource) (t : Text)
    (hst : ∀ x ∈ seqChars t seq, x.2.start ∈ seq.indices)
    (hov : ∀ i ∈ seq.indices, keepU ocs i = true →
      cget pcs0 i = cget ocs i ∨ cget pcs0 i = L ∨ cget pcs0 i = R) :
    ∀ x ∈ seqChars t seq, keepU ocs x.2.start = true → (ds.brk x.2.cp).isSome = true →
      cget (resolveWeak (fun _ => some 1) seq pcs0) x.2.start = ON →
      ∀ k ∈ seq.indices, keepU ocs k = true → InTrail seq.indices ocs x.2.start k →
      ∀ p ∈ seq.indices, x.2.start < p → p < k → keepU ocs p = false →
        cget (resolveWeak (fun _ => some 1) seq pcs0) p = BN ∨
          cget (resolveWeak (fun _ => some 1) seq pcs0) p = ON := by
  intro x hx hkx _ hON k hkU hkk htrail
  have hsU := hst x hx
  refine weak_trailON seq ocs pcs0 hs he hruns hrem hkept x.2.start hsU hkx hON k hkU hkk htrail.1 ?_
  intro i hi h1 h2
  rcases htrail.2 i hi h1 h2 with h | h
  · exact Or.inl (hrem i hi h)
  · cases hki : keepU ocs i
    · exact Or.inl (hrem i hi hki)
    · rcases hov i hi hki with h' | h' | h'
      · exact Or.inr (Or.inl (by rw [h', h]))
      · exact Or.inr (Or.inr (Or.inl h'))
      · exact Or.inr (Or.inr (Or.inr h'))

end final

/-- the three hypotheses `hK`, `hW`, `hN` of `stageN_bn` hold for the weak stage's output
    (single-unit text; hypotheses in the shape of `stageN_bn`'s own) -/
theorem weak_stageN_hyps (ds : DataSource) (t : Text) (hwf : t.WF) (h1 : ∀ s ∈ t.segs, s.len = 1)
    (seq : IRSeq) (hbound : ∀ r ∈ seq.runs, r.2 ≤ t.len)
    (hs : seq.sos = L ∨ seq.sos = R) (he : seq.eos = L ∨ seq.eos = R) (ocs pcs0 : Classes)
    (hruns : runsOK 0 seq.runs pcs0.length = true)
    (hrem : ∀ i ∈ seq.indices, keepU ocs i = false → cget pcs0 i = BN)
    (hkept : ∀ i ∈ seq.indices, keepU ocs i = true → (cget pcs0 i).removedByX9 = false)
    (hov : ∀ i ∈ seq.indices, keepU ocs i = true →
      cget pcs0 i = cget ocs i ∨ cget pcs0 i = L ∨ cget pcs0 i = R) :
    (∀ i ∈ seq.indices, keepU ocs i = true → cget (resolveWeak (fun _ => some 1) seq pcs0) i ≠ BN) ∧
    (∀ p ∈ seq.indices, keepU ocs p = false →
      cget (resolveWeak (fun _ => some 1) seq pcs0) p = BN ∨ cget (resolveWeak (fun _ => some 1) seq pcs0) p = ON ∨
        FwdWit seq.indices ocs (resolveWeak (fun _ => some 1) seq pcs0) p) ∧
    (∀ x ∈ seqChars t seq, keepU ocs x.2.start = true → (ds.brk x.2.cp).isSome = true →
      cget (resolveWeak (fun _ => some 1) seq pcs0) x.2.start = ON →
      ∀ k ∈ seq.indices, keepU ocs k = true → InTrail seq.indices ocs x.2.start k →
      ∀ p ∈ seq.indices, x.2.start < p → p < k → keepU ocs p = false →
        cget (resolveWeak (fun _ => some 1) seq pcs0) p = BN ∨
          cget (resolveWeak (fun _ => some 1) seq pcs0) p = ON) := by
  have hst : ∀ x ∈ seqChars t seq, x.2.start ∈ seq.indices := by
    intro x hx
    rw [← seqChars_starts t hwf h1 seq hbound]
    exact List.mem_map_of_mem hx
  exact ⟨weak_hK seq ocs pcs0 hs he hruns hrem hkept, weak_hW seq ocs pcs0 hs he hruns hrem hkept,
    weak_hN seq ocs pcs0 hs he hruns hrem hkept ds t hst hov⟩

theorem resolveWeak_length (seq : IRSeq) (pcs0 : Classes) (hruns : runsOK 0 seq.runs pcs0.length = true) :
    (resolveWeak (fun _ => some 1) seq pcs0).length = pcs0.length := by
  obtain ⟨hnd, hlt⟩ := runsOK_nodup seq pcs0.length hruns
  rw [resolveWeak_scatter seq pcs0 hnd hlt, scatter_length]

/-- `stageN_bn` fed with the weak stage's output: its hypotheses `hK`, `hW`, `hN` are discharged -/
theorem stageN_bn_after_weak (ds : DataSource) (t : Text) (hwf : t.WF) (h1 : ∀ s ∈ t.segs, s.len = 1)
    (seq : IRSeq) (r0 : Nat × Nat) (rest : List (Nat × Nat)) (hr0 : seq.runs = r0 :: rest)
    (hruns : seq.runs.Pairwise (fun r1 r2 => r1.2 ≤ r2.1)) (hbound : ∀ r ∈ seq.runs, r.2 ≤ t.len)
    (hs : seq.sos = L ∨ seq.sos = R) (he : seq.eos = L ∨ seq.eos = R) (levels : List Nat) (ocs pcs0 : Classes)
    (hpl : pcs0.length = t.len) (hrunsOK : runsOK 0 seq.runs pcs0.length = true)
    (hrem : ∀ i ∈ seq.indices, keepU ocs i = false → cget pcs0 i = BN)
    (hkept : ∀ i ∈ seq.indices, keepU ocs i = true → (cget pcs0 i).removedByX9 = false)
    (hov : ∀ i ∈ seq.indices, keepU ocs i = true →
      cget pcs0 i = cget ocs i ∨ cget pcs0 i = L ∨ cget pcs0 i = R) :
    ∃ out, resolveNeutral ds t seq levels ocs (resolveWeak (fun _ => some 1) seq pcs0) = (out, none) ∧
      out.length = pcs0.length ∧
      (∀ j, j ∉ seq.indices → cget out j = cget (resolveWeak (fun _ => some 1) seq pcs0) j) ∧
      (seq.indices.filter (keepU ocs)).map (cget out) =
        Spec.n12 seq.sos seq.eos (Level.bidiClass (levels.getD r0.1 0))
          ((Spec.bracketPairs ((seq.indices.filter (keepU ocs)).map (cget (resolveWeak (fun _ => some 1) seq pcs0)))
              ((keptChars t seq ocs).map (fun x => ds.brk x.2.cp))).foldl
            (Spec.n0One seq.sos (Level.bidiClass (levels.getD r0.1 0))
              ((seq.indices.filter (keepU ocs)).map (fun u => cget ocs u == NSM)))
            ((seq.indices.filter (keepU ocs)).map (cget (resolveWeak (fun _ => some 1) seq pcs0)))) := by
  obtain ⟨hK, hW, hN⟩ := weak_stageN_hyps ds t hwf h1 seq hbound hs he ocs pcs0 hrunsOK hrem hkept hov
  have hlen := resolveWeak_length seq pcs0 hrunsOK
  obtain ⟨out, q1, q2, q3, q4⟩ := stageN_bn ds t hwf h1 seq r0 rest hr0 hruns hbound hs levels ocs
    (resolveWeak (fun _ => some 1) seq pcs0) (by rw [hlen, hpl]) hK hW hN
  exact ⟨out, q1, by rw [q2, hlen], q3, q4⟩

/-! ### non-vacuity / tests (literal inputs; `decide` here is a test, not a proof) -/

/-- the example text of `C01NeutralBN` (`א ( LRE % 1 ) PDF ◌̀`, units 2 and 6 removed by X9) meets every
    hypothesis of `weak_stageN_hyps` / `stageN_bn_after_weak` with the built-in data source -/
example : exTextB.WF ∧ (∀ s ∈ exTextB.segs, s.len = 1) ∧ (∀ r ∈ exSeqB.runs, r.2 ≤ exTextB.len) ∧
    (exSeqB.sos = L ∨ exSeqB.sos = R) ∧ (exSeqB.eos = L ∨ exSeqB.eos = R) ∧
    runsOK 0 exSeqB.runs [R, ON, BN, ET, EN, ON, BN, NSM].length = true ∧
    (∀ i ∈ exSeqB.indices, keepU exOcsB i = false → cget [R, ON, BN, ET, EN, ON, BN, NSM] i = BN) ∧
    (∀ i ∈ exSeqB.indices, keepU exOcsB i = true → (cget [R, ON, BN, ET, EN, ON, BN, NSM] i).removedByX9 = false) ∧
    (∀ i ∈ exSeqB.indices, keepU exOcsB i = true →
      cget [R, ON, BN, ET, EN, ON, BN, NSM] i = cget exOcsB i ∨ cget [R, ON, BN, ET, EN, ON, BN, NSM] i = L ∨
        cget [R, ON, BN, ET, EN, ON, BN, NSM] i = R) :=
  ⟨exTextB_wf, by decide +kernel, by decide +kernel, by decide +kernel, by decide +kernel, by decide +kernel,
    by decide +kernel, by decide +kernel, by decide +kernel⟩

/-- (test) on that input the conclusions are not vacuous: unit 2 (removed, LRE) leaves as EN with the forward
    witness unit 3; unit 6 (removed, PDF) lies in the trail of the bracket at unit 5 and stays BN -/
example : resolveWeak (fun _ => some 1) exSeqB [R, ON, BN, ET, EN, ON, BN, NSM] = [R, ON, EN, EN, EN, ON, BN, ON] := by
  decide +kernel
example : keepU exOcsB 2 = false ∧ keepU exOcsB 6 = false ∧ InTrail exSeqB.indices exOcsB 5 7 := by
  unfold InTrail
  exact ⟨by decide +kernel, by decide +kernel, by decide +kernel, by decide +kernel⟩

/-- `hst` of `weak_hN` on that input -/
example : ∀ x ∈ seqChars exTextB exSeqB, x.2.start ∈ exSeqB.indices := by decide +kernel

/-- non-vacuity with two runs and an override: runs `[0,3)` and `[4,7)` (unit 3 belongs to another sequence),
    original classes `L ON LRE · NSM PDF NSM`, the NSM at unit 4 overridden to R, units 2 and 5 removed:
    the hypotheses `hruns hrem hkept hov` hold -/
example : runsOK 0 ({ runs := [(0, 3), (4, 7)], sos := L, eos := R } : IRSeq).runs [L, ON, BN, ES, R, BN, NSM].length = true ∧
    (∀ i ∈ ({ runs := [(0, 3), (4, 7)], sos := L, eos := R } : IRSeq).indices,
      keepU [L, ON, LRE, ES, NSM, PDF, NSM] i = false → cget [L, ON, BN, ES, R, BN, NSM] i = BN) ∧
    (∀ i ∈ ({ runs := [(0, 3), (4, 7)], sos := L, eos := R } : IRSeq).indices,
      keepU [L, ON, LRE, ES, NSM, PDF, NSM] i = true → (cget [L, ON, BN, ES, R, BN, NSM] i).removedByX9 = false) ∧
    (∀ i ∈ ({ runs := [(0, 3), (4, 7)], sos := L, eos := R } : IRSeq).indices,
      keepU [L, ON, LRE, ES, NSM, PDF, NSM] i = true →
        cget [L, ON, BN, ES, R, BN, NSM] i = cget [L, ON, LRE, ES, NSM, PDF, NSM] i ∨
        cget [L, ON, BN, ES, R, BN, NSM] i = L ∨ cget [L, ON, BN, ES, R, BN, NSM] i = R) :=
  ⟨by decide +kernel, by decide +kernel, by decide +kernel, by decide +kernel⟩

/-- (test) the weak stage on it: the removed units 2 and 5 lie in the trail of the bracket-like unit 1
    (through the overridden NSM at unit 4) and stay BN; the unit 3 of the other sequence is untouched -/
example : resolveWeak (fun _ => some 1) { runs := [(0, 3), (4, 7)], sos := L, eos := R } [L, ON, BN, ES, R, BN, NSM]
    = [L, ON, BN, ES, R, BN, R] := by decide +kernel
example : InTrail ({ runs := [(0, 3), (4, 7)], sos := L, eos := R } : IRSeq).indices
    [L, ON, LRE, ES, NSM, PDF, NSM] 1 6 := by
  unfold InTrail
  exact ⟨by decide +kernel, by decide +kernel⟩

/-- (test) why `hN` asks for "BN or ON" and not "BN": a bracket of class CS (unit 0), a removed unit, a kept
    NSM: the weak stage returns ON for the removed unit (forward sweep of the separator), not BN -/
example : resolveWeak (fun _ => some 1) { runs := [(0, 3)], sos := L, eos := L } [CS, BN, NSM] = [ON, ON, ON] := by
  decide +kernel
/-- (test) the same with a bracket of class ET: the removed unit joins the pending ET run -/
example : resolveWeak (fun _ => some 1) { runs := [(0, 3)], sos := L, eos := L } [ET, BN, NSM] = [ON, ON, ON] := by
  decide +kernel
/-- (test) with a bracket of class ON the removed unit stays BN -/
example : resolveWeak (fun _ => some 1) { runs := [(0, 3)], sos := L, eos := L } [ON, BN, NSM] = [ON, BN, ON] := by
  decide +kernel

/-- test (formerly a disagreement of the crate and UAX #9, cf. the former `hB` test of `C01NeutralBN`): a
    data source in which the character 1000 is a closing bracket of class CS.  `( א ⟨1000⟩ LRE ◌̀ a`, sos = R,
    e = L.  The weak stage resolves the CS to ON and its forward sweep rewrites the removed unit 3 to ON.  N0
    makes the pair R; the crate's sweep after the closing bracket steps over unit 3 (removed by X9) and gives
    the kept NSM (unit 4) the bracket's type R, as UAX #9 does.  (Before the fix of the sweep it stopped at
    unit 3 — not an original NSM, no longer BN — and the NSM stayed ON and became L by N1/N2.) -/
def exDsCs : DataSource :=
  { cls := fun _ => ON,
    brk := fun cp => if cp == 0x28 then some ⟨0x28, true⟩ else if cp == 1000 then some ⟨0x28, false⟩ else none }
def exTextCs : Text :=
  { enc := .utf32, len := 6, segs := Text.layout .utf32 0 [0x28, 0x5D0, 1000, 0x202A, 0x300, 0x61] }
example : resolveWeak (fun _ => some 1) { runs := [(0, 6)], sos := R, eos := L } [ON, R, CS, BN, NSM, L]
    = [ON, R, ON, ON, ON, L] := by decide +kernel
example : Spec.weak R [ON, R, CS, NSM, L] = [ON, R, ON, ON, L] := by decide +kernel
example : (resolveNeutral exDsCs exTextCs { runs := [(0, 6)], sos := R, eos := L } (List.replicate 6 0)
      [ON, R, CS, LRE, NSM, L] [ON, R, ON, ON, ON, L]).1 = [R, R, R, R, R, L] := by decide +kernel
example : Spec.n12 R L L ((Spec.bracketPairs [ON, R, ON, ON, L]
      ([0x28, 0x5D0, 1000, 0x300, 0x61].map exDsCs.brk)).foldl
      (Spec.n0One R L [false, false, false, true, false]) [ON, R, ON, ON, L]) = [R, R, R, R, L] := by
  decide +kernel

end UBidi.Lemmas.C01Weak
