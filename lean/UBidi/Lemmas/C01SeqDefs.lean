/-
  C01 / StageSeq — vocabulary: the single-unit setting, the survivors `ks` of X9 as
  `Spec.paragraphLevels` builds them, the translation of paragraph positions to positions in
  `ks`, and the X10 values `sos` / `eos` of `Spec.resolveSequence`.
-/
import UBidi.Model.Pipeline
import UBidi.Spec.UAX9
namespace UBidi.Lemmas.C01Seq
open UBidi UBidi.BidiClass

/-- a well-formed text of `n` characters, one code unit each -/
structure UnitText (t : Text) (n : Nat) : Prop where
  wf : t.WF
  len : t.len = n
  unit : ∀ s ∈ t.segs, s.len = 1

/-- the canonical single-unit text of `n` characters -/
def unitText (n : Nat) : Text :=
  { enc := .utf32, len := n, segs := (List.range n).map (fun i => ⟨i, 0, 1⟩) }

/-- is position `i` kept by X9? -/
def keptAt (cls : List BidiClass) (i : Nat) : Bool := notRemoved (cls.getD i ON)

/-- the positions that survive X9, increasing -/
def keptIdx (cls : List BidiClass) : List Nat := (List.range cls.length).filter (keptAt cls)

/-- paragraph position ↦ position in `ks`: the number of surviving characters before `i` -/
def toKs (cls : List BidiClass) (i : Nat) : Nat := ((cls.take i).filter notRemoved).length

/-- a run of paragraph positions ↦ the run of positions in `ks` of its surviving characters -/
def tau (cls : List BidiClass) (r : Nat × Nat) : Nat × Nat := (toKs cls r.1, toKs cls r.2)

/-- the characters that survive X9, exactly as `Spec.paragraphLevels` builds them -/
def ksOf (pl : Nat) (chars : List Spec.Ch) : List Spec.K :=
  let cls := chars.map (·.cls)
  let ex := Spec.explicit pl cls
  let all : List Spec.K := (List.range chars.length).map (fun i =>
    { orig := i, level := (ex.getD i (0, ON)).1, ty := (ex.getD i (0, ON)).2,
      cls := cls.getD i ON, brk := (chars.getD i default).brk })
  all.filter (fun k => !Spec.isRemoved k.cls)

/-- X10: `sos` of a sequence, as `Spec.resolveSequence` computes it -/
def sosOf (pl : Nat) (ks : List Spec.K) (q : List (Nat × Nat)) : BidiClass :=
  match (Spec.seqPositions q).head? with
  | some first =>
    let lvl := (ks.getD first default).level
    let before := if first == 0 then pl else (ks.getD (first - 1) default).level
    Spec.dirOfLevel (max lvl before)
  | none => L

/-- X10: `eos` of a sequence, as `Spec.resolveSequence` computes it -/
def eosOf (pl : Nat) (ks : List Spec.K) (q : List (Nat × Nat)) : BidiClass :=
  match (Spec.seqPositions q).getLast? with
  | some last =>
    let lastK := ks.getD last default
    let after :=
      if Spec.isIsoInit lastK.cls then pl
      else if last + 1 < ks.length then (ks.getD (last + 1) default).level else pl
    Spec.dirOfLevel (max lastK.level after)
  | none => L

/-- `sosOf` / `eosOf` are the values `Spec.resolveSequence` works with -/
theorem resolveSequence_eq (pl : Nat) (ks : List Spec.K) (seq : List (Nat × Nat))
    (h : Spec.seqPositions seq ≠ []) :
    Spec.resolveSequence pl ks seq =
      let pos := Spec.seqPositions seq
      let sos := sosOf pl ks seq
      let eos := eosOf pl ks seq
      let e := Spec.dirOfLevel (ks.getD (pos.headD 0) default).level
      let ts0 := pos.map (fun p => (ks.getD p default).ty)
      let origNSM := pos.map (fun p => (ks.getD p default).cls == NSM)
      let bs := pos.map (fun p => (ks.getD p default).brk)
      let ts1 := Spec.weak sos ts0
      let ts2 := (Spec.bracketPairs ts1 bs).foldl (Spec.n0One sos e origNSM) ts1
      let ts3 := Spec.n12 sos eos e ts2
      pos.zip ts3 := by
  unfold Spec.resolveSequence sosOf eosOf
  cases hh : (Spec.seqPositions seq).head? with
  | none => simp at hh; exact absurd hh h
  | some first =>
    cases hl : (Spec.seqPositions seq).getLast? with
    | none => simp at hl; exact absurd hl h
    | some last =>
      have : (Spec.seqPositions seq).headD 0 = first := by
        rw [List.headD_eq_head?_getD, hh]; rfl
      simp only [this, hh, hl]

/-- the survivors are the surviving positions with their Spec data -/
theorem ksOf_eq (pl : Nat) (chars : List Spec.Ch) :
    ksOf pl chars = (keptIdx (chars.map (·.cls))).map (fun i =>
      ({ orig := i, level := ((Spec.explicit pl (chars.map (·.cls))).getD i (0, ON)).1,
         ty := ((Spec.explicit pl (chars.map (·.cls))).getD i (0, ON)).2,
         cls := (chars.map (·.cls)).getD i ON, brk := (chars.getD i default).brk } : Spec.K)) := by
  unfold ksOf keptIdx
  simp only [List.filter_map, List.length_map]
  congr 1
  apply List.filter_congr
  intro i _
  simp only [Function.comp, keptAt, notRemoved]
  cases (chars.map (·.cls)).getD i ON <;> rfl

/-- `ksOf` is what `Spec.paragraphLevels` resolves -/
theorem paragraphLevels_uses_ksOf (pl : Nat) (chars : List Spec.Ch) :
    Spec.paragraphLevels pl chars =
      (let ks := ksOf pl chars
       let resolved := (Spec.isolatingRunSequences ks).flatMap (Spec.resolveSequence pl ks)
       let tyAt (p : Nat) : BidiClass := ((resolved.find? (fun x => x.1 == p)).map (·.2)).getD ON
       let kLevels : List (Nat × Nat) := (List.range ks.length).map (fun p =>
         let k := ks.getD p default
         (k.orig, Spec.implicitLevel k.level (tyAt p)))
       Spec.paragraphLevels.fill kLevels pl 0 (List.range chars.length)) := rfl

end UBidi.Lemmas.C01Seq
