/-
  C11 helpers, part 2: the fold of `explicitCompute` (levels, lengths, no panic) and `resolveLevels`.
-/
import UBidi.Lemmas.C11Inv
namespace UBidi.Props.C11
open UBidi UBidi.BidiClass

/-! ### `exStep` field by field -/
section
variable (pl : Nat) (ocs : List BidiClass) (st : ExState) (s : Seg)

theorem exStep_stack : (exStep pl ocs st s).stack = (exChar pl st.stack st.oi st.oe st.vi (ocs.getD s.start ON)).stack := by
  unfold exStep; simp only []; split <;> (try split) <;> rfl
theorem exStep_oi : (exStep pl ocs st s).oi = (exChar pl st.stack st.oi st.oe st.vi (ocs.getD s.start ON)).oi := by
  unfold exStep; simp only []; split <;> (try split) <;> rfl
theorem exStep_oe : (exStep pl ocs st s).oe = (exChar pl st.stack st.oi st.oe st.vi (ocs.getD s.start ON)).oe := by
  unfold exStep; simp only []; split <;> (try split) <;> rfl
theorem exStep_vi : (exStep pl ocs st s).vi = (exChar pl st.stack st.oi st.oe st.vi (ocs.getD s.start ON)).vi := by
  unfold exStep; simp only []; split <;> (try split) <;> rfl
theorem exStep_levels : (exStep pl ocs st s).levels =
    st.levels ++ List.replicate s.len (exChar pl st.stack st.oi st.oe st.vi (ocs.getD s.start ON)).level := by
  unfold exStep; simp only []; split <;> (try split) <;> rfl
theorem exStep_pcs : (exStep pl ocs st s).pcs =
    st.pcs ++ List.replicate s.len (exChar pl st.stack st.oi st.oe st.vi (ocs.getD s.start ON)).pc := by
  unfold exStep; simp only []; split <;> (try split) <;> rfl
theorem exStep_err : (exStep pl ocs st s).err =
    orErr st.err (orErr (if s.start < ocs.length then none else some .indexOutOfBounds)
      (exChar pl st.stack st.oi st.oe st.vi (ocs.getD s.start ON)).err) := by
  unfold exStep; simp only []; split <;> (try split) <;> rfl
end

/-- what the fold of `explicitCompute` maintains -/
structure StInv (pl : Nat) (st : ExState) : Prop where
  inv : ExInv pl st.stack st.oi st.oe st.vi
  lv : ∀ l ∈ st.levels, pl ≤ l ∧ l ≤ 125

theorem exStep_inv {pl : Nat} {st : ExState} (ocs : List BidiClass) (h : StInv pl st) (s : Seg) :
    StInv pl (exStep pl ocs st s) := by
  obtain ⟨last, rest, hs⟩ := h.inv.cons
  have hi := h.inv
  rw [hs] at hi
  have := inv_step_cons hi (ocs.getD s.start ON)
  constructor
  · rw [exStep_stack, exStep_oi, exStep_oe, exStep_vi, hs]; exact this.1
  · rw [exStep_levels, hs]
    intro l hl
    rcases List.mem_append.1 hl with hl | hl
    · exact h.lv l hl
    · rw [List.eq_of_mem_replicate hl]; exact this.2.2

theorem fold_inv {pl : Nat} (ocs : List BidiClass) :
    ∀ (segs : List Seg) (st : ExState), StInv pl st → StInv pl (segs.foldl (exStep pl ocs) st)
  | [], _, h => h
  | s :: segs, _, h => fold_inv ocs segs _ (exStep_inv ocs h s)

theorem fold_err {pl : Nat} (ocs : List BidiClass) :
    ∀ (segs : List Seg) (st : ExState), StInv pl st → st.err = none →
      (∀ s ∈ segs, s.start < ocs.length) → (segs.foldl (exStep pl ocs) st).err = none
  | [], _, _, he, _ => he
  | s :: segs, st, h, he, hb => by
    refine fold_err ocs segs _ (exStep_inv ocs h s) ?_ (fun x hx => hb x (by simp [hx]))
    obtain ⟨last, rest, hs⟩ := h.inv.cons
    have hi := h.inv
    rw [hs] at hi
    have := (inv_step_cons hi (ocs.getD s.start ON)).2.1
    rw [exStep_err, he, hs, this, if_pos (hb s (by simp))]; rfl

theorem segsFrom_bounds : ∀ (segs : List Seg) (p e : Nat), SegsFrom p segs e →
    p ≤ e ∧ ∀ s ∈ segs, p ≤ s.start ∧ s.start < e
  | [], p, e, h => by simp only [SegsFrom] at h; subst h; simp
  | s :: segs, p, e, h => by
    simp only [SegsFrom] at h
    have ih := segsFrom_bounds segs _ e h.2.2
    refine ⟨by omega, ?_⟩
    intro x hx
    rcases List.mem_cons.1 hx with rfl | hx
    · omega
    · have := ih.2 x hx; omega

theorem fold_len (pl : Nat) (ocs : List BidiClass) :
    ∀ (segs : List Seg) (st : ExState) (p e : Nat), SegsFrom p segs e →
      (segs.foldl (exStep pl ocs) st).levels.length = st.levels.length + (e - p) ∧
      (segs.foldl (exStep pl ocs) st).pcs.length = st.pcs.length + (e - p)
  | [], _, p, e, h => by simp only [SegsFrom] at h; subst h; simp
  | s :: segs, st, p, e, h => by
    simp only [SegsFrom] at h
    have hb := (segsFrom_bounds segs _ e h.2.2).1
    have ih := fold_len pl ocs segs (exStep pl ocs st s) _ e h.2.2
    rw [List.foldl_cons, ih.1, ih.2, exStep_levels, exStep_pcs]
    simp only [List.length_append, List.length_replicate]
    omega

/-! ### I1 / I2 -/

theorem resolveLevel_ok (l : Nat) (c : BidiClass) (h : l ≤ 125) :
    (resolveLevel l c).1 ≤ 126 ∧ (resolveLevel l c).2 = none := by
  have hp : Level.isRtl l = true ↔ l % 2 = 1 := (C19.parity l).2.1
  cases hr : Level.isRtl l
  · have : l % 2 = 0 := by
      rcases Nat.mod_two_eq_zero_or_one l with h0 | h1
      · exact h0
      · rw [hp.2 h1] at hr; cases hr
    have h124 : l ≤ 124 := by omega
    cases c <;> simp [resolveLevel, C19.raise_spec, hr, h124, h] <;> omega
  · have := hp.1 hr
    cases c <;> simp [resolveLevel, C19.raise_spec, hr, h] <;> omega

/-! ### every `&str` is a well-formed text (used by the non-vacuity examples) -/

theorem charLen_pos (enc : Enc) (c : Nat) : 0 < enc.charLen c := by
  cases enc <;> simp only [Enc.charLen, utf8Len, utf16Len] <;> (repeat' split) <;> omega

theorem foldl_add_shift (l : List Nat) (a : Nat) : l.foldl (· + ·) a = a + l.foldl (· + ·) 0 := by
  induction l generalizing a with
  | nil => simp
  | cons x xs ih => simp only [List.foldl_cons]; rw [ih (a + x), ih (0 + x)]; omega

theorem layout_segsFrom (enc : Enc) (pos : Nat) (cs : List Nat) :
    SegsFrom pos (Text.layout enc pos cs) (pos + Text.totalLen enc cs) := by
  induction cs generalizing pos with
  | nil => simp [Text.layout, Text.totalLen, SegsFrom]
  | cons c cs ih =>
    simp only [Text.layout, SegsFrom, true_and]
    refine ⟨charLen_pos enc c, ?_⟩
    have := ih (pos + enc.charLen c)
    have e : Text.totalLen enc (c :: cs) = enc.charLen c + Text.totalLen enc cs := by
      simp only [Text.totalLen, List.map_cons, List.foldl_cons]
      rw [foldl_add_shift]; omega
    rw [e]; rw [Nat.add_assoc] at this; exact this

theorem layout_lens (enc : Enc) (pos : Nat) (cs : List Nat) :
    ∀ s ∈ Text.layout enc pos cs, s.len = enc.charLen s.cp := by
  induction cs generalizing pos with
  | nil => simp [Text.layout]
  | cons c cs ih =>
    intro s hs
    simp only [Text.layout, List.mem_cons] at hs
    rcases hs with rfl | hs
    · rfl
    · exact ih _ s hs

theorem ofScalars_WF (cs : List Nat) : (Text.ofScalars cs).WF := by
  refine ⟨?_, layout_lens _ _ _⟩
  have := layout_segsFrom .utf8 0 cs
  simpa [Text.ofScalars] using this

end UBidi.Props.C11
