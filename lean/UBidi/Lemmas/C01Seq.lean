/-
  C01 / StageSeq — the Model's isolating run sequences (`prepare::isolating_run_sequences`:
  a stack algorithm over the level runs, plus a fast path) are the BD13 sequences of UAX #9 with
  the X10 `sos`/`eos`, up to order, in the single-unit setting.

  Parts: C01SeqDefs (vocabulary), C01SeqStack (the stack algorithm = BD13 from abstract facts),
  C01SeqBal / C01SeqMatch (BD9 facts), C01SeqLevels / C01SeqF3 (X1–X8 facts on matched pairs),
  C01SeqKs (the survivors satisfy the abstract facts), C01SeqRuns (the Model's level runs),
  C01SeqTau (removed characters), C01SeqBounds (sos / eos).
-/
import UBidi.Lemmas.C01SeqKs
import UBidi.Lemmas.C01SeqTau
import UBidi.Lemmas.C01SeqRuns
import UBidi.Lemmas.C01SeqBounds
namespace UBidi.Lemmas.C01Seq
open UBidi UBidi.BidiClass
open UBidi.Props.C13 (Contig contig_bounds)

/-- what is compared: the positions (in `ks`) of a sequence, its `sos` and its `eos` -/
abbrev Item := List Nat × BidiClass × BidiClass

/-- a Model sequence: its kept positions translated to positions in `ks` (nothing if it has none) -/
def modelItem (cls : List BidiClass) (s : IRSeq) : Option Item :=
  let ps := s.indices.filter (fun i => notRemoved (cls.getD i ON))
  if ps = [] then none else some (ps.map (toKs cls), s.sos, s.eos)

/-- a Spec sequence with its X10 values -/
def specItem (pl : Nat) (ks : List Spec.K) (q : List (Nat × Nat)) : Item :=
  (Spec.seqPositions q, sosOf pl ks q, eosOf pl ks q)

theorem foldl_orErr_none' {α} (f : α → Option Panic) :
    ∀ (xs : List α), (∀ x ∈ xs, f x = none) → xs.foldl (fun e x => orErr e (f x)) none = none
  | [], _ => rfl
  | x :: xs, h => by
    rw [List.foldl_cons, h x (by simp)]
    exact foldl_orErr_none' f xs (fun y hy => h y (by simp [hy]))

theorem filterMap_none {α β} (f : α → Option β) (l : List α) (h : ∀ x ∈ l, f x = none) :
    l.filterMap f = [] := by
  rw [List.filterMap_eq_nil_iff]; exact h

theorem filterMap_some {α β} (f : α → Option β) (g : α → β) (l : List α)
    (h : ∀ x ∈ l, f x = some (g x)) : l.filterMap f = l.map g := by
  induction l with
  | nil => rfl
  | cons a l ih =>
    rw [List.filterMap_cons, h a (by simp), List.map_cons, ih (fun x hx => h x (by simp [hx]))]

/-- the general path of the Model, written with the `KState` fold -/
theorem general_path (pl : Nat) (cls : List BidiClass) (lv : List Nat) (runs : List (Nat × Nat))
    (hr : ∀ r ∈ runs, r.1 < r.2) :
    isolatingRunSequences pl cls lv runs true =
      (let K := runs.foldl (mStep cls) ⟨[], []⟩
       let rs := (K.done ++ K.entries).map (seqBounds pl cls lv)
       (rs.map (·.1), rs.foldl (fun e r => orErr e r.2) none)) := by
  unfold isolatingRunSequences
  simp only [Bool.not_true, Bool.false_eq_true, if_false]
  have h0 : ({ stack := [[]], done := [] } : PrepState) = toPrep ⟨[], []⟩ := rfl
  rw [h0, fold_prep cls runs _ hr]
  have hne := mfold_mem cls (fun _ => True) runs ⟨[], []⟩ (by simp) (by simp)
  have hfil : ((runs.foldl (mStep cls) ⟨[], []⟩).entries ++ [[]]).filter (fun s => !s.isEmpty) =
      (runs.foldl (mStep cls) ⟨[], []⟩).entries := by
    rw [List.filter_append]
    have : (runs.foldl (mStep cls) ⟨[], []⟩).entries.filter (fun s => !s.isEmpty) =
        (runs.foldl (mStep cls) ⟨[], []⟩).entries := by
      rw [List.filter_eq_self]
      intro s hs
      have := (hne s (by simp [hs])).1
      cases s with
      | nil => exact absurd rfl this
      | cons a t => rfl
    rw [this]; simp
  simp only [toPrep, hfil]

/-- StageSeq, general path (`has_isolate_controls = true`, whether or not there are any) -/
theorem stageSeq_general (t : Text) (n : Nat) (hu : UnitText t n) (pl : Nat) (hpl : pl ≤ 1)
    (chars : List Spec.Ch) (hlen : chars.length = n) (hB : NoInnerB (chars.map (·.cls))) :
    let cls := chars.map (·.cls)
    let e := explicitCompute t pl cls
    let ks := ksOf pl chars
    (isolatingRunSequences pl cls e.levels e.runs true).2 = none ∧
    ((isolatingRunSequences pl cls e.levels e.runs true).1.filterMap (modelItem cls)).Perm
      ((Spec.isolatingRunSequences ks).map (specItem pl ks)) := by
  intro cls e ks
  have hlen' : cls.length = n := by simp [cls, hlen]
  obtain ⟨hlv, _, hagree, hcontig, hstart, hruns⟩ := explicit_unit t n hu pl hpl cls hlen'
  -- levels and classes of the survivors
  have hlevK : ks.map (·.level) = (keptIdx cls).map (fun i => e.levels.getD i 0) := by
    show (ksOf pl chars).map (·.level) = _
    rw [ksOf_eq, List.map_map]
    apply List.map_congr_left
    intro i hi
    have hi' := List.mem_filter.1 hi
    have hin : i < n := by rw [← hlen']; exact List.mem_range.1 hi'.1
    have := hagree i hin hi'.2
    show ((Spec.explicit pl cls).getD i (0, ON)).1 = e.levels.getD i 0
    rw [List.getD_eq_getElem?_getD, this]
    rfl
  have hclsK : ks.map (·.cls) = (keptIdx cls).map (fun i => cls.getD i ON) := by
    show (ksOf pl chars).map (·.cls) = _
    rw [ksOf_eq, List.map_map]; rfl
  -- Layer 4
  rw [← hlen'] at hcontig
  obtain ⟨garbage, D, hdone, hgarb, hgood, hmap⟩ := fold_runs_tau cls e.runs hcontig hstart
  have hrlt : ∀ r ∈ e.runs, r.1 < r.2 := fun r hr => ((contig_bounds hcontig).2 r hr).2.1
  rw [general_path pl cls e.levels e.runs hrlt]
  generalize hKf : e.runs.foldl (mStep cls) ⟨[], []⟩ = Kf at hdone hgood hmap
  simp only []
  rw [hdone]
  -- every sequence gets its bounds without error
  have hgarbB : ∀ s ∈ garbage, (seqBounds pl cls e.levels s).2 = none ∧
      modelItem cls (seqBounds pl cls e.levels s).1 = none := by
    intro s hs
    obtain ⟨h1, h2⟩ := hgarb s hs
    obtain ⟨b1, _, b3⟩ := bounds_empty pl cls e.levels s h1 h2
    refine ⟨b1, ?_⟩
    unfold modelItem
    have : (fun i => notRemoved (cls.getD i ON)) = keptAt cls := rfl
    simp only [this, b3, if_true]
  have hgoodB : ∀ s ∈ D ++ Kf.entries, (seqBounds pl cls e.levels s).2 = none ∧
      modelItem cls (seqBounds pl cls e.levels s).1 = some (specItem pl ks (s.map (tau cls))) := by
    intro s hs
    obtain ⟨h1, h2⟩ := hgood s (by
      rcases List.mem_append.1 hs with h | h
      · exact List.mem_append.2 (Or.inr h)
      · exact List.mem_append.2 (Or.inl h))
    obtain ⟨b1, _, b3, b4, b5, b6⟩ := bounds_spec pl cls e.levels ks hlevK hclsK s h1 h2
    refine ⟨b1, ?_⟩
    unfold modelItem specItem
    have : (fun i => notRemoved (cls.getD i ON)) = keptAt cls := rfl
    simp only [this]
    have hne : (seqBounds pl cls e.levels s).1.indices.filter (keptAt cls) ≠ [] := by
      intro h0; rw [h0] at b3; exact b4 b3.symm
    rw [if_neg hne, b3, b5, b6]
  constructor
  · rw [List.foldl_map]
    apply foldl_orErr_none' (fun s => (seqBounds pl cls e.levels s).2)
    intro s hs
    rw [List.append_assoc] at hs
    rcases List.mem_append.1 hs with h | h
    · exact (hgarbB s h).1
    · exact (hgoodB s h).1
  · have e1 : garbage.filterMap (modelItem cls ∘ (fun x => x.1) ∘ seqBounds pl cls e.levels) = [] :=
      filterMap_none _ _ (fun s hs => (hgarbB s hs).2)
    have e2 : (D ++ Kf.entries).filterMap (modelItem cls ∘ (fun x => x.1) ∘ seqBounds pl cls e.levels) =
        (D ++ Kf.entries).map (fun s => specItem pl ks (s.map (tau cls))) :=
      filterMap_some _ _ _ (fun s hs => (hgoodB s hs).2)
    rw [List.map_map, List.filterMap_map, List.append_assoc, List.filterMap_append, e1, e2,
      List.nil_append]
    -- Layer 3
    have H := hyp_ks pl cls hB
    have hperm := stack_bd13 H
    have hspec : Spec.isolatingRunSequences ks =
        (Spec.levelRuns ((keptPairs pl cls).map (·.2)) 0).foldl
          (Spec.addRun (Spec.matchTable ((keptPairs pl cls).map (·.1)))) [] := by
      unfold Spec.isolatingRunSequences
      show (Spec.levelRuns ((ksOf pl chars).map (·.level)) 0).foldl
        (Spec.addRun (Spec.matchTable ((ksOf pl chars).map (·.cls)))) [] = _
      rw [ks_cls, ks_level]
    have hruns' : (e.runs.map (tau cls)).filter (fun r => decide (r.1 < r.2)) =
        Spec.levelRuns ((keptPairs pl cls).map (·.2)) 0 := by
      rw [hruns, ← hlevK]
      show Spec.levelRuns ((ksOf pl chars).map (·.level)) 0 = _
      rw [ks_level]
    rw [hruns', ← keptPairs_fst pl cls] at hmap
    rw [← hmap] at hperm
    rw [hspec]
    have := (hperm.map (specItem pl ks)).symm
    simp only [mapK, List.map_append, List.map_map] at this
    simp only [List.map_append]
    exact this

/-! ### the fast path -/

theorem endClassOf_mem (cls : List BidiClass) (r : Nat × Nat) : endClassOf cls r ∈ cls ∨ endClassOf cls r = ON := by
  unfold endClassOf
  cases h : (slice cls r.1 r.2).reverse.find? notRemoved with
  | some c =>
    left
    have h1 := List.mem_of_find?_eq_some h
    rw [List.mem_reverse] at h1
    unfold slice at h1
    exact List.mem_of_mem_drop (List.mem_of_mem_take h1)
  | none =>
    simp only [Option.getD_none]
    rw [List.getD_eq_getElem?_getD]
    cases h2 : cls[r.1]? with
    | none => right; rfl
    | some c => left; exact List.mem_of_getElem? h2

/-- without isolate initiators the stack algorithm finishes every run as its own sequence -/
theorem mfold_noiso (cls : List BidiClass) (hno : ∀ c ∈ cls, c.isIsolateInitiator = false) :
    ∀ (runs : List (Nat × Nat)) (D : List Seq),
      runs.foldl (mStep cls) ⟨[], D⟩ = ⟨[], D ++ runs.map (fun r => [r])⟩
  | [], D => by simp
  | r :: runs, D => by
    have hend : (endClassOf cls r).isIsolateInitiator = false := by
      rcases endClassOf_mem cls r with h | h
      · exact hno _ h
      · rw [h]; rfl
    have hstep : mStep cls ⟨[], D⟩ r = ⟨[], D ++ [[r]]⟩ := by
      simp [mStep, gStep, hend]
    rw [List.foldl_cons, hstep, mfold_noiso cls hno runs]
    simp

/-- when the paragraph has no isolate initiator, the fast path (`has_isolate_controls = false`)
    returns exactly what the general path returns (same sequences, same order, same sos / eos) -/
theorem fast_eq_general (pl : Nat) (cls : List BidiClass) (lv : List Nat) (runs : List (Nat × Nat))
    (hno : ∀ c ∈ cls, c.isIsolateInitiator = false)
    (hr : ∀ r ∈ runs, r.1 < r.2 ∧ r.2 ≤ cls.length) (hlen : lv.length = cls.length) :
    isolatingRunSequences pl cls lv runs false = isolatingRunSequences pl cls lv runs true := by
  rw [general_path pl cls lv runs (fun r h => (hr r h).1), mfold_noiso cls hno runs []]
  unfold isolatingRunSequences
  simp only [Bool.not_false, if_true, List.nil_append, List.append_nil, List.map_map]
  congr 1
  · apply List.map_congr_left
    intro r h
    exact fast_eq_bounds pl cls lv r (hr r h) hlen hno
  · rw [List.foldl_map]
    exact (foldl_orErr_none' (fun r : Nat × Nat => (seqBounds pl cls lv [r]).2) runs (fun _ _ => rfl)).symm

/-- StageSeq, fast path: no isolate initiator in the paragraph, `has_isolate_controls = false` -/
theorem stageSeq_fast (t : Text) (n : Nat) (hu : UnitText t n) (pl : Nat) (hpl : pl ≤ 1)
    (chars : List Spec.Ch) (hlen : chars.length = n) (hB : NoInnerB (chars.map (·.cls)))
    (hno : ∀ c ∈ chars.map (·.cls), c.isIsolateInitiator = false) :
    let cls := chars.map (·.cls)
    let e := explicitCompute t pl cls
    let ks := ksOf pl chars
    (isolatingRunSequences pl cls e.levels e.runs false).2 = none ∧
    ((isolatingRunSequences pl cls e.levels e.runs false).1.filterMap (modelItem cls)).Perm
      ((Spec.isolatingRunSequences ks).map (specItem pl ks)) := by
  intro cls e ks
  have hlen' : cls.length = n := by simp [cls, hlen]
  obtain ⟨hlv, _, _, hcontig, _, _⟩ := explicit_unit t n hu pl hpl cls hlen'
  have hr : ∀ r ∈ e.runs, r.1 < r.2 ∧ r.2 ≤ cls.length := by
    intro r h
    have := (contig_bounds hcontig).2 r h
    rw [hlen']; exact ⟨this.2.1, this.2.2⟩
  rw [fast_eq_general pl cls e.levels e.runs hno hr (by rw [hlen']; exact hlv)]
  exact stageSeq_general t n hu pl hpl chars hlen hB

/-- **StageSeq.**  A paragraph of `n` single-unit characters `chars` (classes after X5c; a paragraph
    separator only as the last character), paragraph level `pl ≤ 1`, and the flag the crate passes
    (`has_isolate_controls`: is there an isolate initiator).  `isolating_run_sequences` does not panic,
    and its sequences — the kept positions of each, translated to positions among the survivors of X9;
    sequences without kept position dropped — are, up to order, exactly the BD13 sequences of
    `Spec.isolatingRunSequences` with the X10 values `sos` / `eos` of `Spec.resolveSequence`. -/
theorem stageSeq (t : Text) (n : Nat) (hu : UnitText t n) (pl : Nat) (hpl : pl ≤ 1)
    (chars : List Spec.Ch) (hlen : chars.length = n) (hB : NoInnerB (chars.map (·.cls))) :
    let cls := chars.map (·.cls)
    let e := explicitCompute t pl cls
    let ks := ksOf pl chars
    let hasIso := cls.any isIsolateInitiator
    (isolatingRunSequences pl cls e.levels e.runs hasIso).2 = none ∧
    ((isolatingRunSequences pl cls e.levels e.runs hasIso).1.filterMap (modelItem cls)).Perm
      ((Spec.isolatingRunSequences ks).map (specItem pl ks)) := by
  intro cls e ks hasIso
  cases h : hasIso with
  | true => exact stageSeq_general t n hu pl hpl chars hlen hB
  | false =>
    have hno : ∀ c ∈ chars.map (·.cls), c.isIsolateInitiator = false := by
      intro c hc
      have := List.any_eq_false.1 h c hc
      simpa using this
    exact stageSeq_fast t n hu pl hpl chars hlen hB hno

/-- corollary of `stageSeq`: exactly the same (positions, sos, eos) triples occur on both sides -/
theorem stageSeq_mem (t : Text) (n : Nat) (hu : UnitText t n) (pl : Nat) (hpl : pl ≤ 1)
    (chars : List Spec.Ch) (hlen : chars.length = n) (hB : NoInnerB (chars.map (·.cls))) (it : Item) :
    let cls := chars.map (·.cls)
    let e := explicitCompute t pl cls
    let ks := ksOf pl chars
    it ∈ (isolatingRunSequences pl cls e.levels e.runs (cls.any isIsolateInitiator)).1.filterMap (modelItem cls) ↔
      it ∈ (Spec.isolatingRunSequences ks).map (specItem pl ks) :=
  (stageSeq t n hu pl hpl chars hlen hB).2.mem_iff

/-! ### non-vacuity and tests -/

/-- a sample paragraph: `a RLE LRI BN alef PDI PDF LRI b PDI ¶` -/
def sampleChars : List Spec.Ch :=
  [L, RLE, LRI, BN, R, PDI, PDF, LRI, L, PDI, B].map (fun c => { cls := c })

/-- non-vacuity: the hypotheses of `stageSeq` hold for the sample (with `unitText`) -/
example : UnitText (unitText 11) 11 ∧ (0 : Nat) ≤ 1 ∧ sampleChars.length = 11 ∧
    NoInnerB (sampleChars.map (·.cls)) :=
  ⟨unitText_unit 11, by decide, by decide, by unfold NoInnerB; decide⟩

/-- test (by evaluation): on the sample (survivors `a LRI alef PDI LRI b PDI ¶` at positions 0 … 7 of `ks`)
    both sides consist of the same five sequences; the Model finds them in another order -/
example :
    let cls := sampleChars.map (·.cls)
    let e := explicitCompute (unitText 11) 0 cls
    let ks := ksOf 0 sampleChars
    (isolatingRunSequences 0 cls e.levels e.runs true).1.filterMap (modelItem cls) =
      [([0], L, R), ([2], L, L), ([1, 3], R, R), ([5], L, L), ([4, 6, 7], R, L)] ∧
    (Spec.isolatingRunSequences ks).map (specItem 0 ks) =
      [([0], L, R), ([1, 3], R, R), ([2], L, L), ([4, 6, 7], R, L), ([5], L, L)] := by
  decide +kernel

/-- test (by evaluation): `RLE PDF LRI alef PDI` — the first Model run `(0, 2)` has no kept position;
    it yields a Model sequence of its own, which `modelItem` drops -/
example :
    let cls : List BidiClass := [RLE, PDF, LRI, R, PDI]
    let e := explicitCompute (unitText 5) 0 cls
    e.runs = [(0, 2), (2, 3), (3, 4), (4, 5)] ∧
    ((isolatingRunSequences 0 cls e.levels e.runs true).1.map (·.runs)) =
      [[(0, 2)], [(3, 4)], [(2, 3), (4, 5)]] ∧
    (isolatingRunSequences 0 cls e.levels e.runs true).1.filterMap (modelItem cls) =
      [([1], L, L), ([0, 2], L, L)] := by
  decide +kernel

/-- non-vacuity of `stageSeq_fast`: a paragraph with embeddings but no isolate initiator -/
example : UnitText (unitText 5) 5 ∧
    NoInnerB (([BN, RLE, R, PDF, L].map (fun c => ({ cls := c } : Spec.Ch))).map (·.cls)) ∧
    (∀ c ∈ ([BN, RLE, R, PDF, L].map (fun c => ({ cls := c } : Spec.Ch))).map (·.cls),
      c.isIsolateInitiator = false) :=
  ⟨unitText_unit 5, by unfold NoInnerB; decide, by decide⟩

end UBidi.Lemmas.C01Seq
