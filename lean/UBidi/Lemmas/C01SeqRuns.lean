/-
  C01 / StageSeq — the explicit stage (`explicitCompute`) on a single-unit text: one level per
  character, the Spec's level and type at every position X9 keeps, and the level runs detected
  while scanning against `Spec.levelRuns` of the kept levels (`explicit_unit`).

  Method: the run detection of `exStep` is a list function `Runs.rstep` of the per-character levels
  (`Runs.exStep_rs`); the fold of `explicitCompute` has a closed form (`Runs.FInv`, `Runs.FInv_fold`);
  the invariant of the run detection (`Runs.RInv`, `Runs.RInv_fold`) is proved for an arbitrary
  level function.  Helper names live in the namespace `UBidi.Lemmas.C01Seq.Runs`.
-/
import UBidi.Lemmas.C01SeqDefs
import UBidi.Props.C11
import UBidi.Lemmas.C13Runs
namespace UBidi.Lemmas.C01Seq
open UBidi UBidi.BidiClass
open UBidi.Props.C13 (Contig)

namespace Runs
open UBidi.Props.C13 UBidi.Props.C11

/-! ### the run detection of `exStep` as a list function -/

/-- the run-detection part of the state: `runs`, `curStart`, `curLevel` -/
abbrev RS := List (Nat × Nat) × Nat × Nat

/-- what character `i` with level `lv i` does to the run detection -/
def rstep (cls : List BidiClass) (lv : Nat → Nat) (s : RS) (i : Nat) : RS :=
  if i = 0 then (s.1, s.2.1, lv i)
  else if keptAt cls i = true ∧ lv i ≠ s.2.2 then (s.1 ++ [(s.2.1, i)], i, lv i)
  else s

/-- the levels of the kept positions below `i` -/
def kl (cls : List BidiClass) (lv : Nat → Nat) (i : Nat) : List Nat :=
  ((List.range i).filter (keptAt cls)).map lv

theorem kl_zero (cls : List BidiClass) (lv : Nat → Nat) : kl cls lv 0 = [] := rfl

theorem kl_succ (cls : List BidiClass) (lv : Nat → Nat) (i : Nat) :
    kl cls lv (i + 1) = if keptAt cls i = true then kl cls lv i ++ [lv i] else kl cls lv i := by
  unfold kl
  rw [List.range_succ, List.filter_append]
  by_cases h : keptAt cls i = true <;> simp [h]

theorem toKs_zero (cls : List BidiClass) : toKs cls 0 = 0 := rfl

theorem toKs_succ (cls : List BidiClass) (i : Nat) (hi : i < cls.length) :
    toKs cls (i + 1) = toKs cls i + (if keptAt cls i = true then 1 else 0) := by
  unfold toKs keptAt
  rw [List.take_succ_eq_append_getElem hi, List.filter_append, List.length_append]
  have : cls.getD i ON = cls[i] := by simp [List.getD, hi]
  rw [this]
  by_cases h : notRemoved cls[i] = true <;> simp [h]

theorem toKs_eq_kl (cls : List BidiClass) (lv : Nat → Nat) (i : Nat) (hi : i ≤ cls.length) :
    toKs cls i = (kl cls lv i).length := by
  induction i with
  | zero => rfl
  | succ i ih =>
    rw [toKs_succ cls i (by omega), kl_succ, ih (by omega)]
    by_cases h : keptAt cls i = true <;> simp [h]

/-- `Spec.levelRuns` with one more level at the end -/
theorem levelRuns_snoc (l1 : List Nat) (c1 c2 : Nat) :
    ∃ R0 x, Spec.levelRuns (l1 ++ [c1]) 0 = R0 ++ [(x, l1.length + 1)] ∧
      Spec.levelRuns (l1 ++ [c1] ++ [c2]) 0 =
        if c1 = c2 then R0 ++ [(x, l1.length + 2)]
        else R0 ++ [(x, l1.length + 1), (l1.length + 1, l1.length + 2)] := by
  obtain ⟨R0, x, b, RT, h1, h2, h3⟩ := levelRuns_join l1 c1 c2 [] 0
  simp only [Spec.levelRuns, Nat.zero_add, List.cons.injEq, Prod.mk.injEq, true_and] at h2
  obtain ⟨rfl, rfl⟩ := h2
  refine ⟨R0, x, by simpa using h1, ?_⟩
  rw [List.append_assoc, List.singleton_append, h3]
  by_cases h : c1 = c2 <;> simp [h]


abbrev nonempty (r : Nat × Nat) : Bool := decide (r.1 < r.2)

/-- what the run detection maintains after `i` characters -/
structure RInv (cls : List BidiClass) (lv : Nat → Nat) (i : Nat) (s : RS) : Prop where
  lt : i ≠ 0 → s.2.1 < i
  start : s.2.1 = 0 ∨ keptAt cls s.2.1 = true
  contig : Contig 0 s.1 s.2.1
  starts : ∀ r ∈ s.1, r.1 = 0 ∨ keptAt cls r.1 = true
  runs : ((s.1 ++ [(s.2.1, i)]).map (tau cls)).filter nonempty = Spec.levelRuns (kl cls lv i) 0
  last : kl cls lv i ≠ [] → (kl cls lv i).getLast? = some s.2.2 ∧ toKs cls s.2.1 < toKs cls i
  none : kl cls lv i = [] → s.1 = [] ∧ s.2.1 = 0

theorem RInv_zero (cls : List BidiClass) (lv : Nat → Nat) : RInv cls lv 0 ([], 0, 0) where
  lt := fun h => absurd rfl h
  start := Or.inl rfl
  contig := rfl
  starts := by simp
  runs := by simp [kl_zero, Spec.levelRuns, tau, toKs_zero]
  last := fun h => absurd (kl_zero cls lv) h
  none := fun _ => ⟨rfl, rfl⟩


theorem filt_snoc (cls : List BidiClass) (R : List (Nat × Nat)) (a b : Nat) :
    ((R ++ [(a, b)]).map (tau cls)).filter nonempty =
      (R.map (tau cls)).filter nonempty ++ (if toKs cls a < toKs cls b then [(toKs cls a, toKs cls b)] else []) := by
  rw [List.map_append, List.filter_append]
  by_cases h : toKs cls a < toKs cls b <;> simp [tau, nonempty, h]

/-- a removed character changes nothing -/
theorem RInv_removed {cls : List BidiClass} {lv : Nat → Nat} {i : Nat} {R : List (Nat × Nat)} {cs cl cl' : Nat}
    (h : RInv cls lv i (R, cs, cl)) (hi : i < cls.length) (hk : ¬ keptAt cls i = true)
    (hcl : cl' = cl ∨ kl cls lv i = []) : RInv cls lv (i + 1) (R, cs, cl') := by
  have hkl : kl cls lv (i + 1) = kl cls lv i := by rw [kl_succ, if_neg hk]
  have hks : toKs cls (i + 1) = toKs cls i := by rw [toKs_succ cls i hi, if_neg hk]; rfl
  refine ⟨?_, h.start, h.contig, h.starts, ?_, ?_, ?_⟩
  · intro _
    by_cases h0 : i = 0
    · subst h0; have := (h.none (kl_zero cls lv)).2; simp only at this ⊢; omega
    · have := h.lt h0; simp only at this ⊢; omega
  · rw [hkl, ← h.runs, filt_snoc, filt_snoc]; simp only [hks]
  · rw [hkl, hks]
    intro hne
    rcases hcl with rfl | he
    · exact h.last hne
    · exact absurd he hne
  · rw [hkl]; exact h.none


/-- from the invariant with `kl ≠ []`: the shape of the Spec's runs -/
theorem RInv_shape {cls : List BidiClass} {lv : Nat → Nat} {i : Nat} {R : List (Nat × Nat)} {cs cl : Nat}
    (h : RInv cls lv i (R, cs, cl)) (hi : i ≤ cls.length) (hne : kl cls lv i ≠ []) (c2 : Nat) :
    Spec.levelRuns (kl cls lv i ++ [c2]) 0 =
      if cl = c2 then (R.map (tau cls)).filter nonempty ++ [(toKs cls cs, toKs cls i + 1)]
      else (R.map (tau cls)).filter nonempty ++ [(toKs cls cs, toKs cls i), (toKs cls i, toKs cls i + 1)] := by
  obtain ⟨hl, hlt⟩ := h.last hne
  simp only at hl hlt
  rcases List.eq_nil_or_concat (kl cls lv i) with he | ⟨l1, c1, he⟩
  · exact absurd he hne
  · have hlen := toKs_eq_kl cls lv i hi
    have hr := h.runs
    simp only at hr
    rw [filt_snoc, if_pos hlt] at hr
    rw [he] at hl hr hlen ⊢
    simp only [List.concat_eq_append, List.getLast?_append, List.getLast?_singleton, Option.some_or,
      Option.some.injEq, List.length_append, List.length_singleton] at hl hlen
    subst hl
    obtain ⟨R0, x, g1, g2⟩ := levelRuns_snoc l1 c1 c2
    simp only [List.concat_eq_append] at hr ⊢
    rw [g1] at hr
    obtain ⟨e1, e2⟩ := List.append_inj' hr rfl
    simp only [List.cons.injEq, Prod.mk.injEq, and_true] at e2
    rw [g2, e1, e2.1, hlen]


/-- a kept character that continues the current run -/
theorem RInv_same {cls : List BidiClass} {lv : Nat → Nat} {i : Nat} {R : List (Nat × Nat)} {cs cl : Nat}
    (h : RInv cls lv i (R, cs, cl)) (hi : i < cls.length) (hk : keptAt cls i = true)
    (hcl : kl cls lv i ≠ [] → cl = lv i) : RInv cls lv (i + 1) (R, cs, lv i) := by
  have hkl : kl cls lv (i + 1) = kl cls lv i ++ [lv i] := by rw [kl_succ, if_pos hk]
  have hks : toKs cls (i + 1) = toKs cls i + 1 := by rw [toKs_succ cls i hi, if_pos hk]
  have hlen := toKs_eq_kl cls lv i (Nat.le_of_lt hi)
  have hcs : toKs cls cs < toKs cls i + 1 := by
    by_cases hne : kl cls lv i = []
    · have := (h.none hne).2; simp only at this; subst this; rw [toKs_zero]; omega
    · have := (h.last hne).2; simp only at this; omega
  refine ⟨?_, h.start, h.contig, h.starts, ?_, ?_, ?_⟩
  · intro _
    by_cases h0 : i = 0
    · subst h0; have := (h.none (kl_zero cls lv)).2; simp only at this ⊢; omega
    · have := h.lt h0; simp only at this ⊢; omega
  · simp only
    rw [hkl, filt_snoc, hks, if_pos hcs]
    by_cases hne : kl cls lv i = []
    · obtain ⟨e1, e2⟩ := h.none hne
      simp only at e1 e2
      subst e1 e2
      rw [hlen, hne]
      simp [Spec.levelRuns, toKs_zero]
    · rw [RInv_shape h (Nat.le_of_lt hi) hne (lv i), if_pos (hcl hne)]
  · intro _
    rw [hkl, hks]
    exact ⟨by simp, hcs⟩
  · rw [hkl]; intro he; simp at he

/-- a kept character that starts a new run -/
theorem RInv_new {cls : List BidiClass} {lv : Nat → Nat} {i : Nat} {R : List (Nat × Nat)} {cs cl : Nat}
    (h : RInv cls lv i (R, cs, cl)) (hi : i < cls.length) (h0 : i ≠ 0) (hk : keptAt cls i = true)
    (hcl : lv i ≠ cl) : RInv cls lv (i + 1) (R ++ [(cs, i)], i, lv i) := by
  have hkl : kl cls lv (i + 1) = kl cls lv i ++ [lv i] := by rw [kl_succ, if_pos hk]
  have hks : toKs cls (i + 1) = toKs cls i + 1 := by rw [toKs_succ cls i hi, if_pos hk]
  have hlen := toKs_eq_kl cls lv i (Nat.le_of_lt hi)
  have hlt := h.lt h0
  simp only at hlt
  refine ⟨fun _ => Nat.lt_succ_self i, Or.inr hk, ?_, ?_, ?_, ?_, ?_⟩
  · simp only
    rw [UBidi.Props.C13.contig_append]
    exact ⟨cs, h.contig, rfl, hlt, rfl⟩
  · intro r hr
    rcases List.mem_append.1 hr with hr | hr
    · exact h.starts r hr
    · simp only [List.mem_singleton] at hr; subst hr; exact h.start
  · simp only
    rw [hkl, filt_snoc, hks, if_pos (Nat.lt_succ_self _)]
    by_cases hne : kl cls lv i = []
    · have hr := h.runs
      simp only at hr
      rw [hr, hlen, hne]
      simp [Spec.levelRuns]
    · rw [RInv_shape h (Nat.le_of_lt hi) hne (lv i), if_neg (Ne.symm hcl), filt_snoc, if_pos (h.last hne).2]
      simp
  · intro _
    simp only
    rw [hkl, hks]
    exact ⟨by simp, Nat.lt_succ_self _⟩
  · rw [hkl]; intro he; simp at he

theorem RInv_step {cls : List BidiClass} {lv : Nat → Nat} {i : Nat} {s : RS}
    (h : RInv cls lv i s) (hi : i < cls.length) : RInv cls lv (i + 1) (rstep cls lv s i) := by
  obtain ⟨R, cs, cl⟩ := s
  unfold rstep
  by_cases h0 : i = 0
  · rw [if_pos h0]
    simp only
    by_cases hk : keptAt cls i = true
    · exact RInv_same h hi hk (fun hne => absurd (by rw [h0]; rfl) hne)
    · exact RInv_removed h hi hk (Or.inr (by rw [h0]; rfl))
  · rw [if_neg h0]
    simp only
    by_cases hc : keptAt cls i = true ∧ lv i ≠ cl
    · rw [if_pos hc]; exact RInv_new h hi h0 hc.1 hc.2
    · rw [if_neg hc]
      by_cases hk : keptAt cls i = true
      · have : cl = lv i := by
          by_cases e : lv i = cl
          · exact e.symm
          · exact absurd ⟨hk, e⟩ hc
        have := RInv_same h hi hk (fun _ => this)
        rwa [← ‹cl = lv i›] at this
      · exact RInv_removed h hi hk (Or.inl rfl)

theorem RInv_fold (cls : List BidiClass) (lv : Nat → Nat) (i : Nat) (hi : i ≤ cls.length) :
    RInv cls lv i ((List.range i).foldl (rstep cls lv) ([], 0, 0)) := by
  induction i with
  | zero => exact RInv_zero cls lv
  | succ i ih =>
    rw [List.range_succ, List.foldl_append]
    exact RInv_step (ih (by omega)) (by omega)


/-! ### the fold of `explicitCompute` in closed form -/

/-- the machine state before character `j` -/
def mach (pl : Nat) (cls : List BidiClass) (j : Nat) : MState :=
  runState pl ([⟨pl, .neutral⟩], 0, 0, 0) (cls.take j)

/-- what `exChar` reports at character `j` -/
def outAt (pl : Nat) (cls : List BidiClass) (j : Nat) : ExCharOut :=
  exChar pl (mach pl cls j).1 (mach pl cls j).2.1 (mach pl cls j).2.2.1 (mach pl cls j).2.2.2 (cls.getD j ON)

def lvAt (pl : Nat) (cls : List BidiClass) (j : Nat) : Nat := (outAt pl cls j).level
def pcAt (pl : Nat) (cls : List BidiClass) (j : Nat) : BidiClass := (outAt pl cls j).pc

theorem mach_inv (pl : Nat) (hpl : pl ≤ 1) (cls : List BidiClass) (j : Nat) : MInv pl (mach pl cls j) :=
  runState_inv _ (C11_inv_init pl hpl)

theorem mach_succ (pl : Nat) (cls : List BidiClass) (j : Nat) (hj : j < cls.length) :
    mach pl cls (j + 1) = ((outAt pl cls j).stack, (outAt pl cls j).oi, (outAt pl cls j).oe, (outAt pl cls j).vi) := by
  unfold mach outAt
  rw [List.take_succ_eq_append_getElem hj, runState_append]
  have : cls.getD j ON = cls[j] := by simp [List.getD, hj]
  rw [this]
  rfl

/-- the run detection of `exStep` is `rstep` -/
theorem exStep_rs (pl : Nat) (cls : List BidiClass) (lv : Nat → Nat) (st : ExState) (s : Seg)
    (hlv : lv s.start = (exChar pl st.stack st.oi st.oe st.vi (cls.getD s.start ON)).level) :
    ((exStep pl cls st s).runs, (exStep pl cls st s).curStart, (exStep pl cls st s).curLevel) =
      rstep cls lv (st.runs, st.curStart, st.curLevel) s.start := by
  unfold exStep rstep
  simp only []
  generalize exChar pl st.stack st.oi st.oe st.vi (cls.getD s.start ON) = r at hlv ⊢
  rw [hlv]
  have hk : keptAt cls s.start = !(cls.getD s.start ON).removedByX9 := rfl
  rw [hk]
  generalize (cls.getD s.start ON).removedByX9 = b
  by_cases h0 : s.start = 0
  · simp [h0]
  · have h0' : (s.start == 0) = false := by simpa using h0
    simp only [h0', h0, if_false]
    cases b <;> by_cases e : r.level = st.curLevel <;> simp [e]


/-- the state of the fold after `i` characters, in closed form -/
structure FInv (pl : Nat) (cls : List BidiClass) (i : Nat) (st : ExState) : Prop where
  mach : (st.stack, st.oi, st.oe, st.vi) = mach pl cls i
  levels : st.levels = (List.range i).map (lvAt pl cls)
  pcs : st.pcs = (List.range i).map (pcAt pl cls)
  err : st.err = none
  rs : (st.runs, st.curStart, st.curLevel) = (List.range i).foldl (rstep cls (lvAt pl cls)) ([], 0, 0)

theorem FInv_step {pl : Nat} (hpl : pl ≤ 1) {cls : List BidiClass} {i : Nat} {st : ExState}
    (h : FInv pl cls i st) (hi : i < cls.length) (s : Seg) (hs : s.start = i) (hl : s.len = 1) :
    FInv pl cls (i + 1) (exStep pl cls st s) := by
  have hm := h.mach
  have e1 : st.stack = (mach pl cls i).1 := congrArg (·.1) hm
  have e2 : st.oi = (mach pl cls i).2.1 := congrArg (·.2.1) hm
  have e3 : st.oe = (mach pl cls i).2.2.1 := congrArg (·.2.2.1) hm
  have e4 : st.vi = (mach pl cls i).2.2.2 := congrArg (·.2.2.2) hm
  have hr : exChar pl st.stack st.oi st.oe st.vi (cls.getD s.start ON) = outAt pl cls i := by
    rw [e1, e2, e3, e4, hs]; rfl
  refine ⟨?_, ?_, ?_, ?_, ?_⟩
  · rw [exStep_stack, exStep_oi, exStep_oe, exStep_vi, hr, mach_succ pl cls i hi]
  · rw [exStep_levels, hr, hl, h.levels, List.range_succ, List.map_append]; rfl
  · rw [exStep_pcs, hr, hl, h.pcs, List.range_succ, List.map_append]; rfl
  · have := (C11_inv_step (mach_inv pl hpl cls i) (cls.getD i ON)).2.1
    rw [exStep_err, hr, h.err, hs, if_pos hi]
    exact this
  · rw [exStep_rs pl cls (lvAt pl cls) st s (by rw [hr, hs]; rfl), h.rs, hs, List.range_succ,
      List.foldl_append]
    rfl

theorem FInv_fold {pl : Nat} (hpl : pl ≤ 1) (cls : List BidiClass) :
    ∀ (segs : List Seg) (p e : Nat) (st : ExState), SegsFrom p segs e → (∀ s ∈ segs, s.len = 1) →
      e ≤ cls.length → FInv pl cls p st → FInv pl cls e (segs.foldl (exStep pl cls) st)
  | [], p, e, st, h, _, _, hf => by simp only [SegsFrom] at h; subst h; exact hf
  | s :: segs, p, e, st, h, hu, he, hf => by
    simp only [SegsFrom] at h
    have h1 : s.len = 1 := hu s (by simp)
    have hb := (segsFrom_bounds segs _ e h.2.2).1
    rw [h1] at h hb
    exact FInv_fold hpl cls segs (p + 1) e _ h.2.2 (fun x hx => hu x (by simp [hx])) he
      (FInv_step hpl hf (by omega) s h.1 h1)


theorem isRemoved_eq (c : BidiClass) : Spec.isRemoved c = c.removedByX9 := by cases c <;> rfl

/-- the Spec's level and type at a kept position are the Model's -/
theorem explicit_at (pl : Nat) (hpl : pl ≤ 1) (cls : List BidiClass) (i : Nat) (hi : i < cls.length)
    (hk : keptAt cls i = true) : (Spec.explicit pl cls)[i]? = some (lvAt pl cls i, pcAt pl cls i) := by
  have hg : cls.getD i ON = cls[i] := by simp [List.getD, hi]
  have hrem : Spec.isRemoved cls[i] = false := by
    rw [isRemoved_eq, ← hg]
    simpa [keptAt, notRemoved] using hk
  have := C11_sim_run cls (C11_inv_init pl hpl) i hi hrem
  simp only [← hg] at this
  exact this

end Runs
open Runs UBidi.Props.C11

/-- the explicit stage on a single-unit text: one level per character, the Spec's level and type at
    every position X9 keeps, and the level runs: they tile `[0, n)`, each starts at 0 or at a kept
    position, and restricted to kept positions (`tau`, dropping runs without kept position) they are the
    Spec's level runs of the kept levels -/
theorem explicit_unit (t : Text) (n : Nat) (hu : UnitText t n) (pl : Nat) (hpl : pl ≤ 1)
    (cls : List BidiClass) (hlen : cls.length = n) :
    let e := explicitCompute t pl cls
    e.levels.length = n ∧ e.err = none ∧
    (∀ i, i < n → keptAt cls i = true →
      (Spec.explicit pl cls)[i]? = some (e.levels.getD i 0, e.pcs.getD i ON)) ∧
    Contig 0 e.runs n ∧
    (∀ r ∈ e.runs, r.1 = 0 ∨ keptAt cls r.1 = true) ∧
    (e.runs.map (tau cls)).filter (fun r => decide (r.1 < r.2)) =
      Spec.levelRuns ((keptIdx cls).map (fun i => e.levels.getD i 0)) 0 := by
  have h0 : FInv pl cls 0
      { stack := [{ level := pl, status := .neutral }],
        err := if t.len = cls.length then none else some .explicitLenMismatch } :=
    ⟨rfl, rfl, rfl, by simp [hu.len, hlen], rfl⟩
  have hf := FInv_fold hpl cls t.segs 0 n _ (hu.len ▸ hu.wf.tiles) hu.unit (by omega) h0
  have hR := RInv_fold cls (lvAt pl cls) n (by omega)
  rw [← hf.rs] at hR
  generalize hst : List.foldl (exStep pl cls) _ t.segs = st at hf hR
  intro e
  have elev : e.levels = (List.range n).map (lvAt pl cls) := by rw [← hf.levels, ← hst]; rfl
  have epcs : e.pcs = (List.range n).map (pcAt pl cls) := by rw [← hf.pcs, ← hst]; rfl
  have eerr : e.err = none := by rw [← hf.err, ← hst]; rfl
  have hlen' : st.levels.length = n := by rw [hf.levels]; simp
  have erun : e.runs = if n > st.curStart then st.runs ++ [(st.curStart, n)] else st.runs := by
    rw [← hlen', ← hst]; rfl
  have hlv : ∀ i, i < n → e.levels.getD i 0 = lvAt pl cls i := by
    intro i hi; rw [elev]; simp [List.getD, hi]
  have hpc : ∀ i, i < n → e.pcs.getD i ON = pcAt pl cls i := by
    intro i hi; rw [epcs]; simp [List.getD, hi]
  have hkl : (keptIdx cls).map (fun i => e.levels.getD i 0) = kl cls (lvAt pl cls) n := by
    unfold keptIdx kl
    rw [hlen]
    apply List.map_congr_left
    intro i hi
    exact hlv i (by simpa using (List.mem_filter.1 hi).1)
  refine ⟨by rw [elev]; simp, eerr, ?_, ?_⟩
  · intro i hi hk
    rw [hlv i hi, hpc i hi]
    exact explicit_at pl hpl cls i (by omega) hk
  · -- the runs
    rw [hkl, erun]
    by_cases hn : n = 0
    · subst hn
      have hno := hR.none (kl_zero _ _)
      simp only at hno
      rw [if_neg (by omega), hno.1]
      exact ⟨rfl, by simp, rfl⟩
    · have hlt := hR.lt hn
      simp only at hlt
      rw [if_pos hlt]
      refine ⟨?_, ?_, hR.runs⟩
      · rw [UBidi.Props.C13.contig_append]
        exact ⟨_, hR.contig, rfl, hlt, rfl⟩
      · intro r hr
        rcases List.mem_append.1 hr with hr | hr
        · exact hR.starts r hr
        · simp only [List.mem_singleton] at hr; subst hr; exact hR.start


theorem segsFrom_range' (p k : Nat) :
    SegsFrom p ((List.range' p k).map (fun i => (⟨i, 0, 1⟩ : Seg))) (p + k) := by
  induction k generalizing p with
  | zero => simp [SegsFrom]
  | succ k ih =>
    simp only [List.range'_succ, List.map_cons, SegsFrom, true_and]
    refine ⟨by omega, ?_⟩
    have := ih (p + 1)
    rwa [show p + 1 + k = p + (k + 1) by omega] at this

/-- the canonical single-unit text is one -/
theorem unitText_unit (n : Nat) : UnitText (unitText n) n where
  wf := ⟨by simpa [unitText, List.range_eq_range'] using segsFrom_range' 0 n,
         by intro s hs; simp only [unitText, List.mem_map] at hs; obtain ⟨i, _, rfl⟩ := hs; rfl⟩
  len := rfl
  unit := by intro s hs; simp only [unitText, List.mem_map] at hs; obtain ⟨i, _, rfl⟩ := hs; rfl

/-- non-vacuity: the hypotheses of `explicit_unit` hold for a 5-character text with an embedding, an
    isolate and a BN (and, test by evaluation, its runs are not trivial) -/
example : UnitText (unitText 5) 5 ∧ (1 : Nat) ≤ 1 ∧ [L, RLE, LRI, BN, PDI].length = 5 ∧
    (explicitCompute (unitText 5) 1 [L, RLE, LRI, BN, PDI]).runs = [(0, 2), (2, 5)] :=
  ⟨unitText_unit 5, by decide, rfl, by decide⟩

end UBidi.Lemmas.C01Seq
