/-
  C01 / StageSeq — the X9-removed characters: the Model's stack algorithm on the runs of the
  paragraph (removed characters included) is, through `tau`, the stack algorithm on the runs of
  the surviving characters.  A run without surviving character can only be the first run; it
  yields one sequence by itself.
-/
import UBidi.Lemmas.C01SeqDefs
import UBidi.Lemmas.C01SeqStack
namespace UBidi.Lemmas.C01Seq
open UBidi UBidi.BidiClass
open UBidi.Props.C13 (Contig contig_bounds)

/-! ### counting kept positions -/

theorem tk_le_length (cls : List BidiClass) (a : Nat) : toKs cls a ≤ (cls.filter notRemoved).length := by
  unfold toKs
  have h : cls.filter notRemoved = (cls.take a).filter notRemoved ++ (cls.drop a).filter notRemoved := by
    rw [← List.filter_append, List.take_append_drop]
  rw [h]; simp

theorem tk_split (cls : List BidiClass) (a b : Nat) (hab : a ≤ b) :
    toKs cls b = toKs cls a + ((slice cls a b).filter notRemoved).length := by
  unfold toKs slice
  have : cls.take b = cls.take a ++ (cls.drop a).take (b - a) := by
    have := List.take_add (l := cls) (i := a) (j := b - a)
    rwa [Nat.add_sub_cancel' hab] at this
  rw [this, List.filter_append, List.length_append]

theorem tk_mono (cls : List BidiClass) (a b : Nat) (hab : a ≤ b) : toKs cls a ≤ toKs cls b := by
  rw [tk_split cls a b hab]; omega

/-- the kept characters of a slice are a slice of the kept characters -/
theorem tk_slice (cls : List BidiClass) (a b : Nat) (hab : a ≤ b) :
    (slice cls a b).filter notRemoved = slice (cls.filter notRemoved) (toKs cls a) (toKs cls b) := by
  have h1 : cls.filter notRemoved = (cls.take a).filter notRemoved ++ (cls.drop a).filter notRemoved := by
    rw [← List.filter_append, List.take_append_drop]
  have h2 : cls.drop a = slice cls a b ++ cls.drop b := by
    unfold slice
    have := (List.take_append_drop (b - a) (cls.drop a)).symm
    rwa [List.drop_drop, Nat.add_sub_cancel' hab] at this
  have h3 : (cls.filter notRemoved).drop (toKs cls a) = (cls.drop a).filter notRemoved := by
    rw [h1]; unfold toKs; exact List.drop_left
  have hlen := tk_split cls a b hab
  conv => rhs; unfold slice
  rw [h3, h2, List.filter_append]
  have : toKs cls b - toKs cls a = ((slice cls a b).filter notRemoved).length := by omega
  rw [this, List.take_left]

theorem slice_one (cls : List BidiClass) (a : Nat) (ha : a < cls.length) :
    slice cls a (a + 1) = [cls.getD a ON] := by
  unfold slice
  rw [Nat.add_sub_cancel_left, List.drop_eq_getElem_cons ha, List.take_succ_cons, List.take_zero,
    List.getD_eq_getElem?_getD, List.getElem?_eq_getElem ha]
  rfl

theorem tk_succ_kept (cls : List BidiClass) (a : Nat) (ha : a < cls.length) (hk : keptAt cls a = true) :
    toKs cls (a + 1) = toKs cls a + 1 := by
  rw [tk_split cls a (a + 1) (by omega), slice_one cls a ha]
  unfold keptAt at hk
  simp only [List.filter_cons, hk, if_true, List.filter_nil, List.length_singleton]

theorem tk_lt_of_kept (cls : List BidiClass) (a b : Nat) (ha : a < cls.length) (hk : keptAt cls a = true)
    (hab : a < b) : toKs cls a < toKs cls b := by
  have := tk_mono cls (a + 1) b (by omega)
  rw [tk_succ_kept cls a ha hk] at this
  omega

/-- the class at a kept position, seen in the list of kept classes -/
theorem tk_getD (cls : List BidiClass) (a : Nat) (ha : a < cls.length) (hk : keptAt cls a = true) :
    (cls.filter notRemoved).getD (toKs cls a) ON = cls.getD a ON := by
  have h := tk_slice cls a (a + 1) (by omega)
  rw [slice_one cls a ha, tk_succ_kept cls a ha hk] at h
  unfold keptAt at hk
  simp only [List.filter_cons, hk, if_true, List.filter_nil] at h
  unfold slice at h
  rw [Nat.add_sub_cancel_left] at h
  have : ((cls.filter notRemoved).drop (toKs cls a)).take 1 = [cls.getD a ON] := h.symm
  have h0 : (((cls.filter notRemoved).drop (toKs cls a)).take 1)[0]? = some (cls.getD a ON) := by
    rw [this]; rfl
  rw [List.getElem?_take_of_lt (by omega), List.getElem?_drop] at h0
  rw [List.getD_eq_getElem?_getD, show toKs cls a = toKs cls a + 0 from rfl, h0]
  rfl

theorem reverse_find?_eq (p : BidiClass → Bool) (xs : List BidiClass) :
    xs.reverse.find? p = (xs.filter p).getLast? := by
  rw [← List.head?_filter, List.filter_reverse, List.head?_reverse]

/-- the class `prepStep` takes for the end of a run with a kept character: its last kept class -/
theorem tk_endClass (cls : List BidiClass) (r : Nat × Nat) (hab : r.1 ≤ r.2)
    (hk : toKs cls r.1 < toKs cls r.2) :
    endClassOf cls r = (cls.filter notRemoved).getD (toKs cls r.2 - 1) ON := by
  unfold endClassOf
  rw [reverse_find?_eq, tk_slice cls r.1 r.2 hab]
  have hle := tk_le_length cls r.2
  unfold slice
  rw [List.getLast?_eq_getElem?]
  have hlen : (List.take (toKs cls r.2 - toKs cls r.1) (List.drop (toKs cls r.1) (cls.filter notRemoved))).length =
      toKs cls r.2 - toKs cls r.1 := by
    rw [List.length_take, List.length_drop]; omega
  rw [hlen, List.getElem?_take_of_lt (by omega), List.getElem?_drop]
  have : toKs cls r.1 + (toKs cls r.2 - toKs cls r.1 - 1) = toKs cls r.2 - 1 := by omega
  have hlt : toKs cls r.2 - 1 < (cls.filter notRemoved).length := by omega
  rw [this, List.getElem?_eq_getElem hlt, Option.getD_some,
    List.getD_eq_getElem?_getD (l := cls.filter notRemoved), List.getElem?_eq_getElem hlt,
    Option.getD_some]

/-! ### the Model's step on `KState`, and its image under `tau` -/

/-- `prepStep` on `KState` -/
def mStep (cls : List BidiClass) (st : KState) (r : Nat × Nat) : KState :=
  gStep (cls.getD r.1 ON == PDI) (endClassOf cls r).isIsolateInitiator st r

theorem fold_prep (cls : List BidiClass) : ∀ (runs : List (Nat × Nat)) (st : KState),
    (∀ r ∈ runs, r.1 < r.2) →
    runs.foldl (prepStep cls) (toPrep st) = toPrep (runs.foldl (mStep cls) st)
  | [], _, _ => rfl
  | r :: runs, st, h => by
    simp only [List.foldl_cons]
    rw [prepStep_gStep cls st r (h r (by simp))]
    exact fold_prep cls runs _ (fun r' hr' => h r' (by simp [hr']))

def mapK (f : Nat × Nat → Nat × Nat) (st : KState) : KState :=
  ⟨st.entries.map (List.map f), st.done.map (List.map f)⟩

theorem gStep_map (f : Nat × Nat → Nat × Nat) (b1 b2 : Bool) (st : KState) (r : Nat × Nat) :
    mapK f (gStep b1 b2 st r) = gStep b1 b2 (mapK f st) (f r) := by
  obtain ⟨entries, done⟩ := st
  cases entries <;> cases b1 <;> cases b2 <;> simp [gStep, mapK]

theorem gStep_nil_pdi (b1 b2 : Bool) (done : List Seq) (r : Nat × Nat) :
    gStep b1 b2 ⟨[], done⟩ r = gStep false b2 ⟨[], done⟩ r := by
  cases b1 <;> simp [gStep]

/-- the finished sequences are only ever appended to -/
theorem gStep_done_prefix (b1 b2 : Bool) (X : List Seq) (st : KState) (r : Nat × Nat) :
    gStep b1 b2 ⟨st.entries, X ++ st.done⟩ r =
      ⟨(gStep b1 b2 st r).entries, X ++ (gStep b1 b2 st r).done⟩ := by
  unfold gStep
  simp only []
  split <;> simp

theorem mfold_done_prefix (cls : List BidiClass) (X : List Seq) : ∀ (runs : List (Nat × Nat)) (st : KState),
    runs.foldl (mStep cls) ⟨st.entries, X ++ st.done⟩ =
      ⟨(runs.foldl (mStep cls) st).entries, X ++ (runs.foldl (mStep cls) st).done⟩
  | [], _ => rfl
  | r :: runs, st => by
    simp only [List.foldl_cons]
    unfold mStep
    rw [gStep_done_prefix]
    exact mfold_done_prefix cls X runs _

theorem step_tau (cls : List BidiClass) (st : KState) (r : Nat × Nat) (h1 : r.1 < r.2)
    (h2 : r.1 < cls.length) (hk : keptAt cls r.1 = true) :
    mapK (tau cls) (mStep cls st r) = kStep (cls.filter notRemoved) (mapK (tau cls) st) (tau cls r) := by
  unfold mStep kStep
  rw [gStep_map]
  have hlt := tk_lt_of_kept cls r.1 r.2 h2 hk h1
  simp only [tau]
  rw [tk_getD cls r.1 h2 hk, tk_endClass cls r (by omega) hlt]

theorem step_tau_first (cls : List BidiClass) (done : List Seq) (r : Nat × Nat) (h1 : r.1 ≤ r.2)
    (hk : toKs cls r.1 < toKs cls r.2) :
    mapK (tau cls) (mStep cls ⟨[], done⟩ r) =
      kStep (cls.filter notRemoved) (mapK (tau cls) ⟨[], done⟩) (tau cls r) := by
  unfold mStep kStep
  rw [gStep_map]
  simp only [tau, mapK, List.map_nil]
  rw [gStep_nil_pdi, gStep_nil_pdi (b1 := ((cls.filter notRemoved).getD (toKs cls r.1) ON == PDI)),
    tk_endClass cls r h1 hk]

theorem fold_tau (cls : List BidiClass) : ∀ (runs : List (Nat × Nat)) (st : KState),
    (∀ r ∈ runs, r.1 < r.2 ∧ r.1 < cls.length ∧ keptAt cls r.1 = true) →
    mapK (tau cls) (runs.foldl (mStep cls) st) =
      (runs.map (tau cls)).foldl (kStep (cls.filter notRemoved)) (mapK (tau cls) st)
  | [], _, _ => rfl
  | r :: runs, st, h => by
    simp only [List.foldl_cons, List.map_cons]
    obtain ⟨a1, a2, a3⟩ := h r (by simp)
    rw [← step_tau cls st r a1 a2 a3]
    exact fold_tau cls runs _ (fun r' hr' => h r' (by simp [hr']))

/-- all sequences of a `gStep` fold are non-empty and made of the runs fed to it -/
theorem mfold_mem (cls : List BidiClass) (P : Nat × Nat → Prop) : ∀ (runs : List (Nat × Nat)) (st : KState),
    (∀ s ∈ st.entries ++ st.done, s ≠ [] ∧ ∀ r ∈ s, P r) → (∀ r ∈ runs, P r) →
    ∀ s ∈ (runs.foldl (mStep cls) st).entries ++ (runs.foldl (mStep cls) st).done, s ≠ [] ∧ ∀ r ∈ s, P r
  | [], _, h, _ => h
  | r :: runs, st, h, hr => by
    simp only [List.foldl_cons]
    apply mfold_mem cls P runs _ _ (fun r' hr' => hr r' (by simp [hr']))
    obtain ⟨entries, done⟩ := st
    have hP := hr r (by simp)
    intro s hs
    unfold mStep gStep at hs
    simp only [] at hs
    have key : ∀ (s0 : Seq), (s0 = [] ∨ s0 ∈ entries) → (s0 ++ [r]) ≠ [] ∧ ∀ r' ∈ s0 ++ [r], P r' := by
      intro s0 hs0
      refine ⟨by simp, ?_⟩
      intro r' hr'
      rcases List.mem_append.1 hr' with h' | h'
      · rcases hs0 with rfl | hs0
        · simp at h'
        · exact (h s0 (by simp [hs0])).2 r' h'
      · simp at h'; subst h'; exact hP
    have hsel : ∀ (c : Bool), (if c = true then entries.headD [] else []) = [] ∨
        (if c = true then entries.headD [] else []) ∈ entries := by
      intro c
      cases c
      · left; rfl
      · cases entries with
        | nil => left; rfl
        | cons a t => right; simp
    have htail : ∀ (c : Bool) s', s' ∈ (if c = true then entries.tail else entries) → s' ∈ entries := by
      intro c s' hs'
      cases c
      · exact hs'
      · exact List.mem_of_mem_tail hs'
    split at hs
    · simp only [List.mem_append, List.mem_cons] at hs
      rcases hs with (rfl | hs) | hs
      · exact key _ (hsel _)
      · exact h s (by simp [htail _ s hs])
      · exact h s (by simp [hs])
    · simp only [List.mem_append, List.mem_singleton] at hs
      rcases hs with hs | (hs | rfl)
      · exact h s (by simp [htail _ s hs])
      · exact h s (by simp [hs])
      · exact key _ (hsel _)

/-- Layer 4.  The runs `runsM` tile `[0, n)` and every run but the first starts at a kept position.
    The Model's fold over `runsM` is, after `tau`, the fold over the non-empty images of the runs;
    a first run without kept position only contributes the finished sequence `[r0]`. -/
theorem fold_runs_tau (cls : List BidiClass) (runsM : List (Nat × Nat))
    (hc : Contig 0 runsM cls.length)
    (hstart : ∀ r ∈ runsM, r.1 = 0 ∨ keptAt cls r.1 = true) :
    ∃ (garbage D : List Seq),
      (runsM.foldl (mStep cls) ⟨[], []⟩).done = garbage ++ D ∧
      (∀ s ∈ garbage, s ≠ [] ∧ ∀ r ∈ s, toKs cls r.1 = toKs cls r.2 ∧ r.1 ≤ r.2 ∧ r.2 ≤ cls.length) ∧
      (∀ s ∈ (runsM.foldl (mStep cls) ⟨[], []⟩).entries ++ D, s ≠ [] ∧
        ∀ r ∈ s, r.1 < r.2 ∧ r.2 ≤ cls.length ∧ toKs cls r.1 < toKs cls r.2) ∧
      mapK (tau cls) ⟨(runsM.foldl (mStep cls) ⟨[], []⟩).entries, D⟩ =
        ((runsM.map (tau cls)).filter (fun r => decide (r.1 < r.2))).foldl
          (kStep (cls.filter notRemoved)) ⟨[], []⟩ := by
  cases runsM with
  | nil => exact ⟨[], [], rfl, by simp, by simp, rfl⟩
  | cons r0 rest =>
    obtain ⟨h0, h0lt, hcr⟩ := hc
    have hrest : ∀ r ∈ rest, r.1 < r.2 ∧ r.1 < cls.length ∧ keptAt cls r.1 = true := by
      intro r hr
      have hb := (contig_bounds hcr).2 r hr
      refine ⟨hb.2.1, by omega, ?_⟩
      rcases hstart r (by simp [hr]) with h | h
      · omega
      · exact h
    have hrestP : ∀ r ∈ rest, r.1 < r.2 ∧ r.2 ≤ cls.length ∧ toKs cls r.1 < toKs cls r.2 := by
      intro r hr
      obtain ⟨a1, a2, a3⟩ := hrest r hr
      exact ⟨a1, ((contig_bounds hcr).2 r hr).2.2, tk_lt_of_kept cls r.1 r.2 a2 a3 a1⟩
    have hr0le : r0.2 ≤ cls.length := (contig_bounds hcr).1
    have hfilter : (rest.map (tau cls)).filter (fun r => decide (r.1 < r.2)) = rest.map (tau cls) := by
      rw [List.filter_eq_self]
      intro r hr
      obtain ⟨r', hr', rfl⟩ := List.mem_map.1 hr
      exact decide_eq_true (hrestP r' hr').2.2
    have htk0 : toKs cls r0.1 = 0 := by rw [h0]; simp [toKs]
    simp only [List.foldl_cons, List.map_cons, List.filter_cons]
    by_cases hk : toKs cls r0.1 < toKs cls r0.2
    · -- the first run has a kept character
      have e1 : decide ((tau cls r0).1 < (tau cls r0).2) = true := decide_eq_true hk
      simp only [e1, if_true, List.foldl_cons, hfilter]
      refine ⟨[], (rest.foldl (mStep cls) (mStep cls ⟨[], []⟩ r0)).done, rfl, by simp, ?_, ?_⟩
      · exact mfold_mem cls (fun r => r.1 < r.2 ∧ r.2 ≤ cls.length ∧ toKs cls r.1 < toKs cls r.2) rest _
          (mfold_mem cls _ [r0] ⟨[], []⟩ (by simp) (by simp; exact ⟨h0lt, hr0le, hk⟩)) hrestP
      · have := fold_tau cls rest (mStep cls ⟨[], []⟩ r0) hrest
        rw [step_tau_first cls [] r0 (by omega) hk] at this
        exact this
    · -- the first run has no kept character
      have e1 : decide ((tau cls r0).1 < (tau cls r0).2) = false := decide_eq_false hk
      simp only [e1, Bool.false_eq_true, if_false, hfilter]
      have hend : (endClassOf cls r0).isIsolateInitiator = false := by
        unfold endClassOf
        have hnone : (slice cls r0.1 r0.2).filter notRemoved = [] := by
          have := tk_split cls r0.1 r0.2 (by omega)
          have hm := tk_mono cls r0.1 r0.2 (by omega)
          apply List.eq_nil_of_length_eq_zero; omega
        rw [reverse_find?_eq, hnone]
        simp only [List.getLast?_nil, Option.getD_none]
        -- character 0 is removed
        have h1 : toKs cls 1 = 0 := by
          have := tk_mono cls 1 r0.2 (by omega); omega
        rw [h0]
        have hlen : 0 < cls.length := by omega
        have hrm : notRemoved (cls.getD 0 ON) = false := by
          cases hh : notRemoved (cls.getD 0 ON) with
          | false => rfl
          | true =>
            have h2 : toKs cls 1 = toKs cls 0 + 1 := tk_succ_kept cls 0 hlen (by unfold keptAt; exact hh)
            have h3 : toKs cls 0 = 0 := by simp [toKs]
            omega
        revert hrm
        cases cls.getD 0 ON <;> simp [notRemoved, removedByX9, isIsolateInitiator]
      have hstep : mStep cls ⟨[], []⟩ r0 = ⟨[], [[r0]] ++ []⟩ := by
        simp [mStep, gStep, hend]
      rw [hstep]
      have hpre := mfold_done_prefix cls [[r0]] rest ⟨[], []⟩
      simp only [] at hpre
      rw [hpre]
      refine ⟨[[r0]], (rest.foldl (mStep cls) ⟨[], []⟩).done, rfl, ?_, ?_, ?_⟩
      · intro s hs
        simp only [List.mem_singleton] at hs; subst hs
        refine ⟨by simp, ?_⟩
        intro r hr
        simp only [List.mem_singleton] at hr; subst hr
        have := tk_mono cls r.1 r.2 (by omega)
        exact ⟨by omega, by omega, hr0le⟩
      · exact mfold_mem cls (fun r => r.1 < r.2 ∧ r.2 ≤ cls.length ∧ toKs cls r.1 < toKs cls r.2) rest _
          (by simp) hrestP
      · exact fold_tau cls rest ⟨[], []⟩ hrest

end UBidi.Lemmas.C01Seq
