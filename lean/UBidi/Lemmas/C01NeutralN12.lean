/-
  C01 stage lemma StageN, part 1: rules N1/N2.

  The crate's N1/N2 loop (`Model.n12`, a left fold over the code-unit indices of an
  isolating run sequence that collects NI/BN units in `pending`) equals UAX #9's
  N1/N2 (`Spec.n12`, per position with look-ahead) on the list of types read at the
  sequence's indices, with every BN read as a neutral (ON).

  * `stageN12_seq` — any sequence (several runs), per unit, BN read as ON;
  * `stageN12_BN`, `stageN12_BN_filter`, `spec_go_filterBN` — Layer 2 (BN units);
  * `stageN12_noBN`, `stageN12_simple` — Layer 1;
  * `stageN12_chars`, `spec_go_expand` — multi-unit characters.

  No hypothesis on the types is needed: `n12Class` and the Spec's rule agree on all
  23 × 23 × 23 class triples (`n12Class_eq`, checked by `cases`).
-/
import UBidi.Model.Implicit
import UBidi.Spec.UAX9
namespace UBidi.Lemmas.C01Neutral
open UBidi UBidi.BidiClass

/-! ### small facts -/

/-- a BN unit is read as a neutral by the crate's N1/N2 loop -/
def bnToON (c : BidiClass) : BidiClass := if c = BN then ON else c

theorem isNIorBN_eq (c : BidiClass) : isNIorBN c = Spec.isNI (bnToON c) := by
  cases c <;> rfl

theorem bnToON_of_ne {c : BidiClass} (h : c ≠ BN) : bnToON c = c := by
  simp [bnToON, h]

theorem bnToON_notNI {c : BidiClass} (h : isNIorBN c = false) : bnToON c = c := by
  cases c <;> first | rfl | (exact absurd h (by decide))

/-- the value the Spec gives an NI between `prev` and `after` -/
def specV (prev after e : BidiClass) : BidiClass :=
  match Spec.n1Dir prev, Spec.n1Dir after with
  | some a, some b => if a == b then a else e
  | _, _ => e

/-- the crate's match and the Spec's rule agree for every triple of classes -/
theorem n12Class_eq (p q e : BidiClass) : n12Class p q e = specV p q e := by
  cases p <;> cases q <;> rfl

/-! ### `setAll` -/

theorem length_setAll (pcs : Classes) (idxs : List Nat) (v : BidiClass) :
    (setAll pcs idxs v).length = pcs.length := by
  unfold setAll
  induction idxs generalizing pcs with
  | nil => rfl
  | cons i is ih => simp only [List.foldl_cons]; rw [ih]; simp

theorem cget_set (pcs : Classes) (i j : Nat) (v : BidiClass) :
    cget (pcs.set i v) j = if i = j ∧ j < pcs.length then v else cget pcs j := by
  unfold cget
  simp only [List.getD_eq_getElem?_getD, List.getElem?_set]
  by_cases h : i = j
  · subst h
    by_cases h2 : i < pcs.length
    · simp [h2]
    · simp [h2]
  · simp [h]

theorem cget_setAll (pcs : Classes) (idxs : List Nat) (v : BidiClass) (j : Nat) :
    cget (setAll pcs idxs v) j = if j ∈ idxs ∧ j < pcs.length then v else cget pcs j := by
  unfold setAll
  induction idxs generalizing pcs with
  | nil => simp
  | cons i is ih =>
    simp only [List.foldl_cons]
    rw [ih, cget_set, List.length_set]
    by_cases h1 : j ∈ is
    · by_cases h2 : j < pcs.length <;> simp [h1, h2]
    · by_cases h2 : i = j
      · subst h2; simp [h1]
      · have : ¬ j = i := fun h => h2 h.symm
        simp [h1, h2, this]

/-! ### the Spec on a run of NIs -/

theorem spec_go_NIs (eos e prev : BidiClass) (xs ys : List BidiClass)
    (hxs : ∀ c ∈ xs, Spec.isNI c = true) :
    Spec.n12.go eos e prev (xs ++ ys) =
      List.replicate xs.length (specV prev ((ys.find? (fun x => !Spec.isNI x)).getD eos) e)
        ++ Spec.n12.go eos e prev ys := by
  induction xs with
  | nil => simp
  | cons x xs ih =>
    have hx : Spec.isNI x = true := hxs x (by simp)
    have hxs' : ∀ c ∈ xs, Spec.isNI c = true := fun c hc => hxs c (by simp [hc])
    have hfind : ((xs ++ ys).find? (fun x => !Spec.isNI x)) = ys.find? (fun x => !Spec.isNI x) := by
      rw [List.find?_append]
      have : xs.find? (fun x => !Spec.isNI x) = none := by
        rw [List.find?_eq_none]; intro c hc; simp [hxs' c hc]
      rw [this]; rfl
    simp only [List.cons_append, Spec.n12.go, hx, if_true, hfind, ih hxs',
      List.length_cons, List.replicate_succ]
    rfl

/-! ### the fold -/

/-- the end of `Model.n12`: the pending units are resolved against `eos` -/
def n12Finish (eos e : BidiClass) (st : N12State) : Classes :=
  match st.pending with
  | [] => st.pcs
  | _ => setAll st.pcs st.pending (n12Class st.prev eos e)

theorem n12Finish_eq (eos e : BidiClass) (st : N12State) :
    n12Finish eos e st = setAll st.pcs st.pending (n12Class st.prev eos e) := by
  unfold n12Finish
  split
  · next h => rw [h]; rfl
  · rfl

theorem n12_eq_finish (seq : IRSeq) (e : BidiClass) (pcs : Classes) :
    n12 seq e pcs = n12Finish seq.eos e (seq.indices.foldl (n12Step e) { pcs := pcs, prev := seq.sos }) := rfl


theorem n12_fold (eos e : BidiClass) : ∀ (rest : List Nat) (st : N12State),
    (st.pending ++ rest).Nodup → (∀ i ∈ st.pending ++ rest, i < st.pcs.length) →
    (∀ i ∈ st.pending, isNIorBN (cget st.pcs i) = true) →
    (n12Finish eos e (rest.foldl (n12Step e) st)).length = st.pcs.length ∧
    (∀ j, j ∉ st.pending ++ rest → cget (n12Finish eos e (rest.foldl (n12Step e) st)) j = cget st.pcs j) ∧
    (st.pending ++ rest).map (cget (n12Finish eos e (rest.foldl (n12Step e) st))) =
      Spec.n12.go eos e st.prev ((st.pending ++ rest).map (fun i => bnToON (cget st.pcs i))) := by
  intro rest
  induction rest with
  | nil =>
    intro st hnd hlt hni
    simp only [List.foldl_nil, List.append_nil] at *
    rw [n12Finish_eq]
    refine ⟨length_setAll _ _ _, ?_, ?_⟩
    · intro j hj; rw [cget_setAll]; simp [hj]
    · have h1 : ∀ c ∈ st.pending.map (fun i => bnToON (cget st.pcs i)), Spec.isNI c = true := by
        intro c hc
        obtain ⟨i, hi, rfl⟩ := List.mem_map.1 hc
        rw [← isNIorBN_eq]; exact hni i hi
      have := spec_go_NIs eos e st.prev _ [] h1
      simp only [List.append_nil] at this
      rw [this]
      simp only [List.find?_nil, Option.getD_none, Spec.n12.go, List.append_nil, List.length_map]
      rw [← n12Class_eq]
      apply List.ext_getElem
      · simp
      · intro k hk1 hk2
        simp only [List.getElem_map, List.getElem_replicate]
        rw [cget_setAll]
        simp at hk1
        have hm : st.pending[k] ∈ st.pending := List.getElem_mem _
        simp [hm, hlt _ hm]
  | cons i rest ih =>
    intro st hnd hlt hni
    simp only [List.foldl_cons]
    by_cases hc : isNIorBN (cget st.pcs i) = true
    · have hstep : n12Step e st i = { st with pending := st.pending ++ [i] } := by
        simp [n12Step, hc]
      rw [hstep]
      have := ih { st with pending := st.pending ++ [i] } (by simpa using hnd) (by simpa using hlt)
        (by
          intro j hj
          simp only [List.mem_append, List.mem_singleton] at hj
          rcases hj with hj | rfl
          · exact hni j hj
          · exact hc)
      simpa [List.append_assoc] using this
    · have hc' : isNIorBN (cget st.pcs i) = false := by simpa using hc
      have hstep : n12Step e st i =
          { pcs := setAll st.pcs st.pending (n12Class st.prev (cget st.pcs i) e),
            prev := cget st.pcs i, pending := [] } := by
        obtain ⟨pcs, prev, pending⟩ := st
        cases pending <;> simp_all [n12Step, setAll]
      rw [hstep]
      generalize hv : n12Class st.prev (cget st.pcs i) e = v
      -- facts from Nodup
      have hnd' := List.nodup_append.1 hnd
      have hndr : (i :: rest).Nodup := hnd'.2.1
      have hir : i ∉ rest := (List.nodup_cons.1 hndr).1
      have hip : i ∉ st.pending := fun h => hnd'.2.2 i h i (by simp) rfl
      have hpr : ∀ j ∈ st.pending, j ∉ rest := fun j hj h => hnd'.2.2 j hj j (by simp [h]) rfl
      have hrp : ∀ j ∈ rest, j ∉ st.pending := fun j hj h => hpr j h hj
      obtain ⟨ih1, ih2, ih3⟩ := ih { pcs := setAll st.pcs st.pending v, prev := cget st.pcs i, pending := [] }
        (by simpa using (List.nodup_cons.1 hndr).2)
        (by intro j hj; simp only [List.nil_append] at hj; rw [length_setAll]; exact hlt j (by simp [hj]))
        (by simp)
      simp only [List.nil_append] at ih1 ih2 ih3
      generalize hout : n12Finish eos e (List.foldl (n12Step e)
        { pcs := setAll st.pcs st.pending v, prev := cget st.pcs i, pending := [] } rest) = out at ih1 ih2 ih3 ⊢
      refine ⟨by rw [ih1, length_setAll], ?_, ?_⟩
      · intro j hj
        simp only [List.mem_append, List.mem_cons, not_or] at hj
        rw [ih2 j hj.2.2, cget_setAll]; simp [hj.1]
      · have hP : st.pending.map (cget out) = List.replicate st.pending.length v := by
          apply List.ext_getElem
          · simp
          · intro k hk1 hk2
            have hk : k < st.pending.length := by simpa using hk1
            simp only [List.getElem_map, List.getElem_replicate]
            have hm : st.pending[k] ∈ st.pending := List.getElem_mem _
            have hl : st.pending[k] < st.pcs.length := hlt _ (List.mem_append_left _ hm)
            rw [ih2 _ (hpr _ hm), cget_setAll]
            simp [hm, hl]
        have hI : cget out i = cget st.pcs i := by
          rw [ih2 i hir, cget_setAll]; simp [hip]
        have hR : rest.map (fun k => bnToON (cget (setAll st.pcs st.pending v) k)) =
            rest.map (fun k => bnToON (cget st.pcs k)) := by
          apply List.map_congr_left
          intro k hk; rw [cget_setAll]; simp [hrp k hk]
        have h1 : ∀ c ∈ st.pending.map (fun i => bnToON (cget st.pcs i)), Spec.isNI c = true := by
          intro c hc
          obtain ⟨k, hk, rfl⟩ := List.mem_map.1 hc
          rw [← isNIorBN_eq]; exact hni k hk
        have hb : bnToON (cget st.pcs i) = cget st.pcs i := bnToON_notNI hc'
        have hnni : Spec.isNI (cget st.pcs i) = false := by rw [← hb, ← isNIorBN_eq]; exact hc'
        rw [List.map_append, List.map_append, spec_go_NIs _ _ _ _ _ h1, hP, List.map_cons, List.map_cons,
          hI, ih3, hR, hb]
        simp only [List.find?_cons, hnni, Bool.not_false, Option.getD_some, Spec.n12.go, List.length_map]
        rw [← n12Class_eq, hv]
        simp


theorem map_cget_range (out : Classes) : (List.range' 0 out.length).map (cget out) = out := by
  apply List.ext_getElem
  · simp
  · intro k h1 h2
    have hk : k < out.length := by simpa using h2
    simp [cget, hk]

/-- N1/N2 for an arbitrary isolating run sequence (any number of runs, BN units anywhere):
    reading the result at the sequence's indices gives the Spec's N1/N2 of the types read at
    those indices with BN taken as a neutral; nothing else is touched. -/
theorem stageN12_seq (seq : IRSeq) (e : BidiClass) (pcs : Classes)
    (hnd : seq.indices.Nodup) (hlt : ∀ i ∈ seq.indices, i < pcs.length) :
    (n12 seq e pcs).length = pcs.length ∧
    (∀ j, j ∉ seq.indices → cget (n12 seq e pcs) j = cget pcs j) ∧
    seq.indices.map (cget (n12 seq e pcs)) =
      Spec.n12 seq.sos seq.eos e (seq.indices.map (fun i => bnToON (cget pcs i))) := by
  have := n12_fold seq.eos e seq.indices { pcs := pcs, prev := seq.sos } (by simpa using hnd)
    (by simpa using hlt) (by simp)
  simpa [n12_eq_finish, Spec.n12] using this

theorem indices_single (n : Nat) (sos eos : BidiClass) :
    ({ runs := [(0, n)], sos := sos, eos := eos } : IRSeq).indices = List.range' 0 n := by
  simp [IRSeq.indices, runIndices]

/-- Layer 2 (exact form): single run, BN allowed.  The crate's N1/N2 is the Spec's N1/N2 with
    every BN read as ON; in particular every BN unit receives the value of the NI run it lies in
    (a run of BNs alone between two strong types is resolved as well). -/
theorem stageN12_BN (n : Nat) (sos eos e : BidiClass) (pcs : List BidiClass) (hn : pcs.length = n) :
    n12 { runs := [(0, n)], sos := sos, eos := eos } e pcs = Spec.n12 sos eos e (pcs.map bnToON) := by
  subst hn
  obtain ⟨h1, _, h3⟩ := stageN12_seq { runs := [(0, pcs.length)], sos := sos, eos := eos } e pcs
    (by rw [indices_single]; exact List.nodup_range')
    (by rw [indices_single]; intro i hi; simp [List.mem_range'] at hi; omega)
  rw [indices_single] at h3
  generalize n12 { runs := [(0, pcs.length)], sos := sos, eos := eos } e pcs = out at h1 h3
  have h4 := map_cget_range out
  rw [h1] at h4
  rw [← h4, h3]
  simp only
  congr 1
  apply List.ext_getElem
  · simp
  · intro k hk1 hk2
    have hk : k < pcs.length := by simpa using hk2
    simp [cget, hk]

/-- Layer 1: single run, no BN.  (The hypotheses `hs he hee hty` of the requested statement are
    not needed; `stageN12_simple` below carries them only to match the requested signature.) -/
theorem stageN12_noBN (n : Nat) (sos eos e : BidiClass) (pcs : List BidiClass) (hn : pcs.length = n)
    (hbn : ∀ c ∈ pcs, c ≠ .BN) :
    n12 { runs := [(0, n)], sos := sos, eos := eos } e pcs = Spec.n12 sos eos e pcs := by
  rw [stageN12_BN n sos eos e pcs hn]
  congr 1
  conv => rhs; rw [← List.map_id pcs]
  apply List.map_congr_left
  intro c hc; exact bnToON_of_ne (hbn c hc)

theorem stageN12_simple (n : Nat) (sos eos e : BidiClass) (_hs : sos = .L ∨ sos = .R)
    (_he : eos = .L ∨ eos = .R) (_hee : e = .L ∨ e = .R)
    (pcs : List BidiClass) (hn : pcs.length = n) (hbn : ∀ c ∈ pcs, c ≠ .BN)
    (_hty : ∀ c ∈ pcs, c = .L ∨ c = .R ∨ c = .EN ∨ c = .AN ∨ Spec.isNI c = true) :
    n12 { runs := [(0, n)], sos := sos, eos := eos } e pcs = Spec.n12 sos eos e pcs :=
  stageN12_noBN n sos eos e pcs hn hbn


theorem bne_BN_of_ne {c : BidiClass} (h : c ≠ BN) : (c != BN) = true := by
  cases c <;> first | rfl | exact absurd rfl h

theorem bne_BN_self : (BN != BN) = false := rfl
theorem isNI_ON : Spec.isNI ON = true := rfl

theorem find_notNI_filterBN (xs : List BidiClass) :
    (xs.map bnToON).find? (fun x => !Spec.isNI x) = (xs.filter (· != BN)).find? (fun x => !Spec.isNI x) := by
  induction xs with
  | nil => rfl
  | cons c cs ih =>
    by_cases hc : c = BN
    · subst hc
      have : bnToON BN = ON := rfl
      simp only [List.map_cons, List.find?_cons, List.filter_cons, this, isNI_ON, bne_BN_self, Bool.not_true]
      exact ih
    · have h1 : (c != BN) = true := bne_BN_of_ne hc
      simp only [List.map_cons, List.find?_cons, List.filter_cons, h1, if_true, bnToON_of_ne hc, ih]

/-- the Spec's N1/N2 on a list with BN read as ON, restricted to the non-BN positions, is the
    Spec's N1/N2 on the list with the BNs removed (rule X9) -/
theorem spec_go_filterBN (eos e : BidiClass) (pcs : List BidiClass) (prev : BidiClass) :
    ((pcs.zip (Spec.n12.go eos e prev (pcs.map bnToON))).filter (fun x => x.1 != BN)).map (·.2) =
      Spec.n12.go eos e prev (pcs.filter (· != BN)) := by
  induction pcs generalizing prev with
  | nil => rfl
  | cons c cs ih =>
    by_cases hc : c = BN
    · subst hc
      have : bnToON BN = ON := rfl
      simp only [List.map_cons, this, Spec.n12.go, List.filter_cons, isNI_ON, if_true, List.zip_cons_cons,
        bne_BN_self]
      exact ih prev
    · have h1 : (c != BN) = true := bne_BN_of_ne hc
      simp only [List.map_cons, bnToON_of_ne hc, List.filter_cons, h1, if_true, Spec.n12.go]
      by_cases hni : Spec.isNI c = true
      · simp only [hni, if_true, List.zip_cons_cons, List.filter_cons, h1, List.map_cons, ih prev,
          find_notNI_filterBN]
      · simp only [hni, Bool.false_eq_true, if_false, List.zip_cons_cons, List.filter_cons, h1, if_true,
          List.map_cons, ih c]

/-- Layer 2 (projection): single run with BN units.  The output has length `n`, and its
    non-BN positions (positions whose input type is not BN), read in order, are the Spec's
    N1/N2 of the input with the BNs removed. -/
theorem stageN12_BN_filter (n : Nat) (sos eos e : BidiClass) (pcs : List BidiClass) (hn : pcs.length = n) :
    (n12 { runs := [(0, n)], sos := sos, eos := eos } e pcs).length = n ∧
    ((pcs.zip (n12 { runs := [(0, n)], sos := sos, eos := eos } e pcs)).filter (fun x => x.1 != BN)).map (·.2) =
      Spec.n12 sos eos e (pcs.filter (· != BN)) := by
  rw [stageN12_BN n sos eos e pcs hn]
  refine ⟨?_, spec_go_filterBN eos e pcs sos⟩
  rw [← stageN12_BN n sos eos e pcs hn]
  have := (stageN12_seq { runs := [(0, n)], sos := sos, eos := eos } e pcs
    (by rw [indices_single]; exact List.nodup_range')
    (by rw [indices_single]; intro i hi; simp [List.mem_range'] at hi; omega)).1
  omega


/-! ### non-vacuity / tests (literal inputs; `decide` here is a test, not a proof) -/

/-- test: `R ON ( BN WS ) EN L ON` between sos = R, eos = L, e = L — both sides compute
    `R R R R R L L`, i.e. the NI/BN run between R and EN becomes R, the final ON becomes L -/
example : n12 { runs := [(0, 7)], sos := R, eos := L } L [R, ON, BN, WS, EN, L, ON]
    = [R, R, R, R, EN, L, L] := by decide
example : Spec.n12 R L L ([R, ON, BN, WS, EN, L, ON].map bnToON) = [R, R, R, R, EN, L, L] := by decide
/-- the hypotheses of `stageN12_simple` are satisfiable by a non-trivial input -/
example : ∀ c ∈ [R, ON, WS, EN, L, ON], c ≠ BN ∧
    (c = .L ∨ c = .R ∨ c = .EN ∨ c = .AN ∨ Spec.isNI c = true) := by decide
/-- a two-run sequence (units 0–1 and 4–5, the units 2–3 belong to another sequence) satisfies the
    hypotheses of `stageN12_seq` -/
example : ({ runs := [(0, 2), (4, 6)], sos := L, eos := R } : IRSeq).indices.Nodup ∧
    ∀ i ∈ ({ runs := [(0, 2), (4, 6)], sos := L, eos := R } : IRSeq).indices, i < [R, ON, L, L, WS, R].length := by
  decide
example : n12 { runs := [(0, 2), (4, 6)], sos := L, eos := R } L [R, ON, L, L, WS, R] = [R, R, L, L, R, R] := by
  decide

/-! ### multi-unit characters: N1/N2 per unit is N1/N2 per character, repeated -/

/-- repeat each type over the units of its character -/
def expand (xs : List (BidiClass × Nat)) : List BidiClass := xs.flatMap (fun x => List.replicate x.2 x.1)

theorem find_expand (p : BidiClass → Bool) : ∀ (xs : List (BidiClass × Nat)), (∀ x ∈ xs, 0 < x.2) →
    (expand xs).find? p = (xs.map (·.1)).find? p
  | [], _ => rfl
  | (c, k) :: xs, h => by
    have hk : 0 < k := h (c, k) (by simp)
    have ih := find_expand p xs (fun x hx => h x (by simp [hx]))
    obtain ⟨k', rfl⟩ : ∃ k', k = k' + 1 := ⟨k - 1, by omega⟩
    simp only [expand, List.flatMap_cons, List.map_cons, List.find?_cons, List.replicate_succ,
      List.cons_append]
    cases hp : p c
    · simp only
      rw [List.find?_append]
      have : (List.replicate k' c).find? p = none := by
        rw [List.find?_eq_none]; intro x hx; rw [List.mem_replicate] at hx; rw [hx.2, hp]; simp
      rw [this]; exact ih
    · rfl

theorem spec_go_replicate_strong (eos e : BidiClass) (c : BidiClass) (hc : Spec.isNI c = false)
    (ys : List BidiClass) : ∀ (k : Nat) (prev : BidiClass),
    Spec.n12.go eos e prev (List.replicate (k + 1) c ++ ys) =
      List.replicate (k + 1) c ++ Spec.n12.go eos e c ys
  | 0, prev => by simp [Spec.n12.go, hc]
  | k + 1, prev => by
    have ih := spec_go_replicate_strong eos e c hc ys k c
    rw [List.replicate_succ, List.cons_append]
    simp only [Spec.n12.go, hc, Bool.false_eq_true, if_false]
    rw [ih]; simp [List.replicate_succ]

theorem spec_go_expand (eos e : BidiClass) : ∀ (xs : List (BidiClass × Nat)) (prev : BidiClass),
    (∀ x ∈ xs, 0 < x.2) →
    Spec.n12.go eos e prev (expand xs) =
      expand ((Spec.n12.go eos e prev (xs.map (·.1))).zip (xs.map (·.2)))
  | [], _, _ => rfl
  | (c, k) :: xs, prev, h => by
    have hk : 0 < k := h (c, k) (by simp)
    have h' : ∀ x ∈ xs, 0 < x.2 := fun x hx => h x (by simp [hx])
    have e1 : expand ((c, k) :: xs) = List.replicate k c ++ expand xs := by simp [expand]
    rw [e1]
    by_cases hc : Spec.isNI c = true
    · rw [spec_go_NIs eos e prev (List.replicate k c) (expand xs)
        (by intro x hx; rw [List.mem_replicate] at hx; rw [hx.2]; exact hc)]
      rw [find_expand _ xs h', spec_go_expand eos e xs prev h']
      simp only [List.map_cons, Spec.n12.go, hc, if_true, List.zip_cons_cons, expand, List.flatMap_cons,
        List.length_replicate]
      rfl
    · have hc' : Spec.isNI c = false := by simpa using hc
      obtain ⟨k', rfl⟩ : ∃ k', k = k' + 1 := ⟨k - 1, by omega⟩
      rw [spec_go_replicate_strong eos e c hc' (expand xs) k' prev, spec_go_expand eos e xs c h']
      simp only [List.map_cons, Spec.n12.go, hc', Bool.false_eq_true, if_false, List.zip_cons_cons, expand,
        List.flatMap_cons]


theorem flatMap_congr' {α β} {l : List α} {f g : α → List β} (h : ∀ a ∈ l, f a = g a) :
    l.flatMap f = l.flatMap g := by
  induction l with
  | nil => rfl
  | cons a l ih =>
    simp only [List.flatMap_cons]
    rw [h a (by simp), ih (fun b hb => h b (by simp [hb]))]

/-- **N1/N2 for any sequence with multi-unit characters** (`chars` = first unit and length of
    every character of the sequence, in order; BN characters included and read as ON): the
    units of a character all receive the type the Spec's N1/N2 gives that character. -/
theorem stageN12_chars (seq : IRSeq) (e : BidiClass) (pcs : Classes) (chars : List (Nat × Nat))
    (hidx : seq.indices = chars.flatMap (fun c => List.range' c.1 c.2))
    (hnd : seq.indices.Nodup) (hlt : ∀ i ∈ seq.indices, i < pcs.length)
    (hlen : ∀ c ∈ chars, 0 < c.2)
    (hconst : ∀ c ∈ chars, ∀ u ∈ List.range' c.1 c.2, cget pcs u = cget pcs c.1) :
    seq.indices.map (cget (n12 seq e pcs)) =
      expand ((Spec.n12 seq.sos seq.eos e (chars.map (fun c => bnToON (cget pcs c.1)))).zip
        (chars.map (·.2))) := by
  rw [(stageN12_seq seq e pcs hnd hlt).2.2]
  have hexp : seq.indices.map (fun i => bnToON (cget pcs i)) =
      expand (chars.map (fun c => (bnToON (cget pcs c.1), c.2))) := by
    rw [hidx, List.map_flatMap, expand, List.flatMap_map]
    apply flatMap_congr'
    intro c hc
    apply List.ext_getElem
    · simp
    · intro k h1 h2
      simp only [List.getElem_map, List.getElem_replicate]
      rw [hconst c hc _ (List.getElem_mem _)]
  rw [hexp]
  unfold Spec.n12
  rw [spec_go_expand seq.eos e _ seq.sos (by
    intro x hx
    obtain ⟨c, hc, rfl⟩ := List.mem_map.1 hx
    exact hlen c hc)]
  simp only [List.map_map]
  rfl

/-- test / non-vacuity: "א (2 units), space, BN-typed 3-unit character, a" between sos = R and
    eos = L with e = L: the hypotheses hold, and the two sides are `R R L L L L L` -/
example : let seq : IRSeq := { runs := [(0, 7)], sos := R, eos := L }
    let pcs : Classes := [R, R, WS, BN, BN, BN, L]
    let chars : List (Nat × Nat) := [(0, 2), (2, 1), (3, 3), (6, 1)]
    seq.indices = chars.flatMap (fun c => List.range' c.1 c.2) ∧ seq.indices.Nodup ∧
    (∀ i ∈ seq.indices, i < pcs.length) ∧ (∀ c ∈ chars, 0 < c.2) ∧
    (∀ c ∈ chars, ∀ u ∈ List.range' c.1 c.2, cget pcs u = cget pcs c.1) ∧
    n12 seq L pcs = [R, R, L, L, L, L, L] := by decide


end UBidi.Lemmas.C01Neutral
