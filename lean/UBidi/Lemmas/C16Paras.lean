/-
  C16 — facts about the specification helpers: fuel of `Spec.firstStrong`, shape of
  `paragraphsOf`, and its agreement with `Spec.splitParagraphs` (rule P1).
-/
import UBidi.Lemmas.C16Scan
namespace UBidi.Props.C16
open UBidi BidiClass

/-- more fuel changes nothing -/
theorem firstStrong_fuel (f1 f2 : Nat) (cs : List BidiClass) (h1 : cs.length < f1) (h2 : cs.length < f2) :
    Spec.firstStrong f1 cs = Spec.firstStrong f2 cs := by
  induction f1 generalizing f2 cs with
  | zero => omega
  | succ f1 ih =>
    cases f2 with
    | zero => omega
    | succ f2 =>
      cases cs with
      | nil => rfl
      | cons c cs =>
        simp only [List.length_cons, Nat.add_lt_add_iff_right] at h1 h2
        simp only [Spec.firstStrong]
        split
        · rfl
        · split
          · split
            · exact ih _ _ (by simp; omega) (by simp; omega)
            · rfl
          · exact ih _ _ h1 h2

theorem paragraphsOf_flatten (cs : List BidiClass) : (paragraphsOf cs).flatten = cs := by
  induction cs with
  | nil => rfl
  | cons c cs ih =>
    by_cases hc : c = B
    · subst c; rw [paragraphsOf_cons_B]; simp [ih]
    · cases he : paragraphsOf cs with
      | nil => rw [paragraphsOf_cons_ne_nil hc he, paragraphsOf_eq_nil.1 he]; rfl
      | cons p ps =>
        rw [paragraphsOf_cons_ne_cons hc he]
        rw [he] at ih
        simp only [List.flatten_cons, List.cons_append] at ih ⊢
        rw [ih]

theorem paragraphsOf_ne_nil (cs : List BidiClass) : ∀ p ∈ paragraphsOf cs, p ≠ [] := by
  induction cs with
  | nil => simp [paragraphsOf]
  | cons c cs ih =>
    by_cases hc : c = B
    · subst c; rw [paragraphsOf_cons_B]
      intro p hp; simp at hp
      rcases hp with rfl | hp
      · simp
      · exact ih p hp
    · cases he : paragraphsOf cs with
      | nil => rw [paragraphsOf_cons_ne_nil hc he]; simp
      | cons p ps =>
        rw [paragraphsOf_cons_ne_cons hc he]
        rw [he] at ih
        intro q hq; simp at hq
        rcases hq with rfl | hq
        · simp
        · exact ih q (by simp [hq])

/-- prepend an unfinished paragraph -/
def glue (a : List BidiClass) : List (List BidiClass) → List (List BidiClass)
  | [] => if a.isEmpty then [] else [a]
  | p :: ps => (a ++ p) :: ps

theorem glue_nil (ps : List (List BidiClass)) (h : ∀ p ∈ ps, p ≠ []) : glue [] ps = ps := by
  cases ps <;> simp [glue]

theorem splitGo_classes (acc rest : List Spec.Ch) :
    (Spec.splitParagraphs.go acc rest).map (·.map (·.cls)) =
      glue (acc.map (·.cls)) (paragraphsOf (rest.map (·.cls))) := by
  induction rest generalizing acc with
  | nil =>
    simp only [Spec.splitParagraphs.go, List.map_nil, paragraphsOf, glue]
    cases acc <;> simp
  | cons c rest ih =>
    simp only [Spec.splitParagraphs.go, List.map_cons]
    by_cases hc : c.cls = B
    · simp only [hc, beq_self_eq_true, if_true, List.map_cons, ih, List.map_nil]
      rw [paragraphsOf_cons_B, glue_nil _ (paragraphsOf_ne_nil _)]
      simp [glue, hc]
    · have hb : (c.cls == B) = false := by simpa using hc
      simp only [hb, Bool.false_eq_true, if_false]
      rw [ih]
      cases he : paragraphsOf (rest.map (·.cls)) with
      | nil => rw [paragraphsOf_cons_ne_nil hc he]; simp [glue]
      | cons p ps => rw [paragraphsOf_cons_ne_cons hc he]; simp [glue]

/-- `paragraphsOf` is rule P1 of the Spec (`Spec.splitParagraphs`), seen on classes -/
theorem splitParagraphs_classes (cs : List Spec.Ch) :
    (Spec.splitParagraphs cs).map (·.map (·.cls)) = paragraphsOf (cs.map (·.cls)) := by
  cases cs with
  | nil => rfl
  | cons c cs =>
    rw [Spec.splitParagraphs, splitGo_classes, List.map_nil, glue_nil _ (paragraphsOf_ne_nil _)]
    simp

/-- `findIdx?` and `find?` find the same element -/
theorem findIdx_some_find {α : Type} (q : α → Bool) (l : List α) (k : Nat)
    (h : l.findIdx? q = some k) : ∃ a, l[k]? = some a ∧ q a = true ∧ l.find? q = some a := by
  induction l generalizing k with
  | nil => simp at h
  | cons x xs ih =>
    rw [List.findIdx?_cons] at h
    by_cases hx : q x = true
    · simp [hx] at h; subst h; simp [hx]
    · simp [hx] at h
      obtain ⟨j, hj, rfl⟩ := h
      obtain ⟨a, h1, h2, h3⟩ := ih j hj
      exact ⟨a, by simpa using h1, h2, by simp [hx, h3]⟩

end UBidi.Props.C16
