/-
  C01 stage lemma StageN with retained BN units (characters removed by X9 that stay, as class BN,
  in the per-unit processing array) between the characters of an isolating run sequence.

  Main theorems (proved in full, single-unit characters, any number of level runs):
  * `stageN_bn`        — `resolveNeutral` = UAX #9's BD16 / N0 / N1 / N2 on the kept characters,
  * `stageN_bn_brkAt`  — the same with the bracket property read per kept unit (`brkAt`),
  * `n0Pair_bn_units`, `n0Pair_bn_at`, `n0_fold_bn` — one pair / the loop over the pairs, with the
    invariant `InvBN` (file `C01NeutralBNDefs`) that `inv_step` (file `C01NeutralBNInv`) preserves.
  See the comment before `stageN_bn` for the hypotheses.

  How the statement was found.  An executable checker of the target equation (crate's
  `resolveNeutral` read at the kept units = Spec on the kept characters) was run with
  `pcs := resolveWeak (fun _ => some 1) seq (classes with removed ↦ BN)`:
  * all class lists of length ≤ 6 over `( ) L R EN ON BN NSM`, one run; the same lists split into two
    runs around a unit of another sequence; sos, eos, e ∈ {L, R}: no counterexample;
  * the same over `( ) L R EN ON BN NSM ET CS` (length ≤ 6 one run, ≤ 5 two runs): no counterexample.
  So with the weak stage's real output the target equation holds.  But the requested hypothesis
  `hinit` ("a removed unit carries BN, ON or EN") is too weak — counterexample `( LRE )` with the
  removed unit typed EN, see the tests at the end.
  History.  The crate's sweep over the units following a changed bracket (N0, "NSMs after the bracket")
  used to test the CURRENT type of a unit (`== BN`) to step over removed units, and wrote the bracket's
  type into them.  With that sweep the crate and UAX #9 disagreed for a data source in which a bracket has
  class NSM, and the lemma needed a fourth hypothesis `hB` (a kept bracket is not an original NSM) and a
  stronger `hN` (removed units between a bracket and its trailing NSMs still carry BN).  The sweep now
  looks at ORIGINAL classes only (original NSM: written; removed by X9: stepped over, not written;
  anything else: stop).  `hB` is gone — the former counterexample now agrees, see the tests at the end —
  and `hN` only asks for BN or ON.
  The three hypotheses `hK hW hN` of `stageN_bn` hold for `resolveWeak`'s output for EVERY data source
  (`C01WeakInv`: `weak_hK`, `weak_hW`, `weak_hN`); the whole pipeline was also tested against the Spec
  with a native checker over a data source with brackets of class ON / NSM / ET / CS / ES: all texts of
  length ≤ 5 over 25 symbols, both paragraph levels (21 million cases), and 8 million random texts of
  length ≤ 14: no disagreement.

  Not covered here: characters longer than one code unit (`h1`), as in the colleague's `stageN_runs`.

  Files: `C01NeutralBNDefs` (the invariant `InvBN`), `C01NeutralBNInv` (preservation),
  `C01NeutralBNWrites` (the writes of `n0Pair` pointwise), `C01NeutralBNProj` (projections to the
  kept units), `C01NeutralBNPair` (one pair), `C01NeutralBNPairs` (BD16: the pair ends are
  distinct, typed ON, kept; the pairs come sorted by their opening brackets), `C01NeutralBNN12`
  (N1/N2 projected to the kept units).
-/
import UBidi.Lemmas.C01NeutralBNPair
import UBidi.Lemmas.C01NeutralBNPairs
import UBidi.Lemmas.C01NeutralBNN12
namespace UBidi.Lemmas.C01Neutral
open UBidi UBidi.BidiClass

/-! ### the walks of the crate for a pair given by positions in the index list -/

/-- the three walks `n0Pair` makes, as pieces of the sequence's index list -/
theorem pair_walks (seq : IRSeq) (hsorted : seq.indices.Pairwise (· < ·)) (p : BracketPair) (sp : Nat × Nat)
    (hat : PairAt seq p sp) :
    ∃ A M Z, seq.indices = A ++ p.start :: (M ++ p.stop :: Z) ∧
      seq.iterForwardsFrom (p.start + 1) p.startRun = M ++ p.stop :: Z ∧
      seq.iterForwardsFrom (p.stop + 1) p.endRun = Z ∧
      seq.iterBackwardsFrom p.start p.startRun = A.reverse := by
  have hnd : seq.indices.Nodup := hsorted.imp (fun h => Nat.ne_of_lt h)
  obtain ⟨a1, b1, hr1, ha1, hb1⟩ := hat.startRun
  obtain ⟨a2, b2, hr2, ha2, hb2⟩ := hat.endRun
  obtain ⟨s1, s2, s3⟩ := iter_split seq p.startRun a1 b1 hr1 p.start ha1 hb1
  obtain ⟨e1, e2, _⟩ := iter_split seq p.endRun a2 b2 hr2 p.stop ha2 hb2
  obtain ⟨d1, d2⟩ := nodup_decomp _ _ _ _ _ hnd s1 hat.start
  obtain ⟨d3, d4⟩ := nodup_decomp _ _ _ _ _ hnd e1 hat.stop
  rw [d1] at s3
  rw [d2] at s2
  rw [d4] at e2
  have hk2 : sp.2 < seq.indices.length := by
    rcases Nat.lt_or_ge sp.2 seq.indices.length with h | h
    · exact h
    · have := hat.stop; rw [List.getElem?_eq_none h] at this; cases this
  have hk1 : sp.1 < seq.indices.length := by have := hat.lt; omega
  have hU2 : seq.indices[sp.2] = p.stop := by
    have := hat.stop; rw [List.getElem?_eq_getElem hk2] at this; exact Option.some.inj this
  have hU1 : seq.indices[sp.1] = p.start := by
    have := hat.start; rw [List.getElem?_eq_getElem hk1] at this; exact Option.some.inj this
  have hmid : seq.indices.drop (sp.1 + 1) =
      (seq.indices.drop (sp.1 + 1)).take (sp.2 - (sp.1 + 1)) ++ p.stop :: seq.indices.drop (sp.2 + 1) := by
    conv => lhs; rw [← List.take_append_drop (sp.2 - (sp.1 + 1)) (seq.indices.drop (sp.1 + 1))]
    congr 1
    rw [List.drop_drop]
    have : sp.1 + 1 + (sp.2 - (sp.1 + 1)) = sp.2 := by have := hat.lt; omega
    rw [this, List.drop_eq_getElem_cons hk2, hU2]
  have hUsplit : seq.indices = seq.indices.take sp.1 ++ p.start ::
      ((seq.indices.drop (sp.1 + 1)).take (sp.2 - (sp.1 + 1)) ++ p.stop :: seq.indices.drop (sp.2 + 1)) := by
    rw [← hmid]
    conv => lhs; rw [← List.take_append_drop sp.1 seq.indices]
    rw [List.drop_eq_getElem_cons hk1, hU1]
  exact ⟨_, _, _, hUsplit, by rw [s2]; exact hmid, e2, s3⟩

/-- the crate's pair `p` is the Spec's pair `sp`, given by positions in the list of KEPT units -/
structure PairAtK (seq : IRSeq) (ocs : Classes) (p : BracketPair) (sp : Nat × Nat) : Prop where
  lt : sp.1 < sp.2
  start : (seq.indices.filter (keepU ocs))[sp.1]? = some p.start
  stop : (seq.indices.filter (keepU ocs))[sp.2]? = some p.stop
  startRun : ∃ a b, seq.runs[p.startRun]? = some (a, b) ∧ a ≤ p.start ∧ p.start < b
  endRun : ∃ a b, seq.runs[p.endRun]? = some (a, b) ∧ a ≤ p.stop ∧ p.stop < b

theorem getElem?_lt_of_sorted (K : List Nat) (hK : K.Pairwise (· < ·)) (i j a b : Nat) (hij : i < j)
    (hi : K[i]? = some a) (hj : K[j]? = some b) : a < b := by
  have hjl : j < K.length := by
    rcases Nat.lt_or_ge j K.length with h | h
    · exact h
    · rw [List.getElem?_eq_none h] at hj; cases hj
  have hil : i < K.length := by omega
  rw [List.getElem?_eq_getElem hil] at hi
  rw [List.getElem?_eq_getElem hjl] at hj
  have := (List.pairwise_iff_getElem.1 hK) i j hil hjl hij
  rw [Option.some.inj hi, Option.some.inj hj] at this
  exact this

theorem n0Pair_bn_at (t : Text) (hwf : t.WF) (h1 : ∀ s ∈ t.segs, s.len = 1) (seq : IRSeq)
    (e : BidiClass) (he : e = L ∨ e = R) (hs : seq.sos = L ∨ seq.sos = R)
    (ocs pcs : Classes) (hsorted : seq.indices.Pairwise (· < ·))
    (hlt : ∀ i ∈ seq.indices, i < pcs.length) (hpl : pcs.length = t.len)
    (p : BracketPair) (sp : Nat × Nat) (hat : PairAtK seq ocs p sp)
    (F F' : Nat → Prop) (hinv : InvBN seq.indices ocs pcs F) (hFo : F p.start) (hFc : F p.stop)
    (hF' : ∀ b, F' b → F b ∧ b ≠ p.start ∧ b ≠ p.stop) (hord : ∀ b, F' b → p.start < b) :
    ∃ pcs', n0Pair t seq e ocs (pcs, none) p = (pcs', none) ∧ pcs'.length = pcs.length ∧
      (∀ j, j ∉ seq.indices → cget pcs' j = cget pcs j) ∧ InvBN seq.indices ocs pcs' F' ∧
      (seq.indices.filter (keepU ocs)).map (cget pcs') =
        Spec.n0One seq.sos e ((seq.indices.filter (keepU ocs)).map (fun u => cget ocs u == NSM))
          ((seq.indices.filter (keepU ocs)).map (cget pcs)) sp := by
  have hKs : (seq.indices.filter (keepU ocs)).Pairwise (· < ·) := hsorted.filter _
  have hKnd : (seq.indices.filter (keepU ocs)).Nodup := hKs.imp (fun h => Nat.ne_of_lt h)
  have hoc : p.start < p.stop := getElem?_lt_of_sorted _ hKs _ _ _ _ hat.lt hat.start hat.stop
  have hoU : p.start ∈ seq.indices := (List.mem_filter.1 (List.mem_of_getElem? hat.start)).1
  have hcU : p.stop ∈ seq.indices := (List.mem_filter.1 (List.mem_of_getElem? hat.stop)).1
  have hko : keepU ocs p.start = true := (List.mem_filter.1 (List.mem_of_getElem? hat.start)).2
  have hkc : keepU ocs p.stop = true := (List.mem_filter.1 (List.mem_of_getElem? hat.stop)).2
  -- positions in the full index list
  obtain ⟨k1, hk1l, hk1⟩ := List.getElem_of_mem hoU
  obtain ⟨k2, hk2l, hk2⟩ := List.getElem_of_mem hcU
  have hk12 : k1 < k2 := by
    rcases Nat.lt_trichotomy k1 k2 with h | h | h
    · exact h
    · subst h; rw [hk1] at hk2; omega
    · have := (List.pairwise_iff_getElem.1 hsorted) k2 k1 hk2l hk1l h
      rw [hk1, hk2] at this; omega
  have hatU : PairAt seq p (k1, k2) :=
    ⟨hk12, by rw [List.getElem?_eq_getElem hk1l, hk1], by rw [List.getElem?_eq_getElem hk2l, hk2],
      hat.startRun, hat.endRun⟩
  obtain ⟨A, M, Z, hU, hfw1, hfw2, hbw⟩ := pair_walks seq hsorted p (k1, k2) hatU
  have hres := n0Pair_bn_units t hwf h1 seq e he hs ocs pcs p A M Z hU hfw1 hfw2 hbw hsorted hlt
    (by rw [← hpl]; exact hlt _ hoU) (by rw [← hpl]; exact hlt _ hcU) F F' hinv hFo hFc hF' hord
  -- the Spec's positions
  have hK : seq.indices.filter (keepU ocs) =
      A.filter (keepU ocs) ++ p.start :: (M.filter (keepU ocs) ++ p.stop :: Z.filter (keepU ocs)) := by
    conv => lhs; rw [hU]
    simp [List.filter_append, hko, hkc]
  obtain ⟨d1, _⟩ := nodup_decomp _ _ _ _ _ hKnd hK hat.start
  have hK2 : seq.indices.filter (keepU ocs) =
      (A.filter (keepU ocs) ++ p.start :: M.filter (keepU ocs)) ++ p.stop :: Z.filter (keepU ocs) := by
    rw [hK]; simp
  obtain ⟨d2, _⟩ := nodup_decomp _ _ _ _ _ hKnd hK2 hat.stop
  have hsp2 : sp.2 < (seq.indices.filter (keepU ocs)).length := by
    rcases Nat.lt_or_ge sp.2 (seq.indices.filter (keepU ocs)).length with h | h
    · exact h
    · have := hat.stop; rw [List.getElem?_eq_none h] at this; cases this
  have hl1 : (A.filter (keepU ocs)).length = sp.1 := by
    rw [d1, List.length_take]; have := hat.lt; omega
  have hl2 : (A.filter (keepU ocs)).length + 1 + (M.filter (keepU ocs)).length = sp.2 := by
    have := congrArg List.length d2
    rw [List.length_take] at this
    simp only [List.length_append, List.length_cons] at this
    omega
  rw [hl2, hl1] at hres
  exact hres

/-! ### the loop over the pairs -/

theorem n0_fold_bn (t : Text) (hwf : t.WF) (h1 : ∀ s ∈ t.segs, s.len = 1) (seq : IRSeq)
    (e : BidiClass) (he : e = L ∨ e = R) (hs : seq.sos = L ∨ seq.sos = R)
    (ocs : Classes) (hsorted : seq.indices.Pairwise (· < ·)) :
    ∀ (zs : List (BracketPair × (Nat × Nat))) (pcs : Classes),
      (∀ i ∈ seq.indices, i < pcs.length) → pcs.length = t.len →
      (∀ z ∈ zs, PairAtK seq ocs z.1 z.2) → (pairEnds (zs.map (·.1))).Nodup →
      (zs.map (·.1)).Pairwise (fun a b => a.start ≤ b.start) →
      InvBN seq.indices ocs pcs (fun b => b ∈ pairEnds (zs.map (·.1))) →
      ∃ pcs', (zs.map (·.1)).foldl (n0Pair t seq e ocs) (pcs, none) = (pcs', none) ∧
        pcs'.length = pcs.length ∧ (∀ j, j ∉ seq.indices → cget pcs' j = cget pcs j) ∧
        InvBN seq.indices ocs pcs' (fun _ => False) ∧
        (seq.indices.filter (keepU ocs)).map (cget pcs') =
          (zs.map (·.2)).foldl (Spec.n0One seq.sos e ((seq.indices.filter (keepU ocs)).map (fun u => cget ocs u == NSM)))
            ((seq.indices.filter (keepU ocs)).map (cget pcs)) := by
  intro zs
  induction zs with
  | nil =>
    intro pcs _ _ _ _ _ hinv
    exact ⟨pcs, rfl, rfl, fun _ _ => rfl, hinv.mono (fun _ h => h.elim), rfl⟩
  | cons z zs ih =>
    intro pcs hlt hpl hat hnd hsort hinv
    have hends : pairEnds ((z :: zs).map (·.1)) = z.1.start :: z.1.stop :: pairEnds (zs.map (·.1)) := by
      simp [pairEnds]
    rw [hends] at hnd hinv
    have hnd1 := List.nodup_cons.1 hnd
    have hnd2 := List.nodup_cons.1 hnd1.2
    obtain ⟨pcs1, q1, q2, q3, q4, q5⟩ := n0Pair_bn_at t hwf h1 seq e he hs ocs pcs hsorted hlt hpl z.1 z.2
      (hat z (by simp)) _ (fun b => b ∈ pairEnds (zs.map (·.1))) hinv (by simp) (by simp)
      (by
        intro b hb
        refine ⟨by simp [hb], ?_, ?_⟩
        · rintro rfl; exact hnd1.1 (by simp [hb])
        · rintro rfl; exact hnd2.1 hb)
      (by
        intro b hb
        have hKs : (seq.indices.filter (keepU ocs)).Pairwise (· < ·) := hsorted.filter _
        have hsort' := List.pairwise_cons.1 (by simpa using hsort : ((z.1 :: zs.map (·.1)).Pairwise
          (fun a b => a.start ≤ b.start)))
        have hne : b ≠ z.1.start := by rintro rfl; exact hnd1.1 (by simp [hb])
        simp only [pairEnds, List.mem_flatMap, List.mem_map] at hb
        obtain ⟨q, ⟨y, hy, rfl⟩, hbq⟩ := hb
        have hle := hsort'.1 y.1 (List.mem_map_of_mem hy)
        have haty := hat y (by simp [hy])
        have hlt' : y.1.start < y.1.stop := getElem?_lt_of_sorted _ hKs _ _ _ _ haty.lt haty.start haty.stop
        simp only [List.mem_cons, List.not_mem_nil, or_false] at hbq
        rcases hbq with rfl | rfl
        · omega
        · omega)
    obtain ⟨pcs2, r1, r2, r3, r4, r5⟩ := ih pcs1 (by rw [q2]; exact hlt) (by rw [q2]; exact hpl)
      (fun y hy => hat y (by simp [hy])) hnd2.2
      (List.pairwise_cons.1 (by simpa using hsort : ((z.1 :: zs.map (·.1)).Pairwise
          (fun a b => a.start ≤ b.start)))).2 q4
    refine ⟨pcs2, ?_, by rw [r2, q2], fun j hj => by rw [r3 j hj, q3 j hj], r4, ?_⟩
    · simp only [List.map_cons, List.foldl_cons, q1, r1]
    · simp only [List.map_cons, List.foldl_cons, r5, q5]


/-! ### the whole of `resolveNeutral` -/

theorem seqChars_sorted (t : Text) (hwf : t.WF) (h1 : ∀ s ∈ t.segs, s.len = 1) (seq : IRSeq)
    (hruns : seq.runs.Pairwise (fun r1 r2 => r1.2 ≤ r2.1)) (hbound : ∀ r ∈ seq.runs, r.2 ≤ t.len) :
    seq.indices.Pairwise (· < ·) := by
  have hkeepAll : keptChars t seq [] = seqChars t seq := by
    unfold keptChars
    rw [List.filter_eq_self]
    intro x _
    simp [bpKeep, cget, BidiClass.removedByX9]
  have := keptChars_starts_lt t hwf seq [] hruns
  rw [hkeepAll, seqChars_starts t hwf h1 seq hbound] at this
  exact this

/-- in a single-unit text the kept characters sit exactly at the kept units -/
theorem keptChars_starts (t : Text) (hwf : t.WF) (h1 : ∀ s ∈ t.segs, s.len = 1) (seq : IRSeq)
    (hbound : ∀ r ∈ seq.runs, r.2 ≤ t.len) (ocs : Classes) :
    (keptChars t seq ocs).map (fun x => x.2.start) = seq.indices.filter (keepU ocs) := by
  unfold keptChars
  rw [← seqChars_starts t hwf h1 seq hbound, List.filter_map]
  rfl


/-- **StageN for a sequence with retained BN units** (any number of level runs, single-unit
    characters).  `keepU ocs i` says that unit `i` is not removed by X9; the kept units of the
    sequence are `seq.indices.filter (keepU ocs)`, the kept characters `keptChars t seq ocs`.

    Hypotheses on the array `pcs` that `resolve_weak` hands over (all three are PROVED for
    `resolveWeak`'s output, for every data source: `C01WeakInv`):
    * `hK` a kept unit never carries BN;
    * `hW` a removed unit carries BN, ON, or the type of the next kept unit (the weak stage puts a BN
      unit into the ET run in front of an ET, so it ends up EN / L / ON like that ET; and it sets the
      BN units around a separator to ON);
    * `hN` between a kept bracket typed ON and a kept original NSM reachable from it through
      removed / original-NSM units only, the removed units carry BN or ON (the bracket's sweep
      overwrites that NSM, so its old type must not be the type a removed unit in front of it relies
      on; without `hN` the statement is false, last test at the end).
    No hypothesis on the classes of the bracket characters: a bracket may be an original NSM.
    The originally requested hypothesis "a removed unit carries BN, ON or EN" is not sufficient:
    a removed unit carrying EN between two brackets with nothing else inside makes the crate
    resolve the pair (EN counts as R) where UAX #9 leaves it alone.

    Conclusion: `resolve_neutral` does not panic, keeps the length, touches only the sequence's
    units, and at the kept units the result is UAX #9's N0 (BD16 pairs in opener order) followed by
    N1/N2, computed on the kept characters alone. -/
theorem stageN_bn (ds : DataSource) (t : Text) (hwf : t.WF) (h1 : ∀ s ∈ t.segs, s.len = 1)
    (seq : IRSeq) (r0 : Nat × Nat) (rest : List (Nat × Nat)) (hr0 : seq.runs = r0 :: rest)
    (hruns : seq.runs.Pairwise (fun r1 r2 => r1.2 ≤ r2.1)) (hbound : ∀ r ∈ seq.runs, r.2 ≤ t.len)
    (hs : seq.sos = L ∨ seq.sos = R) (levels : List Nat) (ocs pcs : Classes) (hpl : pcs.length = t.len)
    (hK : ∀ i ∈ seq.indices, keepU ocs i = true → cget pcs i ≠ BN)
    (hW : ∀ p ∈ seq.indices, keepU ocs p = false →
      cget pcs p = BN ∨ cget pcs p = ON ∨ FwdWit seq.indices ocs pcs p)
    (hN : ∀ x ∈ seqChars t seq, keepU ocs x.2.start = true → (ds.brk x.2.cp).isSome = true →
      cget pcs x.2.start = ON →
      ∀ k ∈ seq.indices, keepU ocs k = true → InTrail seq.indices ocs x.2.start k →
      ∀ p ∈ seq.indices, x.2.start < p → p < k → keepU ocs p = false → cget pcs p = BN ∨ cget pcs p = ON) :
    ∃ out, resolveNeutral ds t seq levels ocs pcs = (out, none) ∧ out.length = pcs.length ∧
      (∀ j, j ∉ seq.indices → cget out j = cget pcs j) ∧
      (seq.indices.filter (keepU ocs)).map (cget out) =
        Spec.n12 seq.sos seq.eos (Level.bidiClass (levels.getD r0.1 0))
          ((Spec.bracketPairs ((seq.indices.filter (keepU ocs)).map (cget pcs))
              ((keptChars t seq ocs).map (fun x => ds.brk x.2.cp))).foldl
            (Spec.n0One seq.sos (Level.bidiClass (levels.getD r0.1 0))
              ((seq.indices.filter (keepU ocs)).map (fun u => cget ocs u == NSM)))
            ((seq.indices.filter (keepU ocs)).map (cget pcs))) := by
  have he := levelBidiClass_LR (levels.getD r0.1 0)
  unfold resolveNeutral
  simp only [hr0]
  generalize Level.bidiClass (levels.getD r0.1 0) = e at he ⊢
  -- the units and characters of the sequence
  have hstarts := seqChars_starts t hwf h1 seq hbound
  have hsorted : seq.indices.Pairwise (· < ·) := seqChars_sorted t hwf h1 seq hruns hbound
  have hkstarts := keptChars_starts t hwf h1 seq hbound ocs
  have hincK := keptChars_starts_lt t hwf seq ocs hruns
  have hlt : ∀ i ∈ seq.indices, i < pcs.length := by
    intro i hi
    unfold IRSeq.indices at hi
    rw [List.mem_flatMap] at hi
    obtain ⟨r, hr, hi⟩ := hi
    simp only [runIndices, List.mem_range'_1] at hi
    have := hbound r hr
    omega
  -- BD16
  have hbd := stageBD16_seq ds t seq ocs pcs hincK
  have hts : (keptChars t seq ocs).map (fun x => cget pcs x.2.start) =
      (seq.indices.filter (keepU ocs)).map (cget pcs) := by
    rw [← hkstarts, List.map_map]; rfl
  rw [hkstarts, hts] at hbd
  generalize hsp : Spec.bracketPairs ((seq.indices.filter (keepU ocs)).map (cget pcs))
    ((keptChars t seq ocs).map (fun x => ds.brk x.2.cp)) = spairs at hbd ⊢
  have hsplt : ∀ p ∈ spairs, p.1 < p.2 ∧ p.2 < (seq.indices.filter (keepU ocs)).length := by
    intro p hp
    have := spec_bracketPairs_lt _ _ p (hsp ▸ hp)
    simp only [List.length_zip, List.length_map] at this
    have hl : (keptChars t seq ocs).length = (seq.indices.filter (keepU ocs)).length := by
      rw [← hkstarts]; simp
    rw [hl, Nat.min_self] at this
    exact this
  have hok : ∀ p ∈ identifyBracketPairs ds t seq ocs pcs,
      PairOK (fun r i => ∃ a b, seq.runs[r]? = some (a, b) ∧ a ≤ i ∧ i < b) p := by
    intro p hp
    unfold identifyBracketPairs at hp
    rw [mem_sortPairs] at hp
    refine bd16_pairs_ok ds ocs pcs _ (seqChars t seq) {} 0 (by simp) (by simp)
      (seqChars_run t seq) ?_ (by simp) p hp
    rw [hstarts]; exact hsorted
  have hends := bd16_ends ds t seq ocs pcs (by rw [hstarts]; exact hsorted)
  have hsortM : (identifyBracketPairs ds t seq ocs pcs).Pairwise (fun a b => a.start ≤ b.start) :=
    sortPairs_sorted _
  generalize hmp : identifyBracketPairs ds t seq ocs pcs = mpairs at hbd hok hends hsortM ⊢
  -- zip the two lists of pairs
  have hlen : mpairs.length = spairs.length := by
    have := congrArg List.length hbd; simpa using this
  have hz1 : (mpairs.zip spairs).map (·.1) = mpairs := List.map_fst_zip (by omega)
  have hz2 : (mpairs.zip spairs).map (·.2) = spairs := List.map_snd_zip (by omega)
  have hat : ∀ z ∈ mpairs.zip spairs, PairAtK seq ocs z.1 z.2 := by
    intro z hz
    obtain ⟨i, hi, rfl⟩ := List.getElem_of_mem hz
    simp only [List.length_zip] at hi
    have hi1 : i < mpairs.length := by omega
    have hi2 : i < spairs.length := by omega
    simp only [List.getElem_zip]
    have hmem1 : mpairs[i] ∈ mpairs := List.getElem_mem _
    have hmem2 : spairs[i] ∈ spairs := List.getElem_mem _
    have hq := hok _ hmem1
    have hl := hsplt _ hmem2
    have heq : (mpairs[i].start, mpairs[i].stop) =
        ((seq.indices.filter (keepU ocs)).getD spairs[i].1 0, (seq.indices.filter (keepU ocs)).getD spairs[i].2 0) := by
      have := congrArg (fun l => l[i]?) hbd
      simp only [List.getElem?_map, List.getElem?_eq_getElem hi1, List.getElem?_eq_getElem hi2,
        Option.map_some, Option.some.injEq] at this
      exact this
    simp only [Prod.mk.injEq] at heq
    refine ⟨hl.1, ?_, ?_, hq.2.1, hq.2.2⟩
    · rw [heq.1, List.getD_eq_getElem?_getD, List.getElem?_eq_getElem (by omega)]; rfl
    · rw [heq.2, List.getD_eq_getElem?_getD, List.getElem?_eq_getElem hl.2]; rfl
  -- the invariant holds at the start
  have hinv0 : InvBN seq.indices ocs pcs (fun b => b ∈ pairEnds ((mpairs.zip spairs).map (·.1))) := by
    rw [hz1]
    refine ⟨hK, ?_, ?_, ?_⟩
    · intro b hb
      obtain ⟨h1', h2', x, hx, hxb, hbrk⟩ := hends.2 b hb
      subst hxb
      have hbU : x.2.start ∈ seq.indices := by rw [← hstarts]; exact List.mem_map_of_mem hx
      exact ⟨hbU, h2'⟩
    · intro p hp hk
      by_cases hon : cget pcs p = ON
      · exact Or.inr (Or.inl hon)
      rcases hW p hp hk with h | h | ⟨q, hq, h1', h2', h3', h4'⟩
      · exact Or.inl h
      · exact Or.inr (Or.inl h)
      · -- the witness carries the type of `p`, which is not ON: it is not a bracket end
        refine Or.inr (Or.inr ⟨q, hq, h1', h2', h3', h4', fun hb => ?_⟩)
        exact hon (by rw [← h3']; exact (hends.2 q hb).1)
    · intro b hb k hk hkk hin p hp hbp hpk hpr
      obtain ⟨h1', h2', x, hx, hxb, hbrk⟩ := hends.2 b hb
      subst hxb
      exact hN x hx h2' hbrk h1' k hk hkk hin p hp hbp hpk hpr
  obtain ⟨pcs', f1, f2, f3, f4, f5⟩ := n0_fold_bn t hwf h1 seq e he hs ocs hsorted (mpairs.zip spairs) pcs
    hlt hpl hat (by rw [hz1]; exact hends.1) (by rw [hz1]; exact hsortM) hinv0
  rw [hz1] at f1
  rw [hz2] at f5
  rw [f1]
  simp only
  -- N1 / N2
  obtain ⟨g1, g2, g3⟩ := stageN12_seq seq e pcs' (hsorted.imp (fun h => Nat.ne_of_lt h)) (by rw [f2]; exact hlt)
  have hproj := n12_kept_proj seq.sos seq.eos e seq.indices hsorted ocs pcs' (n12 seq e pcs') f4.kept
    (fun p hp hk => by
      rcases f4.wit p hp hk with h | h | h
      · exact Or.inl h
      · exact Or.inr (Or.inl h)
      · exact Or.inr (Or.inr (Or.inl h.fwd))) g3
  refine ⟨_, rfl, by rw [g1, f2], fun j hj => by rw [g2 j hj, f3 j hj], ?_⟩
  rw [hproj, f5]


/-! ### the same statement with the bracket property read through `char_at` -/

theorem find_start_of_mem : ∀ (segs : List Seg), (segs.map (·.start)).Pairwise (· < ·) → ∀ s ∈ segs,
    segs.find? (fun x => x.start == s.start) = some s
  | [], _, s, hs => by cases hs
  | a :: l, hp, s, hs => by
    simp only [List.map_cons, List.pairwise_cons, List.mem_map, forall_exists_index, and_imp,
      forall_apply_eq_imp_iff₂] at hp
    simp only [List.mem_cons] at hs
    rcases hs with rfl | hs
    · simp
    · have hne : (a.start == s.start) = false := by
        have := hp.1 s hs
        simp; omega
      rw [List.find?_cons, hne]
      exact find_start_of_mem l hp.2 s hs

/-- the bracket property of the character starting at unit `i` -/
def brkAt (ds : DataSource) (t : Text) (i : Nat) : Option Bracket :=
  (t.charAt i).bind (fun s => ds.brk s.cp)

theorem keptChars_brk (ds : DataSource) (t : Text) (hwf : t.WF) (h1 : ∀ s ∈ t.segs, s.len = 1) (seq : IRSeq)
    (hbound : ∀ r ∈ seq.runs, r.2 ≤ t.len) (ocs : Classes) :
    (keptChars t seq ocs).map (fun x => ds.brk x.2.cp) =
      (seq.indices.filter (keepU ocs)).map (brkAt ds t) := by
  rw [← keptChars_starts t hwf h1 seq hbound ocs, List.map_map]
  apply List.map_congr_left
  intro x hx
  have hxs : x ∈ seqChars t seq := (List.mem_filter.1 hx).1
  have hseg : x.2 ∈ t.segs := by
    unfold seqChars at hxs
    rw [List.mem_flatMap] at hxs
    obtain ⟨⟨r, k⟩, _, hx2⟩ := hxs
    simp only [List.mem_map, List.mem_filter] at hx2
    obtain ⟨s, ⟨hs, _⟩, rfl⟩ := hx2
    exact hs
  have := find_start_of_mem t.segs (segs_starts_lt t.segs 0 t.len hwf.tiles).2 x.2 hseg
  simp only [Function.comp, brkAt, Text.charAt, this, Option.bind_some]

/-- `stageN_bn` with the brackets given per kept unit (`brkAt`), as in the requested statement -/
theorem stageN_bn_brkAt (ds : DataSource) (t : Text) (hwf : t.WF) (h1 : ∀ s ∈ t.segs, s.len = 1)
    (seq : IRSeq) (r0 : Nat × Nat) (rest : List (Nat × Nat)) (hr0 : seq.runs = r0 :: rest)
    (hruns : seq.runs.Pairwise (fun r1 r2 => r1.2 ≤ r2.1)) (hbound : ∀ r ∈ seq.runs, r.2 ≤ t.len)
    (hs : seq.sos = L ∨ seq.sos = R) (levels : List Nat) (ocs pcs : Classes) (hpl : pcs.length = t.len)
    (hK : ∀ i ∈ seq.indices, keepU ocs i = true → cget pcs i ≠ BN)
    (hW : ∀ p ∈ seq.indices, keepU ocs p = false →
      cget pcs p = BN ∨ cget pcs p = ON ∨ FwdWit seq.indices ocs pcs p)
    (hN : ∀ x ∈ seqChars t seq, keepU ocs x.2.start = true → (ds.brk x.2.cp).isSome = true →
      cget pcs x.2.start = ON →
      ∀ k ∈ seq.indices, keepU ocs k = true → InTrail seq.indices ocs x.2.start k →
      ∀ p ∈ seq.indices, x.2.start < p → p < k → keepU ocs p = false → cget pcs p = BN ∨ cget pcs p = ON) :
    ∃ out, resolveNeutral ds t seq levels ocs pcs = (out, none) ∧ out.length = pcs.length ∧
      (∀ j, j ∉ seq.indices → cget out j = cget pcs j) ∧
      (seq.indices.filter (keepU ocs)).map (cget out) =
        Spec.n12 seq.sos seq.eos (Level.bidiClass (levels.getD r0.1 0))
          ((Spec.bracketPairs ((seq.indices.filter (keepU ocs)).map (cget pcs))
              ((seq.indices.filter (keepU ocs)).map (brkAt ds t))).foldl
            (Spec.n0One seq.sos (Level.bidiClass (levels.getD r0.1 0))
              ((seq.indices.filter (keepU ocs)).map (fun u => cget ocs u == NSM)))
            ((seq.indices.filter (keepU ocs)).map (cget pcs))) := by
  rw [← keptChars_brk ds t hwf h1 seq hbound ocs]
  exact stageN_bn ds t hwf h1 seq r0 rest hr0 hruns hbound hs levels ocs pcs hpl hK hW hN

/-! ### non-vacuity / tests (literal inputs; `decide` here is a test, not a proof) -/

/-- `א ( LRE % 1 ) PDF ◌̀` as UTF-16 (every character one unit): units 2 (LRE) and 6 (PDF) are
    removed by X9 -/
def exTextB : Text :=
  { enc := .utf16, len := 8, segs := Text.layout .utf16 0 [0x5D0, 0x28, 0x202A, 0x25, 0x31, 0x29, 0x202C, 0x300] }
def exSeqB : IRSeq := { runs := [(0, 8)], sos := R, eos := R }
def exOcsB : Classes := [R, ON, LRE, ET, EN, ON, PDF, NSM]
/-- what `resolve_weak` leaves: the BN unit in front of the ET has become EN with it, the NSM
    after the bracket ON (W1), the PDF is still BN -/
def exPcsB : Classes := [R, ON, EN, EN, EN, ON, BN, ON]

theorem exTextB_wf : exTextB.WF :=
  ⟨by simp [exTextB, Text.layout, SegsFrom, Enc.charLen, utf16Len], by decide⟩

/-- test: `exPcsB` is the weak stage's output -/
example : resolveWeak (fun _ => some 1) exSeqB [R, ON, BN, ET, EN, ON, BN, NSM] = exPcsB := by decide +kernel

/-- the hypotheses of `stageN_bn` hold for this input (unit 2 is a removed unit carrying the
    type EN of the next kept unit; unit 6 is a removed unit carrying BN between a bracket and a
    kept original NSM) -/
example : (∀ s ∈ exTextB.segs, s.len = 1) ∧ exSeqB.runs = (0, 8) :: [] ∧
    exSeqB.runs.Pairwise (fun r1 r2 => r1.2 ≤ r2.1) ∧ (∀ r ∈ exSeqB.runs, r.2 ≤ exTextB.len) ∧
    (exSeqB.sos = L ∨ exSeqB.sos = R) ∧ exPcsB.length = exTextB.len ∧
    (∀ i ∈ exSeqB.indices, keepU exOcsB i = true → cget exPcsB i ≠ BN) ∧
    (∀ p ∈ exSeqB.indices, keepU exOcsB p = false →
      cget exPcsB p = BN ∨ cget exPcsB p = ON ∨ FwdWit exSeqB.indices exOcsB exPcsB p) ∧
    (∀ x ∈ seqChars exTextB exSeqB, keepU exOcsB x.2.start = true → (hardcoded.brk x.2.cp).isSome = true →
      cget exPcsB x.2.start = ON →
      ∀ k ∈ exSeqB.indices, keepU exOcsB k = true → InTrail exSeqB.indices exOcsB x.2.start k →
      ∀ p ∈ exSeqB.indices, x.2.start < p → p < k → keepU exOcsB p = false →
        cget exPcsB p = BN ∨ cget exPcsB p = ON) := by
  unfold FwdWit InTrail
  refine ⟨by decide +kernel, by decide +kernel, by decide +kernel, by decide +kernel, by decide +kernel,
    by decide +kernel, by decide +kernel, by decide +kernel, by decide +kernel⟩

/-- test: the pair encloses EN (= R = e), so both brackets become R; the sweep after the closing
    bracket runs over the PDF unit (BN) and reaches the NSM.  The kept units are 0 1 3 4 5 7. -/
example : resolveNeutral hardcoded exTextB exSeqB (List.replicate 8 1) exOcsB exPcsB =
    ([R, R, EN, EN, EN, R, R, R], none) := by decide +kernel
example : exSeqB.indices.filter (keepU exOcsB) = [0, 1, 3, 4, 5, 7] := by decide +kernel
example : Spec.n12 R R R ((Spec.bracketPairs ((exSeqB.indices.filter (keepU exOcsB)).map (cget exPcsB))
      ((keptChars exTextB exSeqB exOcsB).map (fun x => hardcoded.brk x.2.cp))).foldl
        (Spec.n0One R R ((exSeqB.indices.filter (keepU exOcsB)).map (fun u => cget exOcsB u == NSM)))
        ((exSeqB.indices.filter (keepU exOcsB)).map (cget exPcsB)))
    = [R, R, EN, EN, R, R] := by decide +kernel

/-- test, COUNTEREXAMPLE to the statement with the hypothesis "a removed unit carries BN, ON or EN"
    instead of `hW`: `( LRE )` with the removed unit typed EN, e = R.  The crate sees EN between the
    brackets and makes them R; UAX #9 sees an empty pair, and N1/N2 make the brackets L (sos = eos = L). -/
def exTextC : Text := { enc := .utf16, len := 3, segs := Text.layout .utf16 0 [0x28, 0x202A, 0x29] }
example : (resolveNeutral hardcoded exTextC { runs := [(0, 3)], sos := L, eos := L } [1, 1, 1]
      [ON, LRE, ON] [ON, EN, ON]).1 = [R, EN, R] := by decide +kernel
example : Spec.n12 L L R ((Spec.bracketPairs [ON, ON] [hardcoded.brk 0x28, hardcoded.brk 0x29]).foldl
      (Spec.n0One L R [false, false]) [ON, ON]) = [L, L] := by decide +kernel

/-- test (formerly the COUNTEREXAMPLE behind `hB`): a data source in which the character 1000 is an
    opening bracket of class NSM.  `( R ) ⟨1000⟩ BN NSM L )`, sos = R, e = L: the first pair's closing
    bracket sweeps R over `⟨1000⟩` and the NSM, stepping over the removed unit without writing it;
    then the second pair `⟨1000⟩ … )` becomes L and its sweep steps over the removed unit again and
    reaches the NSM, as UAX #9's does.  (Before the fix of the sweep — which tested the CURRENT type
    `== BN` and wrote the removed unit — the second sweep stopped at the removed unit, by then R, and
    the kept NSM (unit 5) ended as R in the crate and as L in UAX #9.)  Now both sides agree on the
    kept units 0 1 2 3 5 6 7. -/
def exDsNsm : DataSource :=
  { cls := fun _ => ON,
    brk := fun cp => if cp == 0x28 then some ⟨0x28, true⟩ else if cp == 0x29 then some ⟨0x28, false⟩
                     else if cp == 1000 then some ⟨0x28, true⟩ else none }
def exTextD : Text :=
  { enc := .utf32, len := 8, segs := Text.layout .utf32 0 [0x28, 0x62, 0x29, 1000, 0x65, 0x66, 0x61, 0x29] }
example : (resolveNeutral exDsNsm exTextD { runs := [(0, 8)], sos := R, eos := L } (List.replicate 8 0)
      [ON, R, ON, NSM, BN, NSM, L, ON] [ON, R, ON, ON, BN, ON, L, ON]).1 = [R, R, R, L, L, L, L, L] := by
  decide +kernel
example : Spec.n12 R L L ((Spec.bracketPairs [ON, R, ON, ON, ON, L, ON]
      ([0x28, 0x62, 0x29, 1000, 0x66, 0x61, 0x29].map exDsNsm.brk)).foldl
      (Spec.n0One R L [false, false, false, true, true, false, false]) [ON, R, ON, ON, ON, L, ON])
    = [R, R, R, L, L, L, L] := by decide +kernel

/-- test, COUNTEREXAMPLE showing that `hN` is needed (for an ARBITRARY array `pcs`; the weak stage never
    produces it): the same data source.  `( R ) ⟨1000⟩ LRE NSM )`, sos = R, e = L, with the removed unit
    4 and the NSM 5 both typed L (so `hK` and `hW` hold: unit 4 carries the type of the next kept unit),
    but unit 4 lies between the bracket at 2 and the kept NSM 5 and carries neither BN nor ON.
    The first pair becomes R and its sweep makes the NSMs 3 and 5 R, stepping over unit 4, which keeps
    its stale L.  The second pair `⟨1000⟩ … )` then encloses L for the crate (unit 4) — it becomes L —
    and only R for UAX #9 — it becomes R. -/
def exTextE : Text :=
  { enc := .utf32, len := 7, segs := Text.layout .utf32 0 [0x28, 0x5D0, 0x29, 1000, 0x202A, 0x300, 0x29] }
example : (∀ i ∈ ({ runs := [(0, 7)], sos := R, eos := R } : IRSeq).indices,
      keepU [ON, R, ON, NSM, LRE, NSM, ON] i = true → cget [ON, R, ON, ON, L, L, ON] i ≠ BN) ∧
    (∀ p ∈ ({ runs := [(0, 7)], sos := R, eos := R } : IRSeq).indices,
      keepU [ON, R, ON, NSM, LRE, NSM, ON] p = false →
      cget [ON, R, ON, ON, L, L, ON] p = BN ∨ cget [ON, R, ON, ON, L, L, ON] p = ON ∨
      FwdWit ({ runs := [(0, 7)], sos := R, eos := R } : IRSeq).indices [ON, R, ON, NSM, LRE, NSM, ON]
        [ON, R, ON, ON, L, L, ON] p) := by
  unfold FwdWit
  exact ⟨by decide +kernel, by decide +kernel⟩
example : (resolveNeutral exDsNsm exTextE { runs := [(0, 7)], sos := R, eos := R } (List.replicate 7 0)
      [ON, R, ON, NSM, LRE, NSM, ON] [ON, R, ON, ON, L, L, ON]).1 = [R, R, R, L, L, L, L] := by
  decide +kernel
example : Spec.n12 R R L ((Spec.bracketPairs [ON, R, ON, ON, L, ON]
      ([0x28, 0x5D0, 0x29, 1000, 0x300, 0x29].map exDsNsm.brk)).foldl
      (Spec.n0One R L [false, false, false, true, true, false]) [ON, R, ON, ON, L, ON])
    = [R, R, R, R, R, R] := by decide +kernel

end UBidi.Lemmas.C01Neutral
