/-
  C01 / composition, part 3: one iteration of the `for sequence in &sequences` loop on a single-unit
  text (`seqStep_unit`): `resolve_weak` followed by `resolve_neutral` does not panic, writes only
  units of the sequence, and at the sequence's kept units leaves W1–W7, N0, N1/N2 of UAX #9 computed
  on the kept characters (`core`).  Composition of `stageW_runs` and `stageN_bn_brkAt`, the latter's
  hypotheses on the weak stage's output being supplied by `WeakInv`.
-/
import UBidi.Lemmas.C01ComposeExplicit
import UBidi.Lemmas.ExpandPipeline
namespace UBidi.Lemmas.C01Compose
open UBidi UBidi.BidiClass UBidi.Lemmas.C01Seq UBidi.Lemmas.C01Neutral UBidi.Lemmas.C01Weak

/-- W1–W7, N0, N1/N2 of UAX #9 on the characters of one sequence: `ts0` types after X1–X8,
    `nsm` "original class NSM", `bs` bracket properties -/
def core (sos eos e : BidiClass) (ts0 : List BidiClass) (nsm : List Bool) (bs : List (Option Bracket)) :
    List BidiClass :=
  let ts1 := Spec.weak sos ts0
  Spec.n12 sos eos e ((Spec.bracketPairs ts1 bs).foldl (Spec.n0One sos e nsm) ts1)

/-- the kept units of a sequence -/
def keptOf (ocs : Classes) (s : IRSeq) : List Nat := s.indices.filter (keepU ocs)

/-- what the Model leaves at the kept units of sequence `s`, in UAX #9's terms; `pcs0` is the array the
    explicit stage produced -/
def modelCore (ds : DataSource) (t : Text) (lv : List Nat) (ocs pcs0 : Classes) (s : IRSeq) : List BidiClass :=
  core s.sos s.eos (Level.bidiClass (lv.getD (s.runs.headD (0, 0)).1 0))
    ((keptOf ocs s).map (cget pcs0)) ((keptOf ocs s).map (fun u => cget ocs u == NSM))
    ((keptOf ocs s).map (brkAt ds t))

theorem runsOK_of_sorted (len : Nat) : ∀ (runs : List (Nat × Nat)) (lo : Nat),
    (∀ r ∈ runs, lo ≤ r.1 ∧ r.1 < r.2 ∧ r.2 ≤ len) → runs.Pairwise (fun r s => r.2 ≤ s.1) →
    runsOK lo runs len = true
  | [], _, _, _ => rfl
  | (a, b) :: rs, lo, h, hp => by
    have h0 := h (a, b) (by simp)
    simp only [List.pairwise_cons] at hp
    simp only [runsOK, Bool.and_eq_true, decide_eq_true_eq]
    refine ⟨⟨⟨h0.1, h0.2.1⟩, h0.2.2⟩, ?_⟩
    apply runsOK_of_sorted len rs b _ hp.2
    intro r hr
    have := h r (by simp [hr])
    exact ⟨hp.1 r hr, this.2.1, this.2.2⟩

theorem runsOK_of_seqOK {n : Nat} {s : IRSeq} (h : Expand.SeqOK n s) : runsOK 0 s.runs n = true :=
  runsOK_of_sorted n s.runs 0 (fun r hr => ⟨Nat.zero_le _, (h.1 r hr).1, (h.1 r hr).2⟩) h.2

/-- the view of the kept units, from the zipped views `stageW_runs` speaks about -/
theorem zip_filterMap_kept (f g : Nat → BidiClass) (k : Nat → Bool) : ∀ (l : List Nat),
    (∀ i ∈ l, g i = BN ↔ k i = false) →
    ((l.map f).zip (l.map g)).filterMap (fun (o, c) => if c = BN then none else some o) = (l.filter k).map f ∧
    (l.map g).filter (· ≠ BN) = (l.filter k).map g
  | [], _ => ⟨rfl, rfl⟩
  | i :: l, h => by
    obtain ⟨ih1, ih2⟩ := zip_filterMap_kept f g k l (fun j hj => h j (by simp [hj]))
    have hi := h i (by simp)
    by_cases hk : k i = true
    · have hg : g i ≠ BN := by
        intro e; rw [hi.1 e] at hk; cases hk
      simp only [List.map_cons, List.zip_cons_cons, List.filterMap_cons, hg, if_false, List.filter_cons, hk,
        if_true, ih1, ne_eq, not_false_eq_true, decide_true]
      exact ⟨trivial, by simpa using ih2⟩
    · have hk' : k i = false := by simpa using hk
      have hg : g i = BN := hi.2 hk'
      simp only [List.map_cons, List.zip_cons_cons, List.filterMap_cons, hg, if_true, List.filter_cons, hk',
        ih1, ne_eq, not_true_eq_false, decide_false, Bool.false_eq_true, if_false]
      exact ⟨trivial, by simpa using ih2⟩

theorem getElem?_eq_cget {p q : Classes} {j : Nat} (h : p[j]? = q[j]?) : cget p j = cget q j := by
  simp only [cget, List.getD_eq_getElem?_getD, h]

/-- **one sequence** of a single-unit text -/
theorem seqStep_unit (ds : DataSource) (hweak : WeakInv ds) (t : Text) (n : Nat) (hu : UnitText t n)
    (lv : List Nat) (ocs : Classes) (holen : ocs.length = n)
    (s : IRSeq) (hok : Expand.SeqOK n s) (hne : s.runs ≠ [])
    (hs : s.sos = L ∨ s.sos = R) (he : s.eos = L ∨ s.eos = R)
    (P : Classes) (hP : P.length = n)
    (hrem : ∀ i ∈ s.indices, keepU ocs i = false → cget P i = BN)
    (hov : ∀ i ∈ s.indices, keepU ocs i = true → cget P i = cget ocs i ∨ cget P i = L ∨ cget P i = R) :
    ∃ out, Expand.Pipeline.seqStep ds t lv ocs (P, none) s = (out, none) ∧ out.length = n ∧
      (∀ j, j ∉ s.indices → cget out j = cget P j) ∧
      (keptOf ocs s).map (cget out) = modelCore ds t lv ocs P s := by
  obtain ⟨r0, rest, hr0⟩ := List.exists_cons_of_ne_nil hne
  have hwf := hu.wf
  have h1 := hu.unit
  have hilt : ∀ i ∈ s.indices, i < n := fun i hi => Expand.Weak.mem_indices_lt hok hi
  have hbound : ∀ r ∈ s.runs, r.2 ≤ t.len := fun r hr => by rw [hu.len]; exact (hok.1 r hr).2
  have hkept : ∀ i ∈ s.indices, keepU ocs i = true → (cget P i).removedByX9 = false := by
    intro i hi hk
    exact pc_not_removed (by simpa [keepU] using hk) (hov i hi hk)
  have hruns : runsOK 0 s.runs P.length = true := by rw [hP]; exact runsOK_of_seqOK hok
  -- characters of the sequence
  have hstarts := seqChars_starts t hwf h1 s hbound
  have hchar : ∀ x ∈ seqChars t s, x.2.start ∈ s.indices ∧ brkAt ds t x.2.start = ds.brk x.2.cp := by
    intro x hx
    refine ⟨by rw [← hstarts]; exact List.mem_map_of_mem hx, ?_⟩
    have hseg : x.2 ∈ t.segs := by
      unfold seqChars at hx
      rw [List.mem_flatMap] at hx
      obtain ⟨⟨r, k⟩, _, hx2⟩ := hx
      simp only [List.mem_map, List.mem_filter] at hx2
      obtain ⟨sg, ⟨hsg, _⟩, rfl⟩ := hx2
      exact hsg
    have := find_start_of_mem t.segs (segs_starts_lt t.segs 0 t.len hwf.tiles).2 x.2 hseg
    simp only [brkAt, Text.charAt, this, Option.bind_some]
  have hshape : ExplicitShape t s ocs P :=
    { wf := hwf, unit := h1, bound := hbound, sorted := hok.2, runs := hruns,
      plen := by rw [hP, hu.len], olen := by rw [holen, hu.len], sos := hs, eos := he,
      rem := hrem, kept := hkept, ov := hov }
  obtain ⟨hK, hW, hN⟩ := hweak t s ocs P hshape
  -- the weak stage
  have hcl : resolveWeak (fun i => (t.charAt i).map (·.len)) s P = resolveWeak (fun _ => some 1) s P :=
    Expand.Weak.resolveWeak_congr _ _ s P (fun i hi => charLen_unit hu i (hilt i hi))
  have hokW : ∀ i ∈ s.indices, cget P i = .BN ∨ (cget P i).removedByX9 = false := by
    intro i hi
    by_cases hk : keepU ocs i = true
    · exact Or.inr (hkept i hi hk)
    · exact Or.inl (hrem i hi (by simpa using hk))
  obtain ⟨q1, _, q3, q4⟩ := stageW_runs s hs he P hruns hokW
  have hiff : ∀ i ∈ s.indices, cget P i = BN ↔ keepU ocs i = false := by
    intro i hi
    constructor
    · intro e
      by_cases hk : keepU ocs i = true
      · have := hkept i hi hk; rw [e] at this; cases this
      · simpa using hk
    · exact hrem i hi
  obtain ⟨z1, z2⟩ := zip_filterMap_kept (cget (resolveWeak (fun _ => some 1) s P)) (cget P) (keepU ocs)
    s.indices hiff
  simp only [] at q1
  rw [z1, z2] at q1
  -- the neutral stage
  obtain ⟨out, o1, o2, o3, o4⟩ := stageN_bn_brkAt ds t hwf h1 s r0 rest hr0 hok.2 hbound hs lv ocs
    (resolveWeak (fun _ => some 1) s P) (by rw [q3, hP, hu.len]) hK hW hN
  refine ⟨out, ?_, by rw [o2, q3, hP], ?_, ?_⟩
  · unfold Expand.Pipeline.seqStep
    simp only [hcl, o1]
    rfl
  · intro j hj
    rw [o3 j hj]
    exact getElem?_eq_cget (q4 j hj)
  · unfold keptOf at *
    rw [o4, q1]
    unfold modelCore core keptOf
    simp only [hr0, List.headD_cons]

end UBidi.Lemmas.C01Compose
