/-
  UBidi.Lemmas.ExpandExplicitPrep — the prepare stage (`isolatingRunSequences`) commutes with
  expansion: list layer (`ex ls`, `ps ls`), fast path and general path.
-/
import UBidi.Lemmas.ExpandExplicitBase
namespace UBidi.Expand
open UBidi UBidi.BidiClass

/-- a run of characters as a run of units -/
def mr (ls : List Nat) (r : Nat × Nat) : Nat × Nat := (ps ls r.1, ps ls r.2)

/-- a sequence of character runs as a sequence of unit runs -/
def mseq (ls : List Nat) (s : IRSeq) : IRSeq := { s with runs := s.runs.map (mr ls) }

theorem AllPos.take {ls : List Nat} (h : AllPos ls) (k : Nat) : AllPos (ls.take k) :=
  fun l hl => h l (List.mem_of_mem_take hl)
theorem AllPos.drop {ls : List Nat} (h : AllPos ls) (k : Nat) : AllPos (ls.drop k) :=
  fun l hl => h l (List.mem_of_mem_drop hl)
theorem AllPos.slice {ls : List Nat} (h : AllPos ls) (a b : Nat) : AllPos (slice ls a b) :=
  (h.drop a).take (b - a)
theorem AllPos.reverse {ls : List Nat} (h : AllPos ls) : AllPos ls.reverse :=
  fun l hl => h l (by simpa using hl)

theorem ps_take (ls : List Nat) {k a : Nat} (h : k ≤ a) : ps (ls.take a) k = ps ls k := by
  unfold ps; rw [List.take_take, Nat.min_eq_left h]

theorem slice_length {α : Type} (xs : List α) (a b : Nat) : (slice xs a b).length = min (b - a) (xs.length - a) := by
  simp [slice]

/-! ### levels before and after a run -/

/-- level of the nearest non-removed entry before `a` -/
def predLv (pl : Nat) (ocs : List BidiClass) (lv : List Nat) (a : Nat) : Nat :=
  match rposition notRemoved (ocs.take a) with
  | some idx => lv.getD idx 0
  | none => pl

/-- level of the nearest non-removed entry from `b` on -/
def succLv (pl : Nat) (ocs : List BidiClass) (lv : List Nat) (b : Nat) : Nat :=
  match (ocs.drop b).findIdx? notRemoved with
  | some idx => lv.getD (b + idx) 0
  | none => pl

section
variable (ls : List Nat) (hp : AllPos ls) (pl : Nat) (ocs : List BidiClass) (lv : List Nat)
  (ho : ocs.length = ls.length) (hv : lv.length = ls.length)
include hp ho hv

theorem predLv_ex (a : Nat) : predLv pl (ex ls ocs) (ex ls lv) (ps ls a) = predLv pl ocs lv a := by
  unfold predLv
  rw [ex_take, ex_rposition _ (hp.take a) _ (by simp [ho])]
  cases h : rposition notRemoved (ocs.take a) with
  | none => rfl
  | some k =>
    have hk := rposition_lt h
    simp only [List.length_take] at hk
    simp only [Option.map_some]
    rw [ps_take ls (by omega), ex_getD_last ls hp lv k (by omega)]

theorem succLv_ex (b : Nat) : succLv pl (ex ls ocs) (ex ls lv) (ps ls b) = succLv pl ocs lv b := by
  unfold succLv
  rw [ex_drop, ex_findIdx? _ (hp.drop b) _ (by simp [ho])]
  cases h : (ocs.drop b).findIdx? notRemoved with
  | none => rfl
  | some k =>
    simp only [Option.map_some]
    rw [← ps_add, ex_getD ls hp lv hv]

omit hv in
theorem lastNR_ex (e : Nat) :
    ((ex ls ocs).take (ps ls e)).reverse.find? notRemoved = (ocs.take e).reverse.find? notRemoved := by
  rw [ex_take, ex_reverse _ _ (by simp [ho]), ex_find? _ (hp.take e).reverse _ (by simp [ho])]

omit hv in
theorem sliceLastNR_ex (a b : Nat) (h : a ≤ b) :
    (slice (ex ls ocs) (ps ls a) (ps ls b)).reverse.find? notRemoved =
      (slice ocs a b).reverse.find? notRemoved := by
  rw [ex_slice _ _ _ _ h, ex_reverse _ _ (by simp [slice_length, ho]),
    ex_find? _ (hp.slice a b).reverse _ (by simp [slice_length, ho])]

end

/-! ### first / last non-removed entry inside a run (fast path) -/

theorem firstLv_ex {α β : Type} (ls : List Nat) (hp : AllPos ls) (cs : List α) (lv : List β) (hc : cs.length = ls.length)
    (hv : lv.length = ls.length) (p : α → Bool) (d : β) :
    (ex ls lv).getD (((ex ls cs).findIdx? p).getD 0) d = lv.getD ((cs.findIdx? p).getD 0) d := by
  rw [ex_findIdx? ls hp cs hc]
  cases cs.findIdx? p with
  | none =>
    have := ex_getD ls hp lv hv 0 d
    simpa using this
  | some k => simpa using ex_getD ls hp lv hv k d

theorem lastLv_ex {α β : Type} (ls : List Nat) (hp : AllPos ls) (cs : List α) (lv : List β) (hc : cs.length = ls.length)
    (p : α → Bool) (d : β) (m : Nat) (hm : m < ls.length) :
    (ex ls lv).getD ((rposition p (ex ls cs)).getD (ps ls (m + 1) - 1)) d =
      lv.getD ((rposition p cs).getD m) d := by
  rw [ex_rposition ls hp cs hc]
  cases h : rposition p cs with
  | none => simpa using ex_getD_last ls hp lv m hm d
  | some k =>
    have hk := rposition_lt h
    simpa using ex_getD_last ls hp lv k (by omega) d

theorem seqOfRunFast_eq (pl : Nat) (ocs : List BidiClass) (lv : List Nat) (r : Nat × Nat) :
    seqOfRunFast pl ocs lv r =
      { runs := [r],
        sos := Level.bidiClass (max ((slice lv r.1 r.2).getD (((slice ocs r.1 r.2).findIdx? notRemoved).getD 0) 0)
                 (predLv pl ocs lv r.1)),
        eos := Level.bidiClass (max ((slice lv r.1 r.2).getD ((rposition notRemoved (slice ocs r.1 r.2)).getD (r.2 - r.1 - 1)) 0)
                 (succLv pl ocs lv r.2)) } := rfl

theorem ps_slice (ls : List Nat) (a b j : Nat) (hj : j ≤ b - a) : ps (slice ls a b) j = ps (ls.drop a) j := by
  unfold slice; exact ps_take _ hj

theorem seqOfRunFast_ex (ls : List Nat) (hp : AllPos ls) (pl : Nat) (ocs : List BidiClass) (lv : List Nat)
    (ho : ocs.length = ls.length) (hv : lv.length = ls.length) (r : Nat × Nat)
    (hr : r.1 < r.2 ∧ r.2 ≤ ls.length) :
    seqOfRunFast pl (ex ls ocs) (ex ls lv) (mr ls r) = mseq ls (seqOfRunFast pl ocs lv r) := by
  obtain ⟨a, b⟩ := r
  simp only at hr
  rw [seqOfRunFast_eq, seqOfRunFast_eq]
  simp only [mr, mseq, List.map_cons, List.map_nil]
  rw [predLv_ex ls hp pl ocs lv ho hv, succLv_ex ls hp pl ocs lv ho hv,
    ex_slice ls lv a b (by omega), ex_slice ls ocs a b (by omega),
    firstLv_ex _ (hp.slice a b) _ _ (by simp [slice_length, ho]) (by simp [slice_length, hv])]
  have hm : ps ls b - ps ls a - 1 = ps (slice ls a b) (b - a - 1 + 1) - 1 := by
    rw [ps_slice ls a b _ (by omega)]
    have := ps_add ls a (b - a)
    rw [show a + (b - a) = b by omega] at this
    rw [show b - a - 1 + 1 = b - a by omega]
    omega
  rw [hm, lastLv_ex _ (hp.slice a b) _ _ (by simp [slice_length, ho]) _ _ _
    (by simp [slice_length]; omega)]

/-! ### the unit indices of a sequence, character by character -/

/-- the unit indices of character `k` -/
def blk (ls : List Nat) (k : Nat) : List Nat := List.range' (ps ls k) (ps ls (k + 1) - ps ls k)

theorem range_blocks (ls : List Nat) (a j : Nat) :
    List.range' (ps ls a) (ps ls (a + j) - ps ls a) = (List.range' a j).flatMap (blk ls) := by
  induction j with
  | zero => simp
  | succ j ih =>
    have h1 : ps ls a ≤ ps ls (a + j) := ps_mono ls (by omega)
    have h2 : ps ls (a + j) ≤ ps ls (a + j + 1) := ps_mono ls (by omega)
    rw [List.range'_concat, List.flatMap_append, ← ih, ← Nat.add_assoc]
    simp only [List.flatMap_cons, List.flatMap_nil, List.append_nil, Nat.one_mul, blk]
    rw [show ps ls (a + j + 1) - ps ls a = (ps ls (a + j) - ps ls a) + (ps ls (a + j + 1) - ps ls (a + j)) by omega,
      ← List.range'_append]
    simp only [Nat.one_mul]
    rw [show ps ls a + (ps ls (a + j) - ps ls a) = ps ls (a + j) by omega]

theorem runIndices_mr (ls : List Nat) (r : Nat × Nat) (h : r.1 ≤ r.2) :
    runIndices (mr ls r) = (runIndices r).flatMap (blk ls) := by
  obtain ⟨a, b⟩ := r
  simp only at h
  obtain ⟨j, rfl⟩ := Nat.exists_eq_add_of_le h
  simp only [runIndices, mr]
  rw [range_blocks]
  simp

theorem indices_mr (ls : List Nat) (runs : List (Nat × Nat)) (h : ∀ r ∈ runs, r.1 ≤ r.2) :
    (runs.map (mr ls)).flatMap runIndices = (runs.flatMap runIndices).flatMap (blk ls) := by
  induction runs with
  | nil => rfl
  | cons r rs ih =>
    simp only [List.map_cons, List.flatMap_cons, List.flatMap_append]
    rw [runIndices_mr ls r (h r (by simp)), ih (fun x hx => h x (by simp [hx]))]

theorem mem_indices {runs : List (Nat × Nat)} {n k : Nat} (h : RunsIn n runs)
    (hk : k ∈ runs.flatMap runIndices) : k < n := by
  simp only [List.mem_flatMap, runIndices, List.mem_range'_1] at hk
  obtain ⟨r, hr, h1, h2⟩ := hk
  have := h r hr
  omega

/-- first hit in a list of blocks on which the predicate is constant -/
theorem find?_blocks (ls : List Nat) (hp : AllPos ls) (q q1 : Nat → Bool)
    (hq : ∀ k (hk : k < ls.length) j, j < ls[k] → q (ps ls k + j) = q1 k) (xs : List Nat)
    (hx : ∀ k ∈ xs, k < ls.length) :
    (xs.flatMap (blk ls)).find? q = (xs.find? q1).map (ps ls) := by
  induction xs with
  | nil => rfl
  | cons k xs ih =>
    have hk := hx k (by simp)
    have h0 := hp _ (List.getElem_mem hk)
    have ih' := ih (fun x hx' => hx x (by simp [hx']))
    simp only [List.flatMap_cons, List.find?_append, List.find?_cons, ih']
    have hb : blk ls k = List.range' (ps ls k) ls[k] := by
      unfold blk; rw [ps_succ ls k hk]; congr 1; omega
    by_cases hq1 : q1 k = true
    · have : (blk ls k).find? q = some (ps ls k) := by
        rw [hb]
        obtain ⟨m, hm⟩ : ∃ m, ls[k] = m + 1 := ⟨ls[k] - 1, by omega⟩
        have := hq k hk 0 h0
        rw [hm, List.range'_succ, List.find?_cons]
        simp only [Nat.add_zero] at this
        simp [this, hq1]
      simp [this, hq1]
    · have : (blk ls k).find? q = none := by
        rw [hb, List.find?_eq_none]
        intro y hy
        simp only [List.mem_range'_1] at hy
        have := hq k hk (y - ps ls k) (by omega)
        rw [show ps ls k + (y - ps ls k) = y by omega] at this
        simp [this, hq1]
      simp [this, hq1]

/-- first hit, walking the blocks back to front -/
theorem find?_rblocks (ls : List Nat) (hp : AllPos ls) (q q1 : Nat → Bool)
    (hq : ∀ k (hk : k < ls.length) j, j < ls[k] → q (ps ls k + j) = q1 k) (xs : List Nat)
    (hx : ∀ k ∈ xs, k < ls.length) :
    (xs.flatMap (List.reverse ∘ blk ls)).find? q = (xs.find? q1).map (fun k => ps ls (k + 1) - 1) := by
  induction xs with
  | nil => rfl
  | cons k xs ih =>
    have hk := hx k (by simp)
    have h0 := hp _ (List.getElem_mem hk)
    have ih' := ih (fun x hx' => hx x (by simp [hx']))
    simp only [List.flatMap_cons, List.find?_append, List.find?_cons, ih', Function.comp]
    have hb : blk ls k = List.range' (ps ls k) ls[k] := by
      unfold blk; rw [ps_succ ls k hk]; congr 1; omega
    by_cases hq1 : q1 k = true
    · have : (blk ls k).reverse.find? q = some (ps ls (k + 1) - 1) := by
        rw [hb]
        obtain ⟨m, hm⟩ : ∃ m, ls[k] = m + 1 := ⟨ls[k] - 1, by omega⟩
        have := hq k hk m (by omega)
        rw [ps_succ ls k hk, hm, List.range'_concat, List.reverse_append, List.reverse_singleton,
          List.singleton_append, List.find?_cons]
        simp only [Nat.one_mul, this, hq1]
        simp
      simp [this, hq1]
    · have : (blk ls k).reverse.find? q = none := by
        rw [hb, List.find?_eq_none]
        intro y hy
        simp only [List.mem_reverse, List.mem_range'_1] at hy
        have := hq k hk (y - ps ls k) (by omega)
        rw [show ps ls k + (y - ps ls k) = y by omega] at this
        simp [this, hq1]
      simp [this, hq1]

theorem getD_unit (ls : List Nat) (ocs : List BidiClass) (k : Nat) (hk : k < ls.length) (j : Nat) (hj : j < ls[k]) :
    notRemoved ((ex ls ocs).getD (ps ls k + j) ON) = notRemoved (ocs.getD k ON) := by
  simp [List.getD_eq_getElem?_getD, ex_getElem? ls ocs k j hk hj]

/-! ### sos / eos of a sequence (general path) -/

theorem seqBounds_cons (pl : Nat) (ocs : List BidiClass) (lv : List Nat) (r0 : Nat × Nat) (rest : List (Nat × Nat)) :
    seqBounds pl ocs lv (r0 :: rest) =
      ({ runs := r0 :: rest,
         sos := Level.bidiClass (max
           (lv.getD ((((r0 :: rest).flatMap runIndices).find? (fun i => notRemoved (ocs.getD i ON))).getD r0.1) 0)
           (predLv pl ocs lv r0.1)),
         eos := Level.bidiClass (max
           (lv.getD ((((r0 :: rest).flatMap runIndices).reverse.find? (fun i => notRemoved (ocs.getD i ON))).getD
              ((((r0 :: rest).getLast?.getD r0).2) - 1)) 0)
           (if (((ocs.take (((r0 :: rest).getLast?.getD r0).2)).reverse.find? notRemoved).getD BN).isIsolateInitiator
            then pl else succLv pl ocs lv (((r0 :: rest).getLast?.getD r0).2))) }, none) := rfl

theorem getLast?_getD_map {α β : Type} (f : α → β) (xs : List α) (d : α) :
    (xs.map f).getLast?.getD (f d) = f (xs.getLast?.getD d) := by
  rw [List.getLast?_map]; cases xs.getLast? <;> rfl

theorem getLast?_getD_mem {α : Type} (x : α) (xs : List α) : (x :: xs).getLast?.getD x ∈ x :: xs := by
  cases h : (x :: xs).getLast? with
  | none => simp
  | some y => exact List.mem_of_getLast? h

theorem seqBounds_ex (ls : List Nat) (hp : AllPos ls) (pl : Nat) (ocs : List BidiClass) (lv : List Nat)
    (ho : ocs.length = ls.length) (hv : lv.length = ls.length) (runs : List (Nat × Nat))
    (hr : RunsIn ls.length runs) :
    seqBounds pl (ex ls ocs) (ex ls lv) (runs.map (mr ls)) =
      (mseq ls (seqBounds pl ocs lv runs).1, (seqBounds pl ocs lv runs).2) := by
  cases runs with
  | nil => rfl
  | cons r0 rest =>
    rw [seqBounds_cons, List.map_cons, seqBounds_cons, ← List.map_cons, getLast?_getD_map]
    have hle : ∀ r ∈ r0 :: rest, r.1 ≤ r.2 := fun r h => by have := hr r h; omega
    have hlast := hr _ (getLast?_getD_mem r0 rest)
    generalize ((r0 :: rest).getLast?.getD r0) = rl at hlast
    have hq := getD_unit ls ocs
    have hx : ∀ k ∈ (r0 :: rest).flatMap runIndices, k < ls.length := fun k hk => mem_indices hr hk
    rw [indices_mr ls _ hle, find?_blocks ls hp _ (fun k => notRemoved (ocs.getD k ON)) hq _ hx,
      List.reverse_flatMap,
      find?_rblocks ls hp _ (fun k => notRemoved (ocs.getD k ON)) hq _ (fun k hk => hx k (List.mem_reverse.1 hk))]
    simp only [mr, mseq]
    rw [predLv_ex ls hp pl ocs lv ho hv, succLv_ex ls hp pl ocs lv ho hv]
    simp only [lastNR_ex ls hp ocs ho]
    have h1 : (ex ls lv).getD ((Option.map (ps ls) (List.find? (fun k => notRemoved (ocs.getD k ON))
          ((r0 :: rest).flatMap runIndices))).getD (ps ls r0.1)) 0 =
        lv.getD ((List.find? (fun k => notRemoved (ocs.getD k ON)) ((r0 :: rest).flatMap runIndices)).getD r0.1) 0 := by
      cases List.find? (fun k => notRemoved (ocs.getD k ON)) ((r0 :: rest).flatMap runIndices) with
      | none => simpa using ex_getD ls hp lv hv r0.1 0
      | some k => simpa using ex_getD ls hp lv hv k 0
    have h2 : (ex ls lv).getD ((Option.map (fun k => ps ls (k + 1) - 1) (List.find? (fun k => notRemoved (ocs.getD k ON))
          ((r0 :: rest).flatMap runIndices).reverse)).getD (ps ls rl.2 - 1)) 0 =
        lv.getD ((List.find? (fun k => notRemoved (ocs.getD k ON)) ((r0 :: rest).flatMap runIndices).reverse).getD (rl.2 - 1)) 0 := by
      cases h : List.find? (fun k => notRemoved (ocs.getD k ON)) ((r0 :: rest).flatMap runIndices).reverse with
      | none =>
        have := ex_getD_last ls hp lv (rl.2 - 1) (by omega) 0
        rw [show rl.2 - 1 + 1 = rl.2 by omega] at this
        simpa using this
      | some k =>
        have hk := hx k (List.mem_reverse.1 (List.mem_of_find?_eq_some h))
        simpa using ex_getD_last ls hp lv k hk 0
    rw [h1, h2]

/-! ### the general path: grouping level runs into sequences -/

/-- the grouping state with every run mapped to unit positions -/
def mst (ls : List Nat) (st : PrepState) : PrepState :=
  { stack := st.stack.map (List.map (mr ls)), done := st.done.map (List.map (mr ls)), err := st.err }

theorem head!_map {α β : Type} [Inhabited α] [Inhabited β] (f : α → β) (xs : List α) (h : xs ≠ []) :
    (xs.map f).head! = f xs.head! := by
  cases xs with
  | nil => exact absurd rfl h
  | cons x xs => rfl

theorem prepStep_ex (ls : List Nat) (hp : AllPos ls) (ocs : List BidiClass) (ho : ocs.length = ls.length)
    (st : PrepState) (r : Nat × Nat) (hr : r.1 < r.2 ∧ r.2 ≤ ls.length) :
    prepStep (ex ls ocs) (mst ls st) (mr ls r) = mst ls (prepStep ocs st r) := by
  obtain ⟨a, b⟩ := r
  simp only at hr
  have hs := ex_getD ls hp ocs ho a ON
  have he := sliceLastNR_ex ls hp ocs ho a b (by omega)
  have hlt : ps ls a < ps ls b := ps_lt ls hp hr.1 hr.2
  unfold prepStep
  simp only [mr, mst, hs, he, hlt, hr.1, List.length_map, List.isEmpty_map, decide_true, Bool.true_and]
  by_cases c1 : (ocs.getD a ON == PDI && decide (st.stack.length > 1)) = true
  · have hne : st.stack ≠ [] := by
      intro h; simp [h] at c1
    simp only [c1, if_true, head!_map _ _ hne]
    split <;> simp [mr]
  · simp only [c1]
    split <;> simp [mr]

/-- every run held by the grouping state is a run of `[0, n)` -/
def SeqsIn (n : Nat) (st : PrepState) : Prop :=
  (∀ seq ∈ st.stack, RunsIn n seq) ∧ (∀ seq ∈ st.done, RunsIn n seq)

theorem runsIn_snoc {n : Nat} {seq : List (Nat × Nat)} {r : Nat × Nat} (h : RunsIn n seq)
    (hr : r.1 < r.2 ∧ r.2 ≤ n) : RunsIn n (seq ++ [r]) := by
  intro x hx
  rcases List.mem_append.1 hx with hx | hx
  · exact h x hx
  · rw [List.mem_singleton.1 hx]; exact hr

theorem prepStep_seqsIn (n : Nat) (ocs : List BidiClass) (st : PrepState) (r : Nat × Nat)
    (h : SeqsIn n st) (hr : r.1 < r.2 ∧ r.2 ≤ n) : SeqsIn n (prepStep ocs st r) := by
  unfold prepStep
  simp only []
  have hnil : RunsIn n ([] ++ [r]) := runsIn_snoc (fun x hx => by simp at hx) hr
  by_cases c1 : (ocs.getD r.1 ON == PDI && decide (st.stack.length > 1)) = true
  · have hne : st.stack ≠ [] := by
      intro h; simp [h] at c1
    obtain ⟨top, rest, hst⟩ := List.exists_cons_of_ne_nil hne
    have htop : RunsIn n (top ++ [r]) := runsIn_snoc (h.1 top (by simp [hst])) hr
    have hrest : ∀ seq ∈ rest, RunsIn n seq := fun seq hs => h.1 seq (by simp [hst, hs])
    rw [hst] at c1
    simp only [hst, c1, if_true, List.head!, List.tail_cons]
    split
    · refine ⟨?_, h.2⟩
      intro seq hs
      rcases List.mem_cons.1 hs with rfl | hs
      · exact htop
      · exact hrest seq hs
    · refine ⟨hrest, ?_⟩
      intro seq hs
      rcases List.mem_append.1 hs with hs | hs
      · exact h.2 seq hs
      · rw [List.mem_singleton.1 hs]; exact htop
  · simp only [c1]
    split
    · refine ⟨?_, h.2⟩
      intro seq hs
      rcases List.mem_cons.1 hs with rfl | hs
      · exact hnil
      · exact h.1 seq hs
    · refine ⟨h.1, ?_⟩
      intro seq hs
      rcases List.mem_append.1 hs with hs | hs
      · exact h.2 seq hs
      · rw [List.mem_singleton.1 hs]; exact hnil

theorem fold_prep_ex (ls : List Nat) (hp : AllPos ls) (ocs : List BidiClass) (ho : ocs.length = ls.length) :
    ∀ (runs : List (Nat × Nat)) (st : PrepState), RunsIn ls.length runs → SeqsIn ls.length st →
      (runs.map (mr ls)).foldl (prepStep (ex ls ocs)) (mst ls st) = mst ls (runs.foldl (prepStep ocs) st) ∧
      SeqsIn ls.length (runs.foldl (prepStep ocs) st)
  | [], st, _, hs => ⟨rfl, hs⟩
  | r :: runs, st, hr, hs => by
    have hr0 := hr r (by simp)
    simp only [List.map_cons, List.foldl_cons]
    rw [prepStep_ex ls hp ocs ho st r hr0]
    exact fold_prep_ex ls hp ocs ho runs _ (fun x hx => hr x (by simp [hx]))
      (prepStep_seqsIn _ ocs st r hs hr0)

/-- prepare stage, list layer -/
theorem irs_ex (ls : List Nat) (hp : AllPos ls) (pl : Nat) (ocs : List BidiClass) (lv : List Nat)
    (ho : ocs.length = ls.length) (hv : lv.length = ls.length) (runs : List (Nat × Nat)) (hasIso : Bool)
    (hr : RunsIn ls.length runs) :
    isolatingRunSequences pl (ex ls ocs) (ex ls lv) (runs.map (mr ls)) hasIso =
      ((isolatingRunSequences pl ocs lv runs hasIso).1.map (mseq ls),
       (isolatingRunSequences pl ocs lv runs hasIso).2) := by
  cases hasIso with
  | false =>
    simp only [isolatingRunSequences, Bool.not_false, if_true, List.map_map]
    congr 1
    apply List.map_congr_left
    intro r hrm
    exact seqOfRunFast_ex ls hp pl ocs lv ho hv r (hr r hrm)
  | true =>
    have hs0 : SeqsIn ls.length { stack := [[]], done := [] } := by
      constructor
      · intro seq hs
        simp only [List.mem_singleton] at hs
        subst hs
        intro x hx; simp at hx
      · intro seq hs; simp at hs
    obtain ⟨hf, hin⟩ := fold_prep_ex ls hp ocs ho runs _ hr hs0
    have hf' : (runs.map (mr ls)).foldl (prepStep (ex ls ocs)) { stack := [[]], done := [] } =
        mst ls (runs.foldl (prepStep ocs) { stack := [[]], done := [] }) := hf
    simp only [isolatingRunSequences, Bool.not_true, Bool.false_eq_true, if_false]
    rw [hf']
    generalize runs.foldl (prepStep ocs) { stack := [[]], done := [] } = st at hin
    have hseqs : (mst ls st).done ++ (mst ls st).stack.filter (fun s => !s.isEmpty) =
        (st.done ++ st.stack.filter (fun s => !s.isEmpty)).map (List.map (mr ls)) := by
      simp only [mst, List.map_append, List.filter_map]
      congr 2
      apply List.filter_congr
      intro x _
      simp
    have hrs : ((st.done ++ st.stack.filter (fun s => !s.isEmpty)).map (List.map (mr ls))).map
          (seqBounds pl (ex ls ocs) (ex ls lv)) =
        ((st.done ++ st.stack.filter (fun s => !s.isEmpty)).map (seqBounds pl ocs lv)).map
          (fun r => (mseq ls r.1, r.2)) := by
      rw [List.map_map, List.map_map]
      apply List.map_congr_left
      intro seq hs
      have hin' : RunsIn ls.length seq := by
        rcases List.mem_append.1 hs with hs | hs
        · exact hin.2 seq hs
        · exact hin.1 seq (List.mem_filter.1 hs).1
      exact seqBounds_ex ls hp pl ocs lv ho hv seq hin'
    rw [hseqs, hrs]
    simp only [List.map_map, List.foldl_map, mst]
    rfl

end UBidi.Expand
