/-
  C11 helpers, part 1: the reachable-state invariant `ExInv` of the Model's explicit
  machine (`exChar`), its preservation, and the consequences for `explicitCompute`
  and `resolveLevels`.
-/
import UBidi.Model.Explicit
import UBidi.Model.Implicit
import UBidi.Props.C19
namespace UBidi.Props.C11
open UBidi UBidi.BidiClass

/-! ### the invariant -/

/-- number of `.isolate` entries of a stack -/
def isoCount : List Status → Nat
  | [] => 0
  | s :: rest => (if s.status = .isolate then 1 else 0) + isoCount rest

theorem isoCount_cons (s : Status) (rest : List Status) :
    isoCount (s :: rest) = (if s.status = .isolate then 1 else 0) + isoCount rest := rfl

/-- shape of a reachable stack (top first): non-empty, the bottom entry is
    `⟨pl, .neutral⟩`, levels strictly increase towards the top, every pushed level is ≤ 125 -/
def StackOK (pl : Nat) : List Status → Prop
  | [] => False
  | [b] => b = ⟨pl, .neutral⟩
  | a :: b :: rest => b.level < a.level ∧ a.level ≤ 125 ∧ StackOK pl (b :: rest)

instance StackOK.dec (pl : Nat) : (st : List Status) → Decidable (StackOK pl st)
  | [] => isFalse (by simp [StackOK])
  | [b] => by unfold StackOK; exact inferInstance
  | a :: b :: rest =>
    have := StackOK.dec pl (b :: rest)
    by unfold StackOK; exact inferInstance

/-- reachable-state invariant of the Model's explicit machine -/
structure ExInv (pl : Nat) (stack : List Status) (oi oe vi : Nat) : Prop where
  /-- the paragraph level is 0 or 1 -/
  pl_le : pl ≤ 1
  /-- stack non-empty, bottom `⟨pl, .neutral⟩`, strictly increasing, all ≤ 125 -/
  ok : StackOK pl stack
  /-- `valid_isolate_count` is the number of isolate entries of the stack -/
  vi_eq : vi = isoCount stack

instance (pl stack oi oe vi) : Decidable (ExInv pl stack oi oe vi) :=
  if h : pl ≤ 1 ∧ StackOK pl stack ∧ vi = isoCount stack then isTrue ⟨h.1, h.2.1, h.2.2⟩
  else isFalse (fun hi => h ⟨hi.pl_le, hi.ok, hi.vi_eq⟩)

theorem StackOK.ne_nil {pl st} (h : StackOK pl st) : st ≠ [] := by
  cases st <;> simp_all [StackOK]

/-- every entry of a reachable stack has a level in `[pl, 125]` (for `pl ≤ 125`) -/
theorem StackOK.levels {pl : Nat} (hpl : pl ≤ 125) :
    ∀ {st : List Status}, StackOK pl st → ∀ s ∈ st, pl ≤ s.level ∧ s.level ≤ 125
  | [], h => by simp [StackOK] at h
  | [b], h => by
    simp only [StackOK] at h; subst h
    intro s hs; simp at hs; subst hs; exact ⟨Nat.le_refl _, hpl⟩
  | a :: b :: rest, h => by
    simp only [StackOK] at h
    have ih := StackOK.levels hpl h.2.2
    intro s hs
    rcases List.mem_cons.1 hs with rfl | hs
    · have := ih b (by simp); omega
    · exact ih s hs

/-- the bottom entry is `⟨pl, .neutral⟩` -/
theorem StackOK.bottom {pl : Nat} :
    ∀ {st : List Status}, StackOK pl st → st.getLast? = some ⟨pl, .neutral⟩
  | [], h => by simp [StackOK] at h
  | [b], h => by simp only [StackOK] at h; subst h; rfl
  | a :: b :: rest, h => by
    simp only [StackOK] at h
    have ih := StackOK.bottom h.2.2
    simpa [List.getLast?_cons_cons] using ih

/-- levels strictly increase towards the top -/
theorem StackOK.increasing {pl : Nat} :
    ∀ {st : List Status}, StackOK pl st → List.Pairwise (fun a b => b.level < a.level) st
  | [], h => by simp [StackOK] at h
  | [b], _ => by simp
  | a :: b :: rest, h => by
    simp only [StackOK] at h
    have ih := StackOK.increasing h.2.2
    refine List.Pairwise.cons ?_ ih
    intro c hc
    rcases List.mem_cons.1 hc with rfl | hc
    · exact h.1
    · have := (List.pairwise_cons.1 ih).1 c hc; omega

/-- a PDI with `vi > 0` finds an isolate entry: popping through it keeps the stack well
    shaped (in particular non-empty) and removes exactly one isolate entry -/
theorem StackOK.pop {pl : Nat} :
    ∀ {st : List Status}, StackOK pl st → 0 < isoCount st →
      StackOK pl (popThroughIsolate st) ∧ isoCount (popThroughIsolate st) = isoCount st - 1
  | [], h, _ => by simp [StackOK] at h
  | [b], h, hc => by simp only [StackOK] at h; subst h; simp [isoCount] at hc
  | a :: b :: rest, h, hc => by
    simp only [StackOK] at h
    by_cases ha : a.status = .isolate
    · simp [popThroughIsolate, isoCount, ha, h.2.2]
    · have hc' : 0 < isoCount (b :: rest) := by simpa [isoCount, ha] using hc
      have ih := StackOK.pop h.2.2 hc'
      rw [show popThroughIsolate (a :: b :: rest) = popThroughIsolate (b :: rest) by
        simp [popThroughIsolate, ha]]
      refine ⟨ih.1, ?_⟩
      rw [ih.2]; simp [isoCount, ha]

/-! ### the level constructors -/

theorem nextRtl_some {l nl : Nat} (h : Level.newExplicitNextRtl l = some nl) : l < nl ∧ nl ≤ 125 := by
  rw [C19.newExplicitNextRtl_spec] at h
  have := (C19.nextRtlRaw_spec l).2.1
  split at h <;> simp at h; omega

theorem nextLtr_some {l nl : Nat} (h : Level.newExplicitNextLtr l = some nl) : l < nl ∧ nl ≤ 125 := by
  rw [C19.newExplicitNextLtr_spec] at h
  have := (C19.nextLtrRaw_spec l).2.1
  split at h <;> simp at h; omega

/-! ### `exChar` case by case -/

/-- RLE, LRE, RLO, LRO -/
def isEmb : BidiClass → Bool
  | RLE | LRE | RLO | LRO => true
  | _ => false

/-- not an explicit formatting character and not B -/
def isPlain : BidiClass → Bool
  | RLE | LRE | RLO | LRO | RLI | LRI | FSI | PDI | PDF | B => false
  | _ => true

/-- the level an initiator asks for (`none`: beyond 125) -/
def nextLevel (oc : BidiClass) (l : Nat) : Option Nat :=
  if oc.isRtlInitiator then Level.newExplicitNextRtl l else Level.newExplicitNextLtr l

/-- the status an initiator pushes -/
def pushStatus : BidiClass → OStatus
  | RLO => .rtl | LRO => .ltr | RLI | LRI | FSI => .isolate | _ => .neutral

theorem class_cases (oc : BidiClass) :
    isEmb oc = true ∨ oc.isIsolateInitiator = true ∨ oc = PDI ∨ oc = PDF ∨ oc = B ∨ isPlain oc = true := by
  cases oc <;> simp [isEmb, isPlain, isIsolateInitiator]

variable {pl : Nat} {last : Status} {rest : List Status} {oi oe vi : Nat} {oc : BidiClass}

theorem exChar_emb_push {nl : Nat} (hoc : isEmb oc = true) (hnl : nextLevel oc last.level = some nl) :
    exChar pl (last :: rest) 0 0 vi oc =
      { stack := ⟨nl, pushStatus oc⟩ :: last :: rest, oi := 0, oe := 0, vi := vi, level := nl, pc := BN, err := none } := by
  cases oc <;> simp [isEmb] at hoc <;>
    simp [nextLevel, isRtlInitiator] at hnl <;> simp [exChar, isRtlInitiator, isIsolateInitiator, hnl, pushStatus]

theorem exChar_emb_overflow (hoc : isEmb oc = true)
    (h : nextLevel oc last.level = none ∨ oi ≠ 0 ∨ oe ≠ 0) :
    exChar pl (last :: rest) oi oe vi oc =
      { stack := last :: rest, oi := oi, oe := if oi = 0 then oe + 1 else oe, vi := vi,
        level := last.level, pc := BN, err := none } := by
  cases oc <;> simp [isEmb] at hoc <;> simp [nextLevel, isRtlInitiator] at h <;>
    simp only [exChar, isRtlInitiator, isIsolateInitiator] <;> split <;> simp <;> grind


theorem exChar_iso_push {nl : Nat} (hoc : oc.isIsolateInitiator = true) (hnl : nextLevel oc last.level = some nl) :
    exChar pl (last :: rest) 0 0 vi oc =
      { stack := ⟨nl, .isolate⟩ :: last :: rest, oi := 0, oe := 0, vi := vi + 1, level := last.level,
        pc := applyOverride last.status oc, err := none } := by
  cases oc <;> simp [isIsolateInitiator] at hoc <;>
    simp [nextLevel, isRtlInitiator] at hnl <;> simp [exChar, isRtlInitiator, isIsolateInitiator, hnl]

theorem exChar_iso_overflow (hoc : oc.isIsolateInitiator = true)
    (h : nextLevel oc last.level = none ∨ oi ≠ 0 ∨ oe ≠ 0) :
    exChar pl (last :: rest) oi oe vi oc =
      { stack := last :: rest, oi := oi + 1, oe := oe, vi := vi,
        level := last.level, pc := applyOverride last.status oc, err := none } := by
  cases oc <;> simp [isIsolateInitiator] at hoc <;> simp [nextLevel, isRtlInitiator] at h <;>
    simp only [exChar, isRtlInitiator, isIsolateInitiator] <;> split <;> simp <;> grind

theorem exChar_PDI_overflow (h : 0 < oi) :
    exChar pl (last :: rest) oi oe vi PDI =
      { stack := last :: rest, oi := oi - 1, oe := oe, vi := vi,
        level := last.level, pc := applyOverride last.status PDI, err := none } := by
  simp [exChar, h]

theorem exChar_PDI_unmatched :
    exChar pl (last :: rest) 0 oe 0 PDI =
      { stack := last :: rest, oi := 0, oe := oe, vi := 0,
        level := last.level, pc := applyOverride last.status PDI, err := none } := by
  simp [exChar]

theorem exChar_PDI_pop {l' : Status} {r' : List Status} (h : 0 < vi)
    (hp : popThroughIsolate (last :: rest) = l' :: r') :
    exChar pl (last :: rest) 0 oe vi PDI =
      { stack := l' :: r', oi := 0, oe := 0, vi := vi - 1,
        level := l'.level, pc := applyOverride l'.status PDI, err := none } := by
  simp [exChar, h, hp]

theorem exChar_PDF_pop {l' : Status} {r' : List Status} (h : last.status ≠ .isolate) :
    exChar pl (last :: l' :: r') 0 0 vi PDF =
      { stack := l' :: r', oi := 0, oe := 0, vi := vi, level := l'.level, pc := BN, err := none } := by
  simp [exChar, h]

theorem exChar_PDF_dec (h : 0 < oe) :
    exChar pl (last :: rest) 0 oe vi PDF =
      { stack := last :: rest, oi := 0, oe := oe - 1, vi := vi, level := last.level, pc := BN, err := none } := by
  simp [exChar, h]

theorem exChar_PDF_ignored (h : 0 < oi ∨ (oe = 0 ∧ (last.status = .isolate ∨ rest = []))) :
    exChar pl (last :: rest) oi oe vi PDF =
      { stack := last :: rest, oi := oi, oe := oe, vi := vi, level := last.level, pc := BN, err := none } := by
  rcases h with h | ⟨h1, h2⟩
  · simp [exChar, h]
  · subst h1
    rcases h2 with h2 | h2
    · simp only [exChar]; split <;> simp_all
    · subst h2; simp only [exChar]; split <;> simp_all <;> split <;> simp_all

theorem exChar_B :
    exChar pl (last :: rest) oi oe vi B =
      { stack := last :: rest, oi := oi, oe := oe, vi := vi, level := pl, pc := B, err := none } := by
  simp [exChar]

theorem exChar_plain (h : isPlain oc = true) :
    exChar pl (last :: rest) oi oe vi oc =
      { stack := last :: rest, oi := oi, oe := oe, vi := vi, level := last.level,
        pc := if oc = BN then BN else applyOverride last.status oc, err := none } := by
  cases oc <;> simp [isPlain] at h <;> simp [exChar] <;> (intro h; exact absurd h (by decide))


/-! ### preservation -/

theorem nextLevel_some {l nl : Nat} (h : nextLevel oc l = some nl) : l < nl ∧ nl ≤ 125 := by
  unfold nextLevel at h; split at h
  · exact nextRtl_some h
  · exact nextLtr_some h

theorem pushStatus_emb (h : isEmb oc = true) : pushStatus oc ≠ .isolate := by
  cases oc <;> simp [isEmb] at h <;> simp [pushStatus]

theorem inv_step_cons (h : ExInv pl (last :: rest) oi oe vi) (oc : BidiClass) :
    ExInv pl (exChar pl (last :: rest) oi oe vi oc).stack (exChar pl (last :: rest) oi oe vi oc).oi
        (exChar pl (last :: rest) oi oe vi oc).oe (exChar pl (last :: rest) oi oe vi oc).vi ∧
      (exChar pl (last :: rest) oi oe vi oc).err = none ∧
      pl ≤ (exChar pl (last :: rest) oi oe vi oc).level ∧
      (exChar pl (last :: rest) oi oe vi oc).level ≤ 125 := by
  obtain ⟨hpl, hok, hvi⟩ := h
  have hl := StackOK.levels (by omega : pl ≤ 125) hok last (by simp)
  rcases class_cases oc with hc | hc | hc | hc | hc | hc
  · -- embedding initiator
    by_cases h0 : oi = 0 ∧ oe = 0
    · obtain ⟨rfl, rfl⟩ := h0
      cases hnl : nextLevel oc last.level with
      | none =>
        rw [exChar_emb_overflow hc (Or.inl hnl)]
        exact ⟨⟨hpl, hok, hvi⟩, rfl, hl.1, hl.2⟩
      | some nl =>
        have hn := nextLevel_some hnl
        rw [exChar_emb_push hc hnl]
        refine ⟨⟨hpl, ⟨hn.1, hn.2, hok⟩, ?_⟩, rfl, by simp only; omega, hn.2⟩
        rw [isoCount_cons]; simp only [pushStatus_emb hc, if_false, Nat.zero_add]; exact hvi
    · rw [exChar_emb_overflow hc (Or.inr (by omega))]
      exact ⟨⟨hpl, hok, hvi⟩, rfl, hl.1, hl.2⟩
  · -- isolate initiator
    by_cases h0 : oi = 0 ∧ oe = 0
    · obtain ⟨rfl, rfl⟩ := h0
      cases hnl : nextLevel oc last.level with
      | none =>
        rw [exChar_iso_overflow hc (Or.inl hnl)]
        exact ⟨⟨hpl, hok, hvi⟩, rfl, hl.1, hl.2⟩
      | some nl =>
        have hn := nextLevel_some hnl
        rw [exChar_iso_push hc hnl]
        refine ⟨⟨hpl, ⟨hn.1, hn.2, hok⟩, ?_⟩, rfl, hl.1, hl.2⟩
        have : isoCount (⟨nl, .isolate⟩ :: last :: rest) = 1 + isoCount (last :: rest) := by
          rw [isoCount_cons]; simp
        simp only; omega
    · rw [exChar_iso_overflow hc (Or.inr (by omega))]
      exact ⟨⟨hpl, hok, hvi⟩, rfl, hl.1, hl.2⟩
  · -- PDI
    subst hc
    by_cases hoi : 0 < oi
    · rw [exChar_PDI_overflow hoi]; exact ⟨⟨hpl, hok, hvi⟩, rfl, hl.1, hl.2⟩
    · have hoi0 : oi = 0 := by omega
      subst hoi0
      by_cases hv : 0 < vi
      · have hp := StackOK.pop hok (by omega : 0 < isoCount (last :: rest))
        match hs : popThroughIsolate (last :: rest), hp with
        | [], hp => exact absurd hp.1 (by simp [StackOK])
        | l' :: r', hp =>
          rw [exChar_PDI_pop hv hs]
          have hl' := StackOK.levels (by omega : pl ≤ 125) hp.1 l' (by simp)
          exact ⟨⟨hpl, hp.1, by rw [hp.2, hvi]⟩, rfl, hl'.1, hl'.2⟩
      · have hv0 : vi = 0 := by omega
        subst hv0
        rw [exChar_PDI_unmatched]; exact ⟨⟨hpl, hok, hvi⟩, rfl, hl.1, hl.2⟩
  · -- PDF
    subst hc
    by_cases hoi : 0 < oi
    · rw [exChar_PDF_ignored (Or.inl hoi)]; exact ⟨⟨hpl, hok, hvi⟩, rfl, hl.1, hl.2⟩
    · have hoi0 : oi = 0 := by omega
      subst hoi0
      by_cases hoe : 0 < oe
      · rw [exChar_PDF_dec hoe]; exact ⟨⟨hpl, hok, hvi⟩, rfl, hl.1, hl.2⟩
      · have hoe0 : oe = 0 := by omega
        subst hoe0
        by_cases hst : last.status = .isolate
        · rw [exChar_PDF_ignored (Or.inr ⟨rfl, Or.inl hst⟩)]; exact ⟨⟨hpl, hok, hvi⟩, rfl, hl.1, hl.2⟩
        · match rest, hok, hvi with
          | [], hok, hvi =>
            rw [exChar_PDF_ignored (Or.inr ⟨rfl, Or.inr rfl⟩)]; exact ⟨⟨hpl, hok, hvi⟩, rfl, hl.1, hl.2⟩
          | l' :: r', hok, hvi =>
            rw [exChar_PDF_pop hst]
            have hok' : StackOK pl (l' :: r') := hok.2.2
            have hl' := StackOK.levels (by omega : pl ≤ 125) hok' l' (by simp)
            refine ⟨⟨hpl, hok', ?_⟩, rfl, hl'.1, hl'.2⟩
            simpa [isoCount, hst] using hvi
  · subst hc; rw [exChar_B]; exact ⟨⟨hpl, hok, hvi⟩, rfl, Nat.le_refl _, by simp only; omega⟩
  · rw [exChar_plain hc]; exact ⟨⟨hpl, hok, hvi⟩, rfl, hl.1, hl.2⟩

theorem ExInv.cons {pl : Nat} {stack : List Status} {oi oe vi : Nat} (h : ExInv pl stack oi oe vi) :
    ∃ last rest, stack = last :: rest := by
  cases stack with
  | nil => exact absurd h.ok (by simp [StackOK])
  | cons a b => exact ⟨a, b, rfl⟩

end UBidi.Props.C11
