/-
  C04 helper lemmas, part 2: the inner loops of `reorder_visual`.
  `skipBelow` / `skipAtLeast` / `nextRange` find the next maximal chunk of
  positions whose level is at least `k`; one `rvPass` reverses every such chunk,
  i.e. it is `revRuns` on the result zipped with the (original) levels.
-/
import UBidi.Model.Reorder
import UBidi.Lemmas.C04Runs
namespace UBidi.Lemmas.C04
open UBidi

/-! ### monotonicity (enough for "permutation") -/

theorem skipBelow_ge (levels : List Nat) (k fuel i : Nat) : i ≤ skipBelow levels k fuel i := by
  induction fuel generalizing i with
  | zero => simp [skipBelow]
  | succ f ih =>
    unfold skipBelow
    split
    · split
      · exact Nat.le_refl _
      · exact Nat.le_trans (Nat.le_succ i) (ih (i + 1))
    · exact Nat.le_refl _

theorem skipAtLeast_ge (levels : List Nat) (k fuel i : Nat) : i ≤ skipAtLeast levels k fuel i := by
  induction fuel generalizing i with
  | zero => simp [skipAtLeast]
  | succ f ih =>
    unfold skipAtLeast
    split
    · split
      · exact Nat.le_refl _
      · exact Nat.le_trans (Nat.le_succ i) (ih (i + 1))
    · exact Nat.le_refl _

theorem nextRange_le (levels : List Nat) (pos k : Nat) :
    (nextRange levels pos k).1 ≤ (nextRange levels pos k).2 := by
  unfold nextRange
  split
  · exact Nat.le_refl _
  · simp only
    split
    · exact Nat.le_refl _
    · exact Nat.le_trans (Nat.le_succ _) (skipAtLeast_ge _ _ _ _)

theorem reverseRange_perm {α} (xs : List α) (a b : Nat) (h : a ≤ b) :
    List.Perm (reverseRange xs a b) xs := by
  unfold reverseRange slice
  have h1 : xs = xs.take a ++ ((xs.drop a).take (b - a) ++ xs.drop b) := by
    have : xs.drop b = (xs.drop a).drop (b - a) := by
      rw [List.drop_drop]; congr 1; omega
    rw [this, List.take_append_drop, List.take_append_drop]
  conv => rhs; rw [h1]
  rw [List.append_assoc]
  exact List.Perm.append_left _ (List.Perm.append_right _ (List.reverse_perm _))

theorem rvPass_perm (levels : List Nat) (k fuel pos : Nat) (result : List Nat) :
    List.Perm (rvPass levels k fuel pos result) result := by
  induction fuel generalizing pos result with
  | zero => exact List.Perm.refl _
  | succ f ih =>
    unfold rvPass
    simp only
    have hp := reverseRange_perm result _ _ (nextRange_le levels pos k)
    split
    · exact hp
    · exact (ih _ _).trans hp

/-! ### exact behaviour of the skipping loops -/

theorem skipBelow_spec (levels : List Nat) (k fuel i : Nat)
    (hi : i ≤ levels.length) (hf : levels.length - i ≤ fuel) :
    i ≤ skipBelow levels k fuel i ∧ skipBelow levels k fuel i ≤ levels.length ∧
    (∀ t, i ≤ t → t < skipBelow levels k fuel i → ∀ l, levels[t]? = some l → l < k) ∧
    (∀ l, levels[skipBelow levels k fuel i]? = some l → k ≤ l) := by
  induction fuel generalizing i with
  | zero =>
    have : i = levels.length := by omega
    subst this
    simp [skipBelow]
    intro t h1 h2; omega
  | succ f ih =>
    unfold skipBelow
    split
    · rename_i l hl
      have hlt : i < levels.length := by
        rcases List.getElem?_eq_some_iff.mp hl with ⟨h, _⟩; exact h
      split
      · rename_i hge
        refine ⟨Nat.le_refl _, hi, ?_, ?_⟩
        · intro t h1 h2; omega
        · intro l' hl'; rw [hl] at hl'; cases hl'; exact hge
      · rename_i hlt'
        have := ih (i + 1) (by omega) (by omega)
        refine ⟨by omega, this.2.1, ?_, this.2.2.2⟩
        intro t h1 h2 l' hl'
        by_cases ht : t = i
        · subst ht; rw [hl] at hl'; cases hl'; omega
        · exact this.2.2.1 t (by omega) h2 l' hl'
    · rename_i hn
      refine ⟨Nat.le_refl _, hi, ?_, ?_⟩
      · intro t h1 h2; omega
      · intro l' hl'; rw [hn] at hl'; cases hl'

theorem skipAtLeast_spec (levels : List Nat) (k fuel i : Nat)
    (hi : i ≤ levels.length) (hf : levels.length - i ≤ fuel) :
    i ≤ skipAtLeast levels k fuel i ∧ skipAtLeast levels k fuel i ≤ levels.length ∧
    (∀ t, i ≤ t → t < skipAtLeast levels k fuel i → ∀ l, levels[t]? = some l → k ≤ l) ∧
    (∀ l, levels[skipAtLeast levels k fuel i]? = some l → l < k) := by
  induction fuel generalizing i with
  | zero =>
    have : i = levels.length := by omega
    subst this
    simp [skipAtLeast]
    intro t h1 h2; omega
  | succ f ih =>
    unfold skipAtLeast
    split
    · rename_i l hl
      have hlt : i < levels.length := by
        rcases List.getElem?_eq_some_iff.mp hl with ⟨h, _⟩; exact h
      split
      · rename_i hge
        refine ⟨Nat.le_refl _, hi, ?_, ?_⟩
        · intro t h1 h2; omega
        · intro l' hl'; rw [hl] at hl'; cases hl'; exact hge
      · rename_i hlt'
        have := ih (i + 1) (by omega) (by omega)
        refine ⟨by omega, this.2.1, ?_, this.2.2.2⟩
        intro t h1 h2 l' hl'
        by_cases ht : t = i
        · subst ht; rw [hl] at hl'; cases hl'; omega
        · exact this.2.2.1 t (by omega) h2 l' hl'
    · rename_i hn
      refine ⟨Nat.le_refl _, hi, ?_, ?_⟩
      · intro t h1 h2; omega
      · intro l' hl'; rw [hn] at hl'; cases hl'

/-! ### slices -/

theorem drop_eq_slice_append {α} (xs : List α) (a b : Nat) (h : a ≤ b) :
    xs.drop a = slice xs a b ++ xs.drop b := by
  unfold slice
  have : xs.drop b = (xs.drop a).drop (b - a) := by
    rw [List.drop_drop]; congr 1; omega
  rw [this, List.take_append_drop]

theorem take_append_slice {α} (xs : List α) (a b : Nat) (h : a ≤ b) :
    xs.take a ++ slice xs a b = xs.take b := by
  unfold slice
  have hb : b = a + (b - a) := by omega
  conv => rhs; rw [hb, List.take_add]

theorem length_slice {α} (xs : List α) (a b : Nat) (h : b ≤ xs.length) :
    (slice xs a b).length = b - a := by
  unfold slice; simp; omega

theorem mem_slice {α} (xs : List α) (a b : Nat) (x : α) (h : x ∈ slice xs a b) :
    ∃ t, a ≤ t ∧ t < b ∧ xs[t]? = some x := by
  unfold slice at h
  rcases List.getElem_of_mem h with ⟨j, hj, hx⟩
  simp at hj
  refine ⟨a + j, by omega, by omega, ?_⟩
  simp at hx
  rw [← hx]; simp

/-! ### one pass -/

/-- reverse the runs of `xs` at the positions whose level (in `ls`) is at least `k` -/
def passOn (k : Nat) (ls xs : List Nat) : List Nat :=
  (revRuns (fun q : Nat × Nat => decide (k ≤ q.1)) [] (List.zip ls xs)).map (·.2)

theorem passOn_nil (k : Nat) (xs : List Nat) : passOn k [] xs = [] := by
  simp [passOn, revRuns]

theorem passOn_skipFalse (k : Nat) (levels result : List Nat) (hlen : result.length = levels.length)
    (pos s : Nat) (h1 : pos ≤ s) (h2 : s ≤ levels.length)
    (hF : ∀ t, pos ≤ t → t < s → ∀ l, levels[t]? = some l → l < k) :
    passOn k (levels.drop pos) (result.drop pos) =
      slice result pos s ++ passOn k (levels.drop s) (result.drop s) := by
  unfold passOn
  rw [drop_eq_slice_append levels pos s h1, drop_eq_slice_append result pos s h1]
  rw [List.zip_append (by rw [length_slice _ _ _ h2, length_slice _ _ _ (by omega)])]
  rw [revRuns_append_false]
  · rw [List.map_append]
    congr 1
    exact List.map_snd_zip (by rw [length_slice _ _ _ h2, length_slice _ _ _ (by omega)]; exact Nat.le_refl _)
  · intro q hq
    have hm := (List.of_mem_zip (a := q.1) (b := q.2) hq).1
    rcases mem_slice _ _ _ _ hm with ⟨t, ht1, ht2, ht3⟩
    have := hF t ht1 ht2 _ ht3
    simp; omega

theorem passOn_skipTrue (k : Nat) (levels result : List Nat) (hlen : result.length = levels.length)
    (s e : Nat) (h1 : s ≤ e) (h2 : e ≤ levels.length)
    (hT : ∀ t, s ≤ t → t < e → ∀ l, levels[t]? = some l → k ≤ l)
    (hE : ∀ l, levels[e]? = some l → l < k) :
    passOn k (levels.drop s) (result.drop s) =
      (slice result s e).reverse ++ passOn k (levels.drop e) (result.drop e) := by
  unfold passOn
  rw [drop_eq_slice_append levels s e h1, drop_eq_slice_append result s e h1]
  rw [List.zip_append (by rw [length_slice _ _ _ h2, length_slice _ _ _ (by omega)])]
  rw [revRuns_run]
  · rw [List.map_append, List.map_reverse]
    congr 2
    exact List.map_snd_zip (by rw [length_slice _ _ _ h2, length_slice _ _ _ (by omega)]; exact Nat.le_refl _)
  · intro q hq
    have hm := (List.of_mem_zip (a := q.1) (b := q.2) hq).1
    rcases mem_slice _ _ _ _ hm with ⟨t, ht1, ht2, ht3⟩
    have := hT t ht1 ht2 _ ht3
    simpa using this
  · intro z hz
    have hz0 : (List.zip (levels.drop e) (result.drop e))[0]? = some z := by
      rw [← List.head?_eq_getElem?]; exact hz
    rw [List.getElem?_zip_eq_some] at hz0
    have := hz0.1
    simp at this
    have := hE _ this
    simp; omega

/-- what `nextRange` finds, and how it splits the remaining pass -/
theorem nextRange_fact (k : Nat) (levels result : List Nat) (hlen : result.length = levels.length)
    (pos : Nat) (hpos : pos ≤ levels.length) :
    ∃ s e, nextRange levels pos k = (s, e) ∧ pos ≤ s ∧ s ≤ e ∧ e ≤ levels.length ∧
      (pos < levels.length → pos < e) ∧
      passOn k (levels.drop pos) (result.drop pos) =
        slice result pos s ++ ((slice result s e).reverse ++
          passOn k (levels.drop e) (result.drop e)) := by
  unfold nextRange
  by_cases hge : pos ≥ levels.length
  · have : pos = levels.length := by omega
    refine ⟨pos, pos, by simp [hge], Nat.le_refl _, Nat.le_refl _, hpos, by omega, ?_⟩
    simp [slice]
  · have hne : levels.isEmpty = false := by
      cases levels with
      | nil => simp at hge
      | cons _ _ => rfl
    simp only [hne, Bool.false_or, decide_eq_true_eq, hge, if_false]
    have hs := skipBelow_spec levels k levels.length pos hpos (by omega)
    generalize skipBelow levels k levels.length pos = s at hs
    obtain ⟨hs1, hs2, hs3, hs4⟩ := hs
    have hF := passOn_skipFalse k levels result hlen pos s hs1 hs2 hs3
    by_cases hsn : levels[s]?.isNone = true
    · have hsl : s = levels.length := by
        simp at hsn; omega
      refine ⟨s, s, by simp [hsn], hs1, Nat.le_refl _, hs2, by omega, ?_⟩
      rw [hF]; simp [slice]
    · have hsl : s < levels.length := by
        simp at hsn; omega
      have he := skipAtLeast_spec levels k levels.length (s + 1) (by omega) (by omega)
      generalize skipAtLeast levels k levels.length (s + 1) = e at he
      obtain ⟨he1, he2, he3, he4⟩ := he
      refine ⟨s, e, by simp [hsn], hs1, by omega, he2, by omega, ?_⟩
      rw [hF]
      congr 1
      refine passOn_skipTrue k levels result hlen s e (by omega) he2 ?_ he4
      intro t ht1 ht2 l hl
      by_cases hts : t = s
      · subst hts; exact hs4 l hl
      · exact he3 t (by omega) ht2 l hl

theorem length_reverseRange {α} (xs : List α) (a b : Nat) (h1 : a ≤ b) (_h2 : b ≤ xs.length) :
    (reverseRange xs a b).length = xs.length := (reverseRange_perm xs a b h1).length_eq

theorem take_reverseRange {α} (xs : List α) (a b : Nat) (h1 : a ≤ b) (h2 : b ≤ xs.length) :
    (reverseRange xs a b).take b = xs.take a ++ (slice xs a b).reverse := by
  unfold reverseRange
  rw [List.take_append_of_le_length]
  · rw [List.take_of_length_le]
    simp [length_slice _ _ _ h2]; omega
  · simp [length_slice _ _ _ h2]; omega

theorem drop_reverseRange {α} (xs : List α) (a b : Nat) (h1 : a ≤ b) (h2 : b ≤ xs.length) :
    (reverseRange xs a b).drop b = xs.drop b := by
  unfold reverseRange
  rw [List.drop_append_of_le_length]
  · rw [List.drop_of_length_le]
    · simp
    · simp [length_slice _ _ _ h2]; omega
  · simp [length_slice _ _ _ h2]; omega

/-- the inner loop from `pos` on: everything before `pos` is untouched, the rest
    has its runs reversed -/
theorem rvPass_eq_from (k : Nat) (levels : List Nat) (fuel pos : Nat) (result : List Nat)
    (hlen : result.length = levels.length) (hpos : pos ≤ levels.length)
    (hf : levels.length - pos < fuel) :
    rvPass levels k fuel pos result =
      result.take pos ++ passOn k (levels.drop pos) (result.drop pos) := by
  induction fuel generalizing pos result with
  | zero => omega
  | succ f ih =>
    unfold rvPass
    obtain ⟨s, e, hr, h1, h2, h3, h4, h5⟩ := nextRange_fact k levels result hlen pos hpos
    simp only [hr]
    have he' : e ≤ result.length := by omega
    have key : result.take pos ++ passOn k (levels.drop pos) (result.drop pos) =
        (reverseRange result s e).take e ++
          passOn k (levels.drop e) ((reverseRange result s e).drop e) := by
      rw [h5, take_reverseRange _ _ _ h2 he', drop_reverseRange _ _ _ h2 he']
      rw [← List.append_assoc, take_append_slice _ _ _ h1, List.append_assoc]
    rw [key]
    split
    · rename_i hge
      have : e = levels.length := by omega
      subst this
      rw [List.drop_of_length_le (Nat.le_refl _), passOn_nil, List.append_nil]
      rw [List.take_of_length_le]
      rw [length_reverseRange _ _ _ h2 he', hlen]; exact Nat.le_refl _
    · rename_i hlt
      have hposlt : pos < levels.length := by omega
      have := h4 hposlt
      exact ih e (reverseRange result s e)
        (by rw [length_reverseRange _ _ _ h2 he', hlen]) h3 (by omega)

/-- one full pass of the inner loop of `reorder_visual` for level `k` -/
theorem rvPass_eq (k : Nat) (levels result : List Nat) (hlen : result.length = levels.length) :
    rvPass levels k (levels.length + 1) 0 result = passOn k levels result := by
  have := rvPass_eq_from k levels (levels.length + 1) 0 result hlen (Nat.zero_le _) (by omega)
  simpa using this

end UBidi.Lemmas.C04
