/-
  UBidi.Lemmas.C01WeakSpec — spec-side lemmas for stage lemma StageW of C01.

  The seven passes `Spec.w1 … Spec.w6` are re-expressed as ONE head-recursive
  function `W` over the list that carries the state of the crate's single pass
  (`prevW1`, `lastStrongIsAL`, `prevW4`, `prevW5`) and looks ahead into the
  rest of the list (next type for W4, "ET-run followed by EN" for W5).
  Everything here is about `Spec` only; the Model is not mentioned.
-/
import UBidi.Spec.UAX9
namespace UBidi.Lemmas.C01Weak
open UBidi UBidi.Spec BidiClass

theorem beq_iff (a b : BidiClass) : (a == b) = true ↔ a = b := by
  cases a <;> cases b <;> decide

instance : LawfulBEq BidiClass where
  eq_of_beq {a b} h := (beq_iff a b).1 h
  rfl {a} := (beq_iff a a).2 rfl

/-! ### the per-unit computations of the single pass -/

/-- W1 at one unit (`prev_class_before_w1 = p1`) -/
def sC1 (p1 c : BidiClass) : BidiClass :=
  if c == NSM then
    (match p1 with
     | RLI | LRI | FSI | PDI => ON
     | p => p)
  else c

/-- W2 / W3 at one unit -/
def sC2 (al : Bool) (c1 : BidiClass) : BidiClass :=
  match c1 with
  | EN => if al then AN else EN
  | AL => R
  | c => c

/-- update of `last_strong_is_al` -/
def sAL (al : Bool) (c1 : BidiClass) : Bool :=
  match c1 with
  | L | R => false
  | AL => true
  | _ => al

/-- W4 / W6 for a separator -/
def sC3 (p4 c2 next : BidiClass) : BidiClass :=
  match p4, c2, next with
  | EN, ES, EN => EN
  | EN, CS, EN => EN
  | AN, CS, AN => AN
  | _, _, _ => ON

/-- the look-ahead class of a separator: next type of the rest (`eos` at the
    end) with W2 applied on the fly -/
def nextCls (al' : Bool) (eos : BidiClass) (cs : List BidiClass) : BidiClass :=
  let n0 := cs.head?.getD eos
  if n0 == EN && al' then AN else n0

/-- the value the pass stores at the unit after W4/W5 (`prev_class_before_w5`);
    a pending ET stays ET -/
def sM5 (p4 p5 c2 next : BidiClass) : BidiClass :=
  match c2 with
  | ES | CS => sC3 p4 c2 next
  | ET => if p5 == EN then EN else ET
  | c => c

/-! ### state-passing forms of the spec passes -/

/-- W2 carrying "the last strong type is AL" -/
def w2g (al : Bool) : List BidiClass → List BidiClass
  | [] => []
  | c :: cs => (if c == EN && al then AN else c) :: w2g (if isStrong c then c == AL else al) cs

theorem lastStrong_snoc (strong : BidiClass → Bool) (sos : BidiClass) (pre : List BidiClass) (c : BidiClass) :
    lastStrong strong sos (pre ++ [c]) = if strong c then c else lastStrong strong sos pre := by
  simp only [lastStrong, List.reverse_append, List.reverse_cons, List.reverse_nil, List.nil_append,
    List.cons_append, List.find?_cons]
  split <;> simp_all

theorem w2_go_eq (sos : BidiClass) (pre cs : List BidiClass) :
    mapWithPrefix.go (fun pre c => if c == EN && lastStrong isStrong sos pre == AL then AN else c) pre cs
      = w2g (lastStrong isStrong sos pre == AL) cs := by
  induction cs generalizing pre with
  | nil => simp [mapWithPrefix.go, w2g]
  | cons c cs ih =>
    simp only [mapWithPrefix.go, w2g, ih, lastStrong_snoc]
    congr 2
    split <;> rfl

theorem w2_eq (sos : BidiClass) (hs : sos ≠ AL) (ts : List BidiClass) : w2 sos ts = w2g false ts := by
  unfold w2 mapWithPrefix
  rw [w2_go_eq]
  have : (lastStrong isStrong sos [] == AL) = false := by
    simp [lastStrong, hs]
  rw [this]

/-- the list after W1–W4, from the state of the pass -/
def T (p1 : BidiClass) (al : Bool) (p4 : BidiClass) (cs : List BidiClass) : List BidiClass :=
  w4.go (some p4) (w3 (w2g al (w1 p1 cs)))

/-- W5/W6 from the state `b` = "the previous type after W5 is EN" -/
def U (b : Bool) (ts : List BidiClass) : List BidiClass := w6 (w5.fwd b (w5.bwd ts))

/-- the remaining output of W1–W6 from the state of the pass -/
def W (p1 : BidiClass) (al : Bool) (p4 p5 : BidiClass) (cs : List BidiClass) : List BidiClass :=
  U (p5 == EN) (T p1 al p4 cs)

/-- "the ET run at the head of the rest is followed by EN" (after W1–W4) -/
def LA (p1 : BidiClass) (al : Bool) (p4 : BidiClass) (cs : List BidiClass) : Bool :=
  w5.followedByEN (T p1 al p4 cs)

/-- the resolved value of a pending ET -/
def etVal (la : Bool) : BidiClass := if la then EN else ON

/-- final output of one unit from the value stored by the pass -/
def sOut (m5 : BidiClass) (la : Bool) : BidiClass := if m5 == ET then etVal la else m5

/-! ### one step of the composed passes -/

theorem w1_cons (p1 c : BidiClass) (cs : List BidiClass) : w1 p1 (c :: cs) = sC1 p1 c :: w1 (sC1 p1 c) cs := by
  have : (if c == NSM then (if isIsoInit p1 || p1 == PDI then ON else p1) else c) = sC1 p1 c := by
    unfold sC1; cases p1 <;> rfl
  simp only [w1, this]

theorem w2g_cons (al : Bool) (c : BidiClass) (cs : List BidiClass) :
    w3 (w2g al (c :: cs)) = sC2 al c :: w3 (w2g (sAL al c) cs) := by
  have h1 : (if isStrong c then c == AL else al) = sAL al c := by cases c <;> rfl
  have h2 : (if (if c == EN && al then AN else c) == AL then R else (if c == EN && al then AN else c)) = sC2 al c := by
    cases c <;> cases al <;> rfl
  simp only [w2g, w3, List.map_cons, h1, h2]

/-- the W4 result of one unit (before W5/W6) -/
def sC4 (p4 c2 next : BidiClass) : BidiClass :=
  if c2 == ES || c2 == CS then (if sC3 p4 c2 next == ON then c2 else sC3 p4 c2 next) else c2

theorem sC2_sep {al : Bool} {c1 : BidiClass} (h : sC2 al c1 = ES ∨ sC2 al c1 = CS) : sC2 al c1 = c1 := by
  cases c1 <;> cases al <;> simp_all [sC2]

theorem T_nil (p1 : BidiClass) (al : Bool) (p4 : BidiClass) : T p1 al p4 [] = [] := by
  simp [T, w1, w2g, w3, w4.go]

theorem T_cons (eos : BidiClass) (he : eos = L ∨ eos = R) (p1 : BidiClass) (al : Bool) (p4 c : BidiClass) (cs : List BidiClass) :
    T p1 al p4 (c :: cs) =
      sC4 p4 (sC2 al (sC1 p1 c)) (nextCls (sAL al (sC1 p1 c)) eos cs)
        :: T (sC1 p1 c) (sAL al (sC1 p1 c)) (sC2 al (sC1 p1 c)) cs := by
  unfold T
  rw [w1_cons, w2g_cons]
  simp only [w4.go]
  congr 1
  generalize hc1 : sC1 p1 c = c1
  by_cases hsep : sC2 al c1 = ES ∨ sC2 al c1 = CS
  · have h1 := sC2_sep hsep
    rw [h1] at hsep ⊢
    cases cs with
    | nil =>
      rcases he with rfl | rfl <;> rcases hsep with rfl | rfl <;> cases p4 <;> cases al <;> rfl
    | cons d ds =>
      rw [w1_cons, w2g_cons]
      simp only [List.head?_cons, nextCls, Option.getD_some]
      rcases hsep with rfl | rfl <;> cases p4 <;> cases d <;> cases al <;> rfl
  · rw [not_or] at hsep
    have h1 : (sC2 al c1 == ES) = false := by simp [hsep.1]
    have h2 : (sC2 al c1 == CS) = false := by simp [hsep.2]
    simp [sC4, h1, h2]


theorem bwd_cons (c : BidiClass) (cs : List BidiClass) :
    w5.bwd (c :: cs) = (if c == ET && w5.followedByEN cs then EN else c) :: w5.bwd cs := rfl

theorem fwd_cons (b : Bool) (c : BidiClass) (cs : List BidiClass) :
    w5.fwd b (c :: cs) = if c == ET && b then EN :: w5.fwd true cs else c :: w5.fwd (c == EN) cs := rfl

theorem followedByEN_cons (c : BidiClass) (cs : List BidiClass) :
    w5.followedByEN (c :: cs) = if c == ET then w5.followedByEN cs else c == EN := rfl

theorem fwd_bwd_of_followed (ts : List BidiClass) (h : w5.followedByEN ts = true) (b : Bool) :
    w5.fwd b (w5.bwd ts) = w5.fwd true (w5.bwd ts) := by
  cases ts with
  | nil => simp [w5.followedByEN] at h
  | cons c cs =>
    rw [followedByEN_cons] at h
    rw [bwd_cons]
    by_cases hc : c = ET
    · subst hc
      simp at h
      simp [h, fwd_cons]
    · have : (c == ET) = false := by simp [hc]
      simp [this] at h
      subst h
      simp [fwd_cons]

theorem U_cons (b : Bool) (c4 : BidiClass) (ts : List BidiClass) :
    U b (c4 :: ts) =
      (if c4 == ET then (if b || w5.followedByEN ts then EN else ON)
        else if c4 == ES || c4 == CS then ON else c4)
      :: U (if c4 == ET then b else c4 == EN) ts := by
  unfold U
  rw [bwd_cons]
  by_cases hc : c4 = ET
  · subst hc
    by_cases hf : w5.followedByEN ts = true
    · have e := fwd_bwd_of_followed ts hf b
      have e1 : (EN == ET) = false := rfl
      have e2 : (EN == EN) = true := rfl
      have e3 : (ET == ET) = true := rfl
      simp only [hf, fwd_cons, w6, e, e1, e2, e3, Bool.and_self, Bool.or_true, if_true, Bool.false_and]
      simp
    · simp at hf
      have e1 : (ET == EN) = false := rfl
      have e3 : (ET == ET) = true := rfl
      cases b <;> simp [hf, fwd_cons, w6, e1]
  · have h : (c4 == ET) = false := by simp [hc]
    simp only [h, Bool.false_and, fwd_cons, w6]
    simp
    cases c4 <;> simp_all


theorem sC4_eq_ET (p4 c2 next : BidiClass) : (sC4 p4 c2 next == ET) = (c2 == ET) := by
  cases c2 <;> first | rfl | (cases p4 <;> cases next <;> rfl)

theorem LA_cons (eos : BidiClass) (he : eos = L ∨ eos = R) (p1 : BidiClass) (al : Bool) (p4 p5 c : BidiClass)
    (cs : List BidiClass) :
    LA p1 al p4 (c :: cs) =
      (if sC2 al (sC1 p1 c) == ET then LA (sC1 p1 c) (sAL al (sC1 p1 c)) (sC2 al (sC1 p1 c)) cs
       else sM5 p4 p5 (sC2 al (sC1 p1 c)) (nextCls (sAL al (sC1 p1 c)) eos cs) == EN) := by
  unfold LA
  rw [T_cons eos he, followedByEN_cons, sC4_eq_ET]
  generalize sC2 al (sC1 p1 c) = c2
  generalize nextCls (sAL al (sC1 p1 c)) eos cs = next
  by_cases h : c2 = ET
  · simp [h]
  · have : (c2 == ET) = false := by simp [h]
    simp only [this]
    cases c2 <;> first | rfl | (exact absurd rfl h) | (cases p4 <;> cases next <;> rfl)

theorem W_cons (eos : BidiClass) (he : eos = L ∨ eos = R) (p1 : BidiClass) (al : Bool) (p4 p5 c : BidiClass)
    (cs : List BidiClass) :
    W p1 al p4 p5 (c :: cs) =
      sOut (sM5 p4 p5 (sC2 al (sC1 p1 c)) (nextCls (sAL al (sC1 p1 c)) eos cs))
          (LA (sC1 p1 c) (sAL al (sC1 p1 c)) (sC2 al (sC1 p1 c)) cs)
        :: W (sC1 p1 c) (sAL al (sC1 p1 c)) (sC2 al (sC1 p1 c))
             (sM5 p4 p5 (sC2 al (sC1 p1 c)) (nextCls (sAL al (sC1 p1 c)) eos cs)) cs := by
  unfold W LA
  rw [T_cons eos he, U_cons, sC4_eq_ET]
  generalize sC2 al (sC1 p1 c) = c2
  generalize nextCls (sAL al (sC1 p1 c)) eos cs = next
  generalize T (sC1 p1 c) (sAL al (sC1 p1 c)) c2 cs = T'
  by_cases h : c2 = ET
  · subst h
    by_cases h5 : p5 = EN
    · subst h5
      simp [sM5, sOut]
    · have : (p5 == EN) = false := by simp [h5]
      simp [sM5, sOut, this, etVal]
      rcases hf : w5.followedByEN T' with _ | _
      · rfl
      · have e1 : (ET == EN) = false := rfl
        simp [U, e1, fwd_bwd_of_followed T' hf false]
  · have : (c2 == ET) = false := by simp [h]
    simp only [this]
    cases c2 <;> first | rfl | (exact absurd rfl h) | (cases p4 <;> cases next <;> rfl)


theorem W_nil (p1 : BidiClass) (al : Bool) (p4 p5 : BidiClass) : W p1 al p4 p5 [] = [] := by
  simp [W, U, T_nil, w5.bwd, w5.fwd, w6]

theorem LA_nil (p1 : BidiClass) (al : Bool) (p4 : BidiClass) : LA p1 al p4 [] = false := by
  simp [LA, T_nil, w5.followedByEN]

theorem w4_go_none (sos : BidiClass) (hs : sos = L ∨ sos = R) (ts : List BidiClass) :
    w4.go none ts = w4.go (some sos) ts := by
  cases ts with
  | nil => simp [w4.go]
  | cons c cs =>
    simp only [w4.go]
    rcases hs with rfl | rfl <;> simp

/-- W1–W6 of the spec are the composed pass started in the initial state -/
theorem w16_eq_W (sos : BidiClass) (hs : sos = L ∨ sos = R) (ts : List BidiClass) :
    w6 (w5 (w4 (w3 (w2 sos (w1 sos ts))))) = W sos false sos sos ts := by
  have h2 : w2 sos (w1 sos ts) = w2g false (w1 sos ts) := w2_eq sos (by rcases hs with rfl | rfl <;> decide) _
  have h5 : (sos == EN) = false := by rcases hs with rfl | rfl <;> rfl
  rw [h2]
  unfold W U T
  rw [h5, ← w4_go_none sos hs]
  rfl

/-! ### W7 -/

/-- W7 carrying "the last strong type is L" -/
def w7g (b : Bool) : List BidiClass → List BidiClass
  | [] => []
  | c :: cs => (if c == EN && b then L else c) :: w7g (if c == L then true else if c == R then false else b) cs

theorem w7_go_eq (sos : BidiClass) (pre cs : List BidiClass) :
    mapWithPrefix.go (fun pre c => if c == EN && lastStrong (fun x => x == L || x == R) sos pre == L then L else c) pre cs
      = w7g (lastStrong (fun x => x == L || x == R) sos pre == L) cs := by
  induction cs generalizing pre with
  | nil => simp [mapWithPrefix.go, w7g]
  | cons c cs ih =>
    simp only [mapWithPrefix.go, w7g, ih, lastStrong_snoc]
    congr 2
    cases c <;> simp

theorem w7_eq (sos : BidiClass) (ts : List BidiClass) : w7 sos ts = w7g (sos == L) ts := by
  unfold w7 mapWithPrefix
  rw [w7_go_eq]
  simp [lastStrong]


end UBidi.Lemmas.C01Weak
