/-
  C01 / StageSeq — the single-unit text `Expand.unitize t` of the `Expand` lemma family meets the
  hypothesis `UnitText` of `stageSeq`.
-/
import UBidi.Lemmas.C01SeqDefs
import UBidi.Lemmas.ExpandDefs
namespace UBidi.Lemmas.C01Seq
open UBidi

theorem segsFrom_zipIdx (l : List Seg) (k : Nat) :
    SegsFrom k ((l.zipIdx k).map (fun (p : Seg × Nat) => ({ start := p.2, cp := p.1.cp, len := 1 } : Seg)))
      (k + l.length) := by
  induction l generalizing k with
  | nil => simp [SegsFrom]
  | cons a l ih =>
    simp only [List.zipIdx_cons, List.map_cons, SegsFrom, List.length_cons, true_and]
    refine ⟨by omega, ?_⟩
    have := ih (k + 1)
    rw [show k + 1 + l.length = k + (l.length + 1) by omega] at this
    exact this

/-- `unitize t` is a single-unit text with as many characters as `t` -/
theorem unitText_unitize (t : Text) : UnitText (Expand.unitize t) t.segs.length := by
  refine ⟨⟨?_, ?_⟩, rfl, ?_⟩
  · have := segsFrom_zipIdx t.segs 0
    simpa [Expand.unitize] using this
  · intro s hs
    simp only [Expand.unitize, List.mem_map] at hs
    obtain ⟨p, _, rfl⟩ := hs
    rfl
  · intro s hs
    simp only [Expand.unitize, List.mem_map] at hs
    obtain ⟨p, _, rfl⟩ := hs
    rfl

end UBidi.Lemmas.C01Seq
