/-
  Helper lemmas for C12 (results depend only on the supplied data source): congruence of every stage
  that mentions the data source — `iiStep` / `computeInitialInfo`, `baseDirLoop`, `bpStep` /
  `identifyBracketPairs` / `resolveNeutral` / `resolveSequences` / `paraLevels`.
-/
import UBidi.Model.Reorder
namespace UBidi.Lemmas.C12
open UBidi BidiClass

theorem foldl_congr_mem {α β} (f g : β → α → β) (l : List α) (b : β)
    (h : ∀ x ∈ l, ∀ b, f b x = g b x) : l.foldl f b = l.foldl g b := by
  induction l generalizing b with
  | nil => rfl
  | cons x xs ih =>
    simp only [List.foldl_cons]
    rw [h x (by simp) b]
    exact ih _ (fun y hy => h y (by simp [hy]))

theorem iiStep_congr (ds ds' : DataSource) (T : Text) (split : Bool) (d : Option Nat) (st : IIState) (s : Seg)
    (h : ds.cls s.cp = ds'.cls s.cp) : iiStep ds T split d st s = iiStep ds' T split d st s := by
  unfold iiStep
  rw [h]

theorem cii_congr (ds ds' : DataSource) (t : Text) (d : Option Nat) (split : Bool)
    (h : ∀ s ∈ t.segs, ds.cls s.cp = ds'.cls s.cp) :
    computeInitialInfo ds t d split = computeInitialInfo ds' t d split := by
  have e : ∀ st0, t.segs.foldl (iiStep ds t split d) st0 = t.segs.foldl (iiStep ds' t split d) st0 :=
    fun st0 => foldl_congr_mem _ _ t.segs st0 (fun s hs st => iiStep_congr ds ds' t split d st s (h s hs))
  unfold computeInitialInfo
  simp only [e]

theorem baseDirLoop_congr (ds ds' : DataSource) (full : Bool) (depth : Nat) (cs : List Nat)
    (h : ∀ c ∈ cs, ds.cls c = ds'.cls c) : baseDirLoop ds full depth cs = baseDirLoop ds' full depth cs := by
  induction cs generalizing depth with
  | nil => rfl
  | cons c cs ih =>
    have hc := h c (by simp)
    have ih' := fun dp => ih dp (fun x hx => h x (by simp [hx]))
    unfold baseDirLoop
    rw [hc]
    split <;> simp only [ih']

theorem baseDirection_congr (ds ds' : DataSource) (t : Text) (full : Bool)
    (h : ∀ s ∈ t.segs, ds.cls s.cp = ds'.cls s.cp) : baseDirection ds t full = baseDirection ds' t full := by
  unfold baseDirection
  apply baseDirLoop_congr
  intro c hc
  obtain ⟨s, hs, rfl⟩ := List.mem_map.mp hc
  exact h s hs

theorem bpStep_congr (ds ds' : DataSource) (ocs pcs : Classes) (st : BPState) (x : Nat × Seg)
    (h : ds.brk x.2.cp = ds'.brk x.2.cp) : bpStep ds ocs pcs st x = bpStep ds' ocs pcs st x := by
  unfold bpStep
  rw [h]

theorem seqChars_mem (t : Text) (seq : IRSeq) (x : Nat × Seg) (hx : x ∈ seqChars t seq) : x.2 ∈ t.segs := by
  simp only [seqChars, List.mem_flatMap, List.mem_map, List.mem_filter] at hx
  obtain ⟨_, _, s, ⟨hs, _⟩, rfl⟩ := hx
  exact hs

theorem identifyBracketPairs_congr (ds ds' : DataSource) (t : Text) (seq : IRSeq) (ocs pcs : Classes)
    (h : ∀ s ∈ t.segs, ds.brk s.cp = ds'.brk s.cp) :
    identifyBracketPairs ds t seq ocs pcs = identifyBracketPairs ds' t seq ocs pcs := by
  have e : ∀ st0, (seqChars t seq).foldl (bpStep ds ocs pcs) st0 = (seqChars t seq).foldl (bpStep ds' ocs pcs) st0 :=
    fun st0 => foldl_congr_mem _ _ _ st0
      (fun x hx st => bpStep_congr ds ds' ocs pcs st x (h x.2 (seqChars_mem t seq x hx)))
  unfold identifyBracketPairs
  simp only [e]

theorem resolveNeutral_congr (ds ds' : DataSource) (t : Text) (seq : IRSeq) (levels : List Nat) (ocs pcs : Classes)
    (h : ∀ s ∈ t.segs, ds.brk s.cp = ds'.brk s.cp) :
    resolveNeutral ds t seq levels ocs pcs = resolveNeutral ds' t seq levels ocs pcs := by
  unfold resolveNeutral
  simp only [identifyBracketPairs_congr ds ds' t seq ocs _ h]

theorem resolveSequences_congr (ds ds' : DataSource) (t : Text) (levels : List Nat) (ocs : Classes)
    (seqs : List IRSeq) (pcs : Classes) (h : ∀ s ∈ t.segs, ds.brk s.cp = ds'.brk s.cp) :
    resolveSequences ds t levels ocs seqs pcs = resolveSequences ds' t levels ocs seqs pcs := by
  unfold resolveSequences
  simp only [resolveNeutral_congr ds ds' t _ levels ocs _ h]

theorem paraLevels_congr (ds ds' : DataSource) (pl : Nat) (pureLtr hasIso : Bool) (t : Text) (ocs : Classes)
    (h : ∀ s ∈ t.segs, ds.brk s.cp = ds'.brk s.cp) :
    paraLevels ds pl pureLtr hasIso t ocs = paraLevels ds' pl pureLtr hasIso t ocs := by
  unfold paraLevels
  simp only [resolveSequences_congr ds ds' t _ ocs _ _ h]

theorem subrange_mem (t : Text) (a b : Nat) (s : Seg) (hs : s ∈ (t.subrange a b).segs) :
    ∃ s' ∈ t.segs, s'.cp = s.cp := by
  simp only [Text.subrange, List.mem_map, List.mem_filter] at hs
  obtain ⟨s', ⟨hs', _⟩, rfl⟩ := hs
  exact ⟨s', hs', rfl⟩

end UBidi.Lemmas.C12
