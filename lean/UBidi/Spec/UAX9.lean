/-
  UBidi.Spec.UAX9 — the Unicode Bidirectional Algorithm (UAX #9, Unicode 16.0
  revision), rules P2–P3, X1–X10, W1–W7, N0–N2, I1–I2, as the standard writes
  them: on *characters* (not code units), with rule X9 really removing
  characters, and W1 … W7, N0 … N2 as separate passes over a whole isolating
  run sequence.  This is what C01, C02, C11, C13 and C16 are judged against.
-/
import UBidi.Model.CharData
namespace UBidi.Spec
open UBidi BidiClass

/-- A character as the algorithm sees it. -/
structure Ch where
  cls : BidiClass
  brk : Option Bracket := none
  deriving DecidableEq, Repr, Inhabited

def isIsoInit (c : BidiClass) : Bool := c == LRI || c == RLI || c == FSI
def isStrong (c : BidiClass) : Bool := c == L || c == R || c == AL
def isRemoved (c : BidiClass) : Bool :=
  c == RLE || c == LRE || c == RLO || c == LRO || c == PDF || c == BN

/-! ### BD9: matching PDI -/

/-- Position (relative to the list) of the PDI matching an isolate initiator
    that stands immediately before `cs`; `depth` counts the initiators opened
    since.  Stops at a paragraph separator. -/
def matchingPDI : List BidiClass → Nat → Nat → Option Nat
  | [], _, _ => none
  | c :: cs, depth, pos =>
    if c == B then none
    else if isIsoInit c then matchingPDI cs (depth + 1) (pos + 1)
    else if c == PDI then (if depth == 0 then some pos else matchingPDI cs (depth - 1) (pos + 1))
    else matchingPDI cs depth (pos + 1)

/-! ### P2, P3 -/

/-- P2: the first character of type L, R or AL, skipping the characters between
    an isolate initiator and its matching PDI (or the end of the paragraph if
    there is none). -/
def firstStrong : Nat → List BidiClass → Option BidiClass
  | 0, _ => none
  | _, [] => none
  | fuel + 1, c :: cs =>
    if isStrong c then some c
    else if isIsoInit c then
      match matchingPDI cs 0 0 with
      | some k => firstStrong fuel (cs.drop (k + 1))
      | none => none
    else firstStrong fuel cs

/-- P2/P3: paragraph level of a paragraph (`none` forced level = auto) -/
def paraLevel (forced : Option Nat) (cs : List BidiClass) : Nat :=
  match forced with
  | some l => l
  | none =>
    match firstStrong (cs.length + 1) cs with
    | some R | some AL => 1
    | _ => 0

/-! ### X5c as reported in the per-character classes (property C02) -/

/-- the text between an isolate initiator and its matching PDI (to the end of
    the paragraph if unmatched) -/
def isolateContent (cs : List BidiClass) : List BidiClass :=
  match matchingPDI cs 0 0 with
  | some k => cs.take k
  | none => cs.takeWhile (· != B)

def resolveFSI : List BidiClass → List BidiClass
  | [] => []
  | c :: cs =>
    let c' := if c == FSI then
        (match firstStrong (cs.length + 1) (isolateContent cs) with
         | some L => LRI
         | some _ => RLI
         | none => FSI)
      else c
    c' :: resolveFSI cs

/-! ### X1–X8 -/

structure Entry where
  level : Nat
  override : Option BidiClass    -- none = neutral, some L / some R
  isolate : Bool
  deriving Repr, Inhabited

structure XState where
  stack : List Entry             -- top first
  overflowIsolate : Nat := 0
  overflowEmbedding : Nat := 0
  validIsolate : Nat := 0
  deriving Repr, Inhabited

def maxDepth : Nat := 125

def leastOddAbove (l : Nat) : Nat := if l % 2 == 0 then l + 1 else l + 2
def leastEvenAbove (l : Nat) : Nat := if l % 2 == 0 then l + 2 else l + 1

def topLevel (paraLvl : Nat) (s : XState) : Nat := (s.stack.head?.map (·.level)).getD paraLvl
def topOverride (s : XState) : Option BidiClass := (s.stack.head?.bind (·.override))

def applyOv (s : XState) (c : BidiClass) : BidiClass := (topOverride s).getD c

/-- pop entries while the top has a false isolate status, then pop one more -/
def popToIsolate : List Entry → List Entry
  | [] => []
  | e :: rest => if e.isolate then rest else popToIsolate rest

/-- Rules X2–X8 for one character: the new state, the character's explicit
    level and its type for the following rules. -/
def xStep (paraLvl : Nat) (s : XState) (c : BidiClass) : XState × Nat × BidiClass :=
  let cur := topLevel paraLvl s
  match c with
  | RLE | LRE | RLO | LRO =>
    let nl := if c == RLE || c == RLO then leastOddAbove cur else leastEvenAbove cur
    let ov : Option BidiClass := if c == RLO then some R else if c == LRO then some L else none
    if nl ≤ maxDepth && s.overflowIsolate == 0 && s.overflowEmbedding == 0 then
      ({ s with stack := { level := nl, override := ov, isolate := false } :: s.stack }, cur, c)
    else if s.overflowIsolate == 0 then
      ({ s with overflowEmbedding := s.overflowEmbedding + 1 }, cur, c)
    else (s, cur, c)
  | RLI | LRI | FSI =>
    -- FSI: X5c has been applied to the class list already; an FSI that is still
    -- FSI here has no strong character in its scope and is treated as LRI.
    let nl := if c == RLI then leastOddAbove cur else leastEvenAbove cur
    let ty := applyOv s c
    if nl ≤ maxDepth && s.overflowIsolate == 0 && s.overflowEmbedding == 0 then
      ({ s with validIsolate := s.validIsolate + 1,
                stack := { level := nl, override := none, isolate := true } :: s.stack }, cur, ty)
    else ({ s with overflowIsolate := s.overflowIsolate + 1 }, cur, ty)
  | PDI =>
    let s' :=
      if s.overflowIsolate > 0 then { s with overflowIsolate := s.overflowIsolate - 1 }
      else if s.validIsolate == 0 then s
      else { s with overflowEmbedding := 0, stack := popToIsolate s.stack,
                    validIsolate := s.validIsolate - 1 }
    (s', topLevel paraLvl s', applyOv s' PDI)
  | PDF =>
    let s' :=
      if s.overflowIsolate > 0 then s
      else if s.overflowEmbedding > 0 then { s with overflowEmbedding := s.overflowEmbedding - 1 }
      else match s.stack with
        | e :: rest => if !e.isolate && rest.length ≥ 1 then { s with stack := rest } else s
        | [] => s
    (s', topLevel paraLvl s', c)
  | B => (s, paraLvl, B)
  | BN => (s, cur, BN)
  | _ => (s, cur, applyOv s c)

def xRun (paraLvl : Nat) : XState → List BidiClass → List (Nat × BidiClass)
  | _, [] => []
  | s, c :: cs =>
    let (s', l, t) := xStep paraLvl s c
    (l, t) :: xRun paraLvl s' cs

/-- X1–X8 over a paragraph: explicit level and type of every character -/
def explicit (paraLvl : Nat) (cs : List BidiClass) : List (Nat × BidiClass) :=
  xRun paraLvl { stack := [{ level := paraLvl, override := none, isolate := false }] } cs

/-! ### X9, X10: level runs and isolating run sequences (BD7, BD13)

After X9 the paragraph is the list `ks` of surviving characters; positions
below are positions in `ks`. -/

structure K where
  orig : Nat            -- position in the paragraph
  level : Nat
  ty : BidiClass        -- type after X1–X8 (override applied)
  cls : BidiClass       -- original class
  brk : Option Bracket
  deriving Repr, Inhabited

/-- BD7: maximal runs of adjacent characters with the same level, as
    `(first, last+1)` positions in `ks` -/
def levelRuns : List Nat → Nat → List (Nat × Nat)
  | [], _ => []
  | [_], pos => [(pos, pos + 1)]
  | l1 :: l2 :: ls, pos =>
    match levelRuns (l2 :: ls) (pos + 1) with
    | (a, b) :: rest => if l1 == l2 then (pos, b) :: rest else (pos, pos + 1) :: (a, b) :: rest
    | [] => [(pos, pos + 1)]

/-- for every position of `ks`: the position of its matching PDI if it is an
    isolate initiator that has one (BD9) -/
def matchTable (cls : List BidiClass) : List (Option Nat) :=
  let rec go : List BidiClass → Nat → List (Option Nat)
    | [], _ => []
    | c :: cs, pos =>
      (if isIsoInit c then (matchingPDI cs 0 0).map (· + pos + 1) else none) :: go cs (pos + 1)
  go cls 0

/-- BD13: a run continues the sequence whose last run ends with the isolate
    initiator matched by the run's first character; otherwise it starts a new
    sequence. -/
def addRun (mt : List (Option Nat)) (seqs : List (List (Nat × Nat))) (r : Nat × Nat) :
    List (List (Nat × Nat)) :=
  let continues (s : List (Nat × Nat)) : Bool :=
    match s.getLast? with
    | some (_, e) => e > 0 && (mt.getD (e - 1) none) == some r.1
    | none => false
  match seqs.findIdx? continues with
  | some k => seqs.set k (seqs.getD k [] ++ [r])
  | none => seqs ++ [[r]]

def isolatingRunSequences (ks : List K) : List (List (Nat × Nat)) :=
  let mt := matchTable (ks.map (·.cls))
  (levelRuns (ks.map (·.level)) 0).foldl (addRun mt) []

def seqPositions (s : List (Nat × Nat)) : List Nat :=
  s.flatMap (fun r => List.range' r.1 (r.2 - r.1))

def dirOfLevel (l : Nat) : BidiClass := if l % 2 == 1 then R else L

/-! ### W1–W7: seven passes over the types of one sequence -/

/-- W1 -/
def w1 : BidiClass → List BidiClass → List BidiClass
  | _, [] => []
  | prev, c :: cs =>
    let c' := if c == NSM then (if isIsoInit prev || prev == PDI then ON else prev) else c
    c' :: w1 c' cs

/-- the last strong type (R, L, AL) at or before the end of a prefix, `sos` if none -/
def lastStrong (strong : BidiClass → Bool) (sos : BidiClass) (pre : List BidiClass) : BidiClass :=
  (pre.reverse.find? strong).getD sos

/-- pass that rewrites position `i` from the (unchanged) input and its prefix -/
def mapWithPrefix (f : List BidiClass → BidiClass → BidiClass) (ts : List BidiClass) : List BidiClass :=
  let rec go : List BidiClass → List BidiClass → List BidiClass
    | _, [] => []
    | pre, c :: cs => f pre c :: go (pre ++ [c]) cs
  go [] ts

/-- W2 -/
def w2 (sos : BidiClass) (ts : List BidiClass) : List BidiClass :=
  mapWithPrefix (fun pre c =>
    if c == EN && lastStrong isStrong sos pre == AL then AN else c) ts

/-- W3 -/
def w3 (ts : List BidiClass) : List BidiClass := ts.map (fun c => if c == AL then R else c)

/-- W4 -/
def w4 (ts : List BidiClass) : List BidiClass :=
  let rec go : Option BidiClass → List BidiClass → List BidiClass
    | _, [] => []
    | prev, c :: cs =>
      let next := cs.head?
      let c' :=
        if c == ES && prev == some EN && next == some EN then EN
        else if c == CS && prev == some EN && next == some EN then EN
        else if c == CS && prev == some AN && next == some AN then AN
        else c
      c' :: go (some c) cs
  go none ts

/-- W5: a sequence of ETs adjacent to an EN becomes EN -/
def w5 (ts : List BidiClass) : List BidiClass :=
  -- left to right: an ET right after an EN (or after an ET that became EN)
  let rec fwd : Bool → List BidiClass → List BidiClass
    | _, [] => []
    | afterEN, c :: cs =>
      if c == ET && afterEN then EN :: fwd true cs
      else c :: fwd (c == EN) cs
  -- an ET run directly followed by EN
  let rec followedByEN : List BidiClass → Bool
    | [] => false
    | c :: cs => if c == ET then followedByEN cs else c == EN
  let rec bwd : List BidiClass → List BidiClass
    | [] => []
    | c :: cs => (if c == ET && followedByEN cs then EN else c) :: bwd cs
  fwd false (bwd ts)

/-- W6 -/
def w6 (ts : List BidiClass) : List BidiClass :=
  ts.map (fun c => if c == ES || c == ET || c == CS then ON else c)

/-- W7 -/
def w7 (sos : BidiClass) (ts : List BidiClass) : List BidiClass :=
  mapWithPrefix (fun pre c =>
    if c == EN && lastStrong (fun x => x == L || x == R) sos pre == L then L else c) ts

def weak (sos : BidiClass) (ts : List BidiClass) : List BidiClass :=
  w7 sos (w6 (w5 (w4 (w3 (w2 sos (w1 sos ts))))))

/-! ### BD14–BD16, N0 -/

structure BPState where
  stack : List (Nat × Nat) := []      -- (bracket key, position in sequence), top first
  pairs : List (Nat × Nat) := []      -- (opening position, closing position)
  stopped : Bool := false

def popThrough (key : Nat) : List (Nat × Nat) → Option (Nat × List (Nat × Nat))
  | [] => none
  | (k, p) :: rest => if k == key then some (p, rest) else popThrough key rest

/-- BD16 over the characters of a sequence: `ts` current types (after W),
    `bs` bracket properties -/
def bracketPairs (ts : List BidiClass) (bs : List (Option Bracket)) : List (Nat × Nat) :=
  let rec go : BPState → Nat → List (BidiClass × Option Bracket) → BPState
    | st, _, [] => st
    | st, pos, (t, b) :: rest =>
      if st.stopped then st
      else match b with
        | some br =>
          if t != ON then go st (pos + 1) rest
          else if br.isOpen then
            if st.stack.length ≥ 63 then { st with stopped := true }
            else go { st with stack := (br.opening, pos) :: st.stack } (pos + 1) rest
          else (match popThrough br.opening st.stack with
            | some (p, stack') => go { st with stack := stack', pairs := st.pairs ++ [(p, pos)] } (pos + 1) rest
            | none => go st (pos + 1) rest)
        | none => go st (pos + 1) rest
  let st := go {} 0 (ts.zip bs)
  -- sorted by the position of the opening bracket
  st.pairs.foldl (fun acc p =>
    let rec ins : List (Nat × Nat) → List (Nat × Nat)
      | [] => [p]
      | q :: qs => if p.1 < q.1 then p :: q :: qs else q :: ins qs
    ins acc) []

def strongOfN0 (c : BidiClass) : Option BidiClass :=
  if c == L then some L else if c == R || c == EN || c == AN then some R else none

/-- N0 for one pair on the current types -/
def n0One (sos e : BidiClass) (origNSM : List Bool) (ts : List BidiClass) (pair : Nat × Nat) :
    List BidiClass :=
  let o := pair.1
  let c := pair.2
  let inside := (ts.take c).drop (o + 1)
  let strongs := inside.filterMap strongOfN0
  let notE := if e == L then R else L
  let setTo : Option BidiClass :=
    if strongs.contains e then some e
    else if strongs.contains notE then
      let before := ((ts.take o).reverse.filterMap strongOfN0).head?.getD sos
      some (if before == notE then notE else e)
    else none
  match setTo with
  | none => ts
  | some v =>
    let ts := (ts.set o v).set c v
    -- NSMs (original type) immediately following a changed bracket follow it
    let rec nsmAfter : Nat → Nat → List BidiClass → List BidiClass
      | 0, _, ts => ts
      | fuel + 1, pos, ts => if origNSM.getD pos false then nsmAfter fuel (pos + 1) (ts.set pos v) else ts
    let ts := nsmAfter ts.length (o + 1) ts
    nsmAfter ts.length (c + 1) ts

/-! ### N1, N2 -/

def isNI (c : BidiClass) : Bool :=
  c == B || c == S || c == WS || c == ON || c == FSI || c == LRI || c == RLI || c == PDI

def n1Dir (c : BidiClass) : Option BidiClass :=
  if c == L then some L else if c == R || c == EN || c == AN then some R else none

/-- N1 and N2: every maximal run of NIs takes the direction of the surrounding
    strong text when both sides agree, else the embedding direction. -/
def n12 (sos eos e : BidiClass) (ts : List BidiClass) : List BidiClass :=
  let rec go : BidiClass → List BidiClass → List BidiClass
    | _, [] => []
    | prev, c :: cs =>
      if isNI c then
        let after := (cs.find? (fun x => !isNI x)).getD eos
        let v := match n1Dir prev, n1Dir after with
          | some a, some b => if a == b then a else e
          | _, _ => e
        v :: go prev cs
      else c :: go c cs
  go sos ts

/-! ### I1, I2 -/

def implicitLevel (l : Nat) (t : BidiClass) : Nat :=
  if l % 2 == 0 then
    (if t == R then l + 1 else if t == AN || t == EN then l + 2 else l)
  else
    (if t == L || t == EN || t == AN then l + 1 else l)

/-! ### the whole paragraph -/

/-- resolve one isolating run sequence: final types at its positions -/
def resolveSequence (paraLvl : Nat) (ks : List K) (seq : List (Nat × Nat)) : List (Nat × BidiClass) :=
  let pos := seqPositions seq
  match pos.head?, pos.getLast? with
  | some first, some last =>
    let lvl := (ks.getD first default).level
    let before := if first == 0 then paraLvl else (ks.getD (first - 1) default).level
    let lastK := ks.getD last default
    let after :=
      if isIsoInit lastK.cls then paraLvl
      else if last + 1 < ks.length then (ks.getD (last + 1) default).level else paraLvl
    let sos := dirOfLevel (max lvl before)
    let eos := dirOfLevel (max lastK.level after)
    let e := dirOfLevel lvl
    let ts0 := pos.map (fun p => (ks.getD p default).ty)
    -- "original bidirectional character type NSM": the character's own Bidi_Class, not the
    -- type an override (X6) may have given it (as in the reference implementations' `initialTypes`)
    let origNSM := pos.map (fun p => (ks.getD p default).cls == NSM)
    let bs := pos.map (fun p => (ks.getD p default).brk)
    let ts1 := weak sos ts0
    let ts2 := (bracketPairs ts1 bs).foldl (n0One sos e origNSM) ts1
    let ts3 := n12 sos eos e ts2
    pos.zip ts3
  | _, _ => []

/-- Levels of every character of one paragraph (X1–X10, W, N, I, and the level
    carried by the characters X9 removes).  `chars` are the paragraph's
    characters with the classes *after* X5c. -/
def paragraphLevels (paraLvl : Nat) (chars : List Ch) : List Nat :=
  let cls := chars.map (·.cls)
  let ex := explicit paraLvl cls
  let all : List K := (List.range chars.length).map (fun i =>
    { orig := i, level := (ex.getD i (0, ON)).1, ty := (ex.getD i (0, ON)).2,
      cls := cls.getD i ON, brk := (chars.getD i default).brk })
  let ks := all.filter (fun k => !isRemoved k.cls)
  let seqs := isolatingRunSequences ks
  let resolved := seqs.flatMap (resolveSequence paraLvl ks)
  -- final type of every surviving position
  let tyAt (p : Nat) : BidiClass := ((resolved.find? (fun x => x.1 == p)).map (·.2)).getD ON
  let kLevels : List (Nat × Nat) := (List.range ks.length).map (fun p =>
    let k := ks.getD p default
    (k.orig, implicitLevel k.level (tyAt p)))
  -- a removed character carries the level of the nearest preceding character
  let rec fill : Nat → Nat → List Nat → List Nat
    | _, _, [] => []
    | prev, i, _ :: rest =>
      let l := match kLevels.find? (fun x => x.1 == i) with
        | some x => x.2
        | none => prev
      l :: fill l (i + 1) rest
  fill paraLvl 0 (List.range chars.length)

/-- P1: split after every paragraph separator -/
def splitParagraphs : List Ch → List (List Ch)
  | [] => []
  | cs =>
    let rec go : List Ch → List Ch → List (List Ch)
      | acc, [] => if acc.isEmpty then [] else [acc]
      | acc, c :: rest => if c.cls == B then (acc ++ [c]) :: go [] rest else go (acc ++ [c]) rest
    go [] cs

end UBidi.Spec
