/-
  UBidi.Spec.Reorder — rules L1 and L2 as properties C03 / C04 state them, on
  characters, and lossy UTF-16 decoding (C18 / C09).
-/
import UBidi.Model.Basic
namespace UBidi.Spec
open UBidi BidiClass

def isSep (c : BidiClass) : Bool := c == B || c == S
def isRemovedCls (c : BidiClass) : Bool :=
  c == RLE || c == LRE || c == RLO || c == LRO || c == PDF || c == BN
/-- whitespace, isolate controls and X9-removed characters -/
def isResettable (c : BidiClass) : Bool :=
  c == WS || c == FSI || c == LRI || c == RLI || c == PDI || isRemovedCls c

/-- everything from here up to the next separator, or the end of the line, is
    resettable -/
def trailingOk : List BidiClass → Bool
  | [] => true
  | c :: cs => isSep c || (isResettable c && trailingOk cs)

/-- L1 on the characters of one line: `(class, resolved level)` in, line level out -/
def l1 (paraLvl : Nat) : Nat → List (BidiClass × Nat) → List Nat
  | _, [] => []
  | prev, (c, l) :: rest =>
    let l' := if isSep c || (isResettable c && trailingOk (rest.map (·.1))) then paraLvl
              else if isRemovedCls c then prev
              else l
    l' :: l1 paraLvl l' rest

def lineLevels (paraLvl : Nat) (cls : List (BidiClass × Nat)) : List Nat := l1 paraLvl paraLvl cls

/-- reverse every maximal contiguous run of entries of `order` whose level is
    at least `k` (`acc` = current run, reversed) -/
def revRunsGE (lv : Nat → Nat) (k : Nat) : List Nat → List Nat → List Nat
  | acc, [] => acc
  | acc, i :: rest =>
    if lv i ≥ k then revRunsGE lv k (i :: acc) rest
    else acc ++ i :: revRunsGE lv k [] rest

/-- levels `hi, hi-1, …, lo` -/
def downFrom (hi lo : Nat) : List Nat := (List.range (hi + 1 - lo)).map (fun d => hi - d)

/-- L2: from the highest level down to the lowest odd level of the line,
    reverse every maximal run at that level or higher.  Result: logical index
    at each visual position. -/
def l2 (levels : List Nat) : List Nat :=
  let odds := levels.filter (· % 2 == 1)
  match odds with
  | [] => List.range levels.length
  | o :: os =>
    let lo := os.foldl min o
    let hi := levels.foldl max 0
    (downFrom hi lo).foldl (fun order k => revRunsGE (fun i => levels.getD i 0) k [] order)
      (List.range levels.length)

/-- lossy UTF-16 decoding: `(scalar, number of units)` -/
def isHighS (u : Nat) : Bool := 0xD800 ≤ u && u ≤ 0xDBFF
def isLowS (u : Nat) : Bool := 0xDC00 ≤ u && u ≤ 0xDFFF
def lossyUnit (u : Nat) : Nat := if isHighS u || isLowS u then 0xFFFD else u

def lossy : List Nat → List (Nat × Nat)
  | [] => []
  | [u] => [(lossyUnit u, 1)]
  | u :: v :: rest =>
    if isHighS u && isLowS v then
      (0x10000 + (u - 0xD800) * 1024 + (v - 0xDC00), 2) :: lossy rest
    else (lossyUnit u, 1) :: lossy (v :: rest)

end UBidi.Spec
